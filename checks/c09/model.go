package c09

import (
	"fmt"
	"sort"
	"strings"
)

// ---- the input model: a tiny element tree with display values and one extra deviation ------

// disp is a value of the display property of the alphabet.
type disp int

const (
	dInline disp = iota // the default of the unknown elements e1..e4
	dBlock
	dInlineBlock
	dListItem
	dNone
	dTable
	dInlineTable
	dRowGroup
	dHeaderGroup
	dFooterGroup
	dRow
	dCell
	dColumn
	dColGroup
	dCaption
	dFlex
	dInlineFlex
	dGrid
	dInlineGrid
	dContents
	dFlowRoot
	nDisp
)

var dispName = [nDisp]string{
	"inline", "block", "inline-block", "list-item", "none", "table", "inline-table",
	"table-row-group", "table-header-group", "table-footer-group", "table-row", "table-cell",
	"table-column", "table-column-group", "table-caption", "flex", "inline-flex", "grid",
	"inline-grid", "contents", "flow-root",
}

func (d disp) String() string { return dispName[d] }

func (d disp) tablePart() bool {
	switch d {
	case dRowGroup, dHeaderGroup, dFooterGroup, dRow, dCell, dColumn, dColGroup, dCaption:
		return true
	}
	return false
}

func (d disp) flexContainer() bool { return d == dFlex || d == dInlineFlex }
func (d disp) gridContainer() bool { return d == dGrid || d == dInlineGrid }

// blockLevelOuter: the box generated for this (computed) display is block-level.
func (d disp) blockLevelOuter() bool {
	switch d {
	case dBlock, dListItem, dTable, dFlex, dGrid, dFlowRoot:
		return true
	}
	return false
}

// blockify is the CSS 2.1 §9.7 table completed by CSS Display 3 §2.7 for the flex/grid values.
func blockify(d disp) disp {
	switch d {
	case dInline, dInlineBlock:
		return dBlock // inline-block -> block (flow-root): a BlockBox all the same
	case dInlineTable:
		return dTable
	case dInlineFlex:
		return dFlex
	case dInlineGrid:
		return dGrid
	case dRowGroup, dHeaderGroup, dFooterGroup, dRow, dCell, dColumn, dColGroup, dCaption:
		return dBlock
	}
	return d
}

// extra deviations
type extraKind int

const (
	xNone extraKind = iota
	// global
	xLspInside // list-style-position:inside (inherited from body)
	xWsOnly    // every text run is a single space
	xNoText    // no text at all
	xSpaced    // every text run is " x "
	// targeted at one element
	xFloat
	xAbs
	xFixed
	xBefore
	xAfter
	xImgChild
	xReplaced // the element itself is a replaced <object>; its children must vanish
	xColspan2
	xRowspan2
	xRowspan0
	xImgAlt      // thorough: <img alt=Q> without src: a non-replaced box holding the alt text
	xBeforeBlock // thorough: ::before{display:block}
	xBeforeCell  // thorough: ::before{display:table-cell}
	// the other properties that rewrite display or take the box out of the flow
	xFootnote       // float:footnote (footnote-display: block, the initial value)
	xFootnoteInline // float:footnote; footnote-display:inline
	xRunning        // position:running(h)
	// replaced content that loads, with content of its own, and content that does not load
	xObjPng     // the element is <object data=raster image served by the harness> with ::before and ::after
	xSvg        // the element is an inline <svg>: its children are SVG elements
	xObjBroken  // the element is <object data=URL that fails>: the children are the fallback and DO generate boxes
	xImgPseudo  // <img> child (raster image) with ::before and ::after content
	xImgLI      // <img> child with display:list-item (a marker is asked for)
	xEmbedChild // <embed> child (raster image)
	xImgBroken  // <img> child whose image fails, with alt text: a non-replaced box holding the alt text
	nExtraKinds
)

var extraName = [nExtraKinds]string{
	"none", "lsp-inside", "ws-only", "no-text", "spaced", "float", "abspos", "fixed", "before", "after",
	"img-child", "replaced", "colspan", "rowspan2", "rowspan0", "img-alt", "before-block", "before-cell",
	"footnote", "footnote-inline", "running", "object-png", "svg", "object-broken", "img-pseudo", "img-li",
	"embed-child", "img-broken",
}

func (k extraKind) targeted() bool { return k >= xFloat }

// replacedElem: the element itself is a replaced element whose image loads.
func (k extraKind) replacedElem() bool { return k == xReplaced || k == xObjPng || k == xSvg }

// footnote: the element is taken out of the tree into the footnote area.
func (k extraKind) footnote() bool { return k == xFootnote || k == xFootnoteInline }

// voidChild: an <img> / <embed> element is inserted as the first child of the target.
func (k extraKind) voidChild() bool {
	switch k {
	case xImgChild, xImgAlt, xImgPseudo, xImgLI, xEmbedChild, xImgBroken:
		return true
	}
	return false
}

// voidChildLoads: the inserted element is replaced by its image.
func (k extraKind) voidChildLoads() bool {
	return k == xImgChild || k == xImgPseudo || k == xImgLI || k == xEmbedChild
}

type extra struct {
	kind   extraKind
	target int // element number 1..N (0 for global kinds)
}

func (x extra) String() string {
	if x.kind.targeted() {
		return fmt.Sprintf("%s@e%d", extraName[x.kind], x.target)
	}
	return extraName[x.kind]
}

// node is one element of the document; node 0 is <body>.
type node struct {
	id     int
	parent int
	kids   []int
	d      disp // specified display
	x      extraKind
	segs   []string // text runs: before the first child, between children, after the last

	// derived by the reference (computeRef)
	cd        disp // computed display per CSS 2.1 §9.7 / flex & grid item blockification
	alive     bool // generates boxes
	deadWhy   string
	kidsAlive bool // children, text and pseudo-elements of this element generate boxes
	replaced  bool
	effParent int  // nearest ancestor that generates a box (display:contents skipped)
	inRunning bool // the element or an ancestor is a running element: table rules 1.1/1.2 are deferred
}

type docCase struct {
	shape []int // parent array (1-based elements, 0 = body)
	nodes []node
	x     extra
	html  string
	devs  int // number of deviations from the default document
}

// objectData is a 4x4 empty SVG image: the only replaced content of the alphabet.
const objectData = "data:image/svg+xml;base64,PHN2ZyB4bWxucz0naHR0cDovL3d3dy53My5vcmcvMjAwMC9zdmcnIHdpZHRoPSc0JyBoZWlnaHQ9JzQnLz4="

// contentsSupported is detected once (Init): does the implementation know display:contents?
// If it does not, CSS error handling makes the declaration void and the element keeps the
// default display (inline); clause I8 is then not applicable.
var contentsSupported bool

// runningBlockifiesTableParts is detected once (Init). GCPM does not say what the display of a
// running element (position:running()) computes to. The implementation either keeps a table-part
// display (the element stays in the table structure, out of the flow) or blockifies it as
// CSS 2.1 §9.7 does for the other out-of-flow boxes: the reference follows.
var runningBlockifiesTableParts bool

func newDoc(shape []int, ds []disp, x extra) *docCase {
	n := len(shape)
	dc := &docCase{shape: shape, x: x}
	dc.nodes = make([]node, n+1)
	dc.nodes[0] = node{id: 0, parent: -1, d: dBlock}
	for i := 1; i <= n; i++ {
		dc.nodes[i] = node{id: i, parent: shape[i-1], d: ds[i-1]}
		p := &dc.nodes[shape[i-1]]
		p.kids = append(p.kids, i)
		if ds[i-1] != dInline {
			dc.devs++
		}
	}
	if x.kind != xNone {
		dc.devs++
	}
	if x.kind.targeted() {
		dc.nodes[x.target].x = x.kind
	}
	// text runs, distinct letters in document order
	letter := 'a'
	var assign func(i int)
	assign = func(i int) {
		nd := &dc.nodes[i]
		nd.segs = make([]string, len(nd.kids)+1)
		for k := 0; k <= len(nd.kids); k++ {
			l := string(letter)
			letter++
			switch x.kind {
			case xWsOnly:
				nd.segs[k] = " "
			case xNoText:
				nd.segs[k] = ""
			case xSpaced:
				nd.segs[k] = " " + l + " "
			default:
				nd.segs[k] = l
			}
			if k < len(nd.kids) {
				assign(nd.kids[k])
			}
		}
	}
	assign(0)
	dc.html = dc.render()
	dc.computeRef()
	return dc
}

func (dc *docCase) render() string {
	var sb strings.Builder
	sb.WriteString(`<style>body{list-style-type:"M"}`)
	switch dc.x.kind {
	case xBefore:
		fmt.Fprintf(&sb, `#e%d::before{content:"B"}`, dc.x.target)
	case xBeforeBlock:
		fmt.Fprintf(&sb, `#e%d::before{content:"B";display:block}`, dc.x.target)
	case xBeforeCell:
		fmt.Fprintf(&sb, `#e%d::before{content:"B";display:table-cell}`, dc.x.target)
	case xAfter:
		fmt.Fprintf(&sb, `#e%d::after{content:"F"}`, dc.x.target)
	case xObjPng:
		fmt.Fprintf(&sb, `#e%d::before{content:"B"}#e%d::after{content:"F"}`, dc.x.target, dc.x.target)
	case xImgPseudo:
		sb.WriteString(`#i::before{content:"B"}#i::after{content:"F"}`)
	}
	sb.WriteString(`</style><body`)
	if dc.x.kind == xLspInside {
		sb.WriteString(` style="list-style-position:inside"`)
	}
	sb.WriteString(">")
	var rec func(i int)
	rec = func(i int) {
		nd := &dc.nodes[i]
		for k := 0; k <= len(nd.kids); k++ {
			sb.WriteString(nd.segs[k])
			if k == 0 {
				switch nd.x {
				case xImgChild:
					fmt.Fprintf(&sb, `<img id=i src="%s">`, objectData)
				case xImgAlt:
					sb.WriteString(`<img id=i alt=Q>`)
				case xImgPseudo:
					fmt.Fprintf(&sb, `<img id=i src="%s">`, pngURL)
				case xImgLI:
					fmt.Fprintf(&sb, `<img id=i src="%s" style="display:list-item">`, pngURL)
				case xEmbedChild:
					fmt.Fprintf(&sb, `<embed id=i src="%s">`, pngURL)
				case xImgBroken:
					fmt.Fprintf(&sb, `<img id=i src="%s" alt=Q>`, missingURL)
				}
			}
			if k < len(nd.kids) {
				c := &dc.nodes[nd.kids[k]]
				tag := fmt.Sprintf("e%d", c.id)
				switch c.x {
				case xReplaced, xObjPng, xObjBroken:
					tag = "object"
				case xSvg:
					tag = "svg"
				}
				fmt.Fprintf(&sb, `<%s id=e%d style="display:%s`, tag, c.id, c.d)
				switch c.x {
				case xFloat:
					sb.WriteString(";float:left")
				case xAbs:
					sb.WriteString(";position:absolute")
				case xFixed:
					sb.WriteString(";position:fixed")
				case xFootnote:
					sb.WriteString(";float:footnote")
				case xFootnoteInline:
					sb.WriteString(";float:footnote;footnote-display:inline")
				case xRunning:
					sb.WriteString(";position:running(h)")
				}
				sb.WriteString(`"`)
				switch c.x {
				case xColspan2:
					sb.WriteString(" colspan=2")
				case xRowspan2:
					sb.WriteString(" rowspan=2")
				case xRowspan0:
					sb.WriteString(" rowspan=0")
				case xReplaced:
					fmt.Fprintf(&sb, ` data="%s"`, objectData)
				case xObjPng:
					fmt.Fprintf(&sb, ` data="%s"`, pngURL)
				case xObjBroken:
					fmt.Fprintf(&sb, ` data="%s"`, missingURL)
				case xSvg:
					sb.WriteString(` width=4 height=4`)
				}
				sb.WriteString(">")
				rec(c.id)
				fmt.Fprintf(&sb, "</%s>", tag)
			}
		}
	}
	rec(0)
	return sb.String()
}

// computeRef derives, from the input alone, what CSS says about every element: its computed
// display, whether it generates boxes and whether its content does.
func (dc *docCase) computeRef() {
	body := &dc.nodes[0]
	body.cd, body.alive, body.kidsAlive, body.effParent = dBlock, true, true, -1
	var rec func(i int)
	rec = func(i int) {
		nd := &dc.nodes[i]
		p := &dc.nodes[nd.parent]
		// nearest box-generating ancestor
		ep := nd.parent
		for dc.nodes[ep].cd == dContents && contentsSupported {
			ep = dc.nodes[ep].effParent
		}
		nd.effParent = ep
		pp := &dc.nodes[ep]
		spec := nd.d
		if spec == dContents && !contentsSupported {
			spec = dInline // unknown value: the declaration is dropped
		}
		nd.replaced = nd.x.replacedElem()
		if nd.replaced && spec == dContents {
			spec = dNone // CSS Display 3 §2.5: display:contents on a replaced element computes to none
		}
		nd.cd = spec
		switch {
		case spec == dNone || spec == dContents:
		case nd.x == xFootnote:
			// GCPM §2.4: the box of a footnote element is generated according to footnote-display
			nd.cd = dBlock
		case nd.x == xFootnoteInline:
			nd.cd = dInline
		case nd.x == xAbs || nd.x == xFixed || nd.x == xFloat:
			nd.cd = blockify(spec)
		case nd.x == xRunning && spec.tablePart() && runningBlockifiesTableParts:
			nd.cd = dBlock
		case pp.cd.flexContainer() || pp.cd.gridContainer():
			nd.cd = blockify(spec)
		}
		if nd.replaced && nd.cd.tablePart() {
			// CSS Display 3 §2.4 / CSS 2.1 §17.2: a replaced element cannot be a table part;
			// it is an inline-level replaced box (calibration: <object style="display:table-column">
			// inside a column group is not a column, rule 1.2 removes it)
			nd.cd = dInline
		}
		nd.alive, nd.kidsAlive, nd.deadWhy = false, false, ""
		nd.inRunning = p.inRunning || (nd.x == xRunning && spec != dNone)
		switch {
		case !p.kidsAlive:
			// the parent's content generates nothing
			switch {
			case p.alive && p.replaced:
				nd.deadWhy = "replaced-child"
			case p.alive && p.cd == dColumn:
				nd.deadWhy = "column-child" // CSS 2.1 §17.2.1 rule 1.1
			default:
				nd.deadWhy = p.deadWhy
			}
		case nd.cd == dNone:
			nd.deadWhy = "none"
		case nd.cd == dContents:
			// no box of its own; the children live on as children of the parent's box
			nd.deadWhy = "contents"
			nd.kidsAlive = true
		case pp.cd == dColGroup && nd.cd != dColumn && !pp.inRunning:
			nd.deadWhy = "colgroup-child" // CSS 2.1 §17.2.1 rule 1.2
		default:
			nd.alive = true
			// (inside a running element the table rules are applied when its copy reaches a margin box)
			nd.kidsAlive = !nd.replaced && (nd.cd != dColumn || nd.inRunning)
		}
		for _, k := range nd.kids {
			rec(k)
		}
	}
	for _, k := range body.kids {
		rec(k)
	}
}

// textAlive: do the text runs / pseudo-elements of element i generate boxes?
func (dc *docCase) textAlive(i int) bool {
	nd := &dc.nodes[i]
	if !nd.kidsAlive {
		return false
	}
	host := i
	if nd.cd == dContents && contentsSupported {
		host = nd.effParent
	}
	// text directly inside a column group is not a table-column box: rule 1.2
	return dc.nodes[host].cd != dColGroup || dc.nodes[host].inRunning
}

// ---- feature tags ----------------------------------------------------------------------------

// relTags describes element i in its parent, from the input alone.
func (dc *docCase) relTags(i int, set map[string]bool) {
	nd := &dc.nodes[i]
	if i == 0 {
		return
	}
	pp := &dc.nodes[nd.effParent]
	set[nd.d.String()+"-in-"+pp.cd.String()] = true
	if pp.cd.flexContainer() {
		set[nd.d.String()+"-in-flex"] = true
		if nd.d.tablePart() {
			set["table-part-in-flex"] = true
		}
	}
	if pp.cd.gridContainer() {
		set[nd.d.String()+"-in-grid"] = true
		if nd.d.tablePart() {
			set["table-part-in-grid"] = true
		}
		if nd.d == dColumn || nd.d == dColGroup {
			set["column-part-in-grid"] = true
		}
	}
	if nd.x != xNone {
		set[extraName[nd.x]] = true
	}
	if nd.x.footnote() || nd.x == xRunning {
		set[extraName[nd.x]+"-"+nd.d.String()] = true
	}
	if nd.x == xRunning {
		switch {
		case pp.cd.flexContainer():
			set["running-flex-item"] = true
		case pp.cd.gridContainer():
			set["running-grid-item"] = true
		case nd.cd.tablePart():
			set["running-table-part"] = true
		case nd.cd == dInline:
			set["running-inline-box"] = true
		}
	}
	if nd.x == xFloat || nd.x == xAbs || nd.x == xFixed {
		// CSS 2.1 §9.7: display of an out-of-flow box is blockified
		set["out-of-flow-"+nd.d.String()] = true
		if nd.d == dInlineTable || nd.d == dInlineFlex || nd.d == dInlineGrid {
			set["out-of-flow-inline-container"] = true
		}
	}
}

// featuresOf returns the tags of the elements given and of all their ancestors, plus the
// global deviation of the document.
func (dc *docCase) featuresOf(elems ...int) []string {
	set := map[string]bool{}
	for _, e := range elems {
		for i := e; i > 0; i = dc.nodes[i].parent {
			dc.relTags(i, set)
		}
	}
	if dc.x.kind != xNone && !dc.x.kind.targeted() {
		set[extraName[dc.x.kind]] = true
	}
	out := make([]string, 0, len(set))
	for k := range set {
		out = append(out, k)
	}
	sort.Strings(out)
	return out
}

// ---- ordered forests -------------------------------------------------------------------------

// forests returns the parent arrays of all ordered forests of n nodes (pre-order numbering,
// parent 0 = <body>): 5 for n = 3, 14 for n = 4.
func forests(n int) [][]int {
	var out [][]int
	cur := make([]int, 0, n)
	var rec func(path []int)
	rec = func(path []int) { // path = rightmost path (ancestors of the last node, including it)
		if len(cur) == n {
			out = append(out, append([]int(nil), cur...))
			return
		}
		id := len(cur) + 1
		// the new node may hang under body or under any node of the rightmost path
		for k := 0; k <= len(path); k++ {
			parent := 0
			if k > 0 {
				parent = path[k-1]
			}
			cur = append(cur, parent)
			np := append(append([]int(nil), path[:k]...), id)
			rec(np)
			cur = cur[:len(cur)-1]
		}
	}
	rec(nil)
	// simplest first: flat forests before deep ones
	sort.SliceStable(out, func(i, j int) bool { return depthSum(out[i]) < depthSum(out[j]) })
	return out
}

func depthSum(p []int) int {
	s := 0
	for i := range p {
		for j := p[i]; j > 0; j = p[j-1] {
			s++
		}
	}
	return s
}
