package c09

import (
	"fmt"
	"sort"
	"strings"

	bo "github.com/benoitkugler/webrender/html/boxes"
)

// ---- the table sub-space (clause I4): real <table> markup, rows x cells x spans x row groups ----

// spanMenu: (colspan, rowspan) of one cell; rowspan 0 = "to the end of the row group".
var spanMenuQuick = []cellSpec{{1, 1}, {2, 1}, {1, 2}, {2, 2}, {1, 0}, {1, 3}, {3, 1}}
var spanMenuThorough = []cellSpec{{1, 1}, {2, 1}, {1, 2}, {2, 2}, {1, 0}, {1, 3}, {3, 1}, {2, 0}}

// group layouts of a table with R rows
const (
	lPlain     = iota // rows directly in <table> (the parser supplies one tbody)
	lTwoBodies        // first row in its own tbody
	lHead             // first row in thead
	lFootFirst        // first row in tfoot, written before the body: moves to the bottom
	lHeadLast         // last row in thead, written after the body: moves to the top (thorough)
	nLayouts
)

var layoutName = [nLayouts]string{"plain", "two-tbody", "thead", "tfoot-first", "thead-last"}

type tableSkeleton struct {
	cells  []int // cells per row
	layout int
	nCells int
	count  int64 // menu^nCells
	first  int64 // index of the first unit of this skeleton
	units  int64
}

const tableBatch = 256

func tableSkeletons(tier string) (sk []tableSkeleton, menu []cellSpec) {
	maxPerRow, maxTotal, layouts := 2, 4, 4
	menu = spanMenuQuick
	if tier == "thorough" {
		maxPerRow, maxTotal, layouts = 3, 5, 5
		menu = spanMenuThorough
	}
	var rec func(cur []int, total int)
	var shapes [][]int
	rec = func(cur []int, total int) {
		if len(cur) > 0 && total > 0 {
			shapes = append(shapes, append([]int(nil), cur...))
		}
		if len(cur) == 3 {
			return
		}
		for c := 0; c <= maxPerRow; c++ {
			if total+c <= maxTotal {
				rec(append(cur, c), total+c)
			}
		}
	}
	rec(nil, 0)
	sort.SliceStable(shapes, func(i, j int) bool {
		si, sj := 0, 0
		for _, c := range shapes[i] {
			si += c
		}
		for _, c := range shapes[j] {
			sj += c
		}
		if si != sj {
			return si < sj
		}
		return len(shapes[i]) < len(shapes[j])
	})
	for _, s := range shapes {
		n := 0
		for _, c := range s {
			n += c
		}
		for l := 0; l < layouts; l++ {
			if l != lPlain && len(s) < 2 {
				continue
			}
			cnt := int64(1)
			for i := 0; i < n; i++ {
				cnt *= int64(len(menu))
			}
			sk = append(sk, tableSkeleton{cells: s, layout: l, nCells: n, count: cnt, units: (cnt + tableBatch - 1) / tableBatch})
		}
	}
	return sk, menu
}

type tGroup struct {
	kind string // "", thead, tbody, tfoot
	rows [][]int
}

type tableCase struct {
	sk     *tableSkeleton
	spans  []cellSpec // per cell, source order (cell k has id c<k+1> and text letter k)
	groups []tGroup   // source order; rows hold cell numbers
	html   string
	// reference
	boxGroups []tGroup // box order: header, bodies, footer
	wantX     []int    // HTML algorithm
	wantXs    []int    // shifting algorithm
	wantRs    []int
	overlap   bool
	feats     []string
	devs      int
}

func newTableCase(sk *tableSkeleton, menu []cellSpec, idx int64) *tableCase {
	tc := &tableCase{sk: sk}
	tc.spans = make([]cellSpec, sk.nCells)
	for i := sk.nCells - 1; i >= 0; i-- {
		tc.spans[i] = menu[idx%int64(len(menu))]
		idx /= int64(len(menu))
	}
	var rows [][]int
	k := 0
	for _, c := range sk.cells {
		var r []int
		for i := 0; i < c; i++ {
			r = append(r, k)
			k++
		}
		rows = append(rows, r)
	}
	switch sk.layout {
	case lPlain:
		tc.groups = []tGroup{{"", rows}}
	case lTwoBodies:
		tc.groups = []tGroup{{"tbody", rows[:1]}, {"tbody", rows[1:]}}
	case lHead:
		tc.groups = []tGroup{{"thead", rows[:1]}, {"tbody", rows[1:]}}
	case lFootFirst:
		tc.groups = []tGroup{{"tfoot", rows[:1]}, {"tbody", rows[1:]}}
	case lHeadLast:
		tc.groups = []tGroup{{"tbody", rows[:len(rows)-1]}, {"thead", rows[len(rows)-1:]}}
	}
	var sb strings.Builder
	sb.WriteString("<table>")
	for _, g := range tc.groups {
		if g.kind != "" {
			sb.WriteString("<" + g.kind + ">")
		}
		for _, r := range g.rows {
			sb.WriteString("<tr>")
			for _, c := range r {
				fmt.Fprintf(&sb, "<td id=c%d", c+1)
				if s := tc.spans[c]; s.cs != 1 {
					fmt.Fprintf(&sb, " colspan=%d", s.cs)
				}
				if s := tc.spans[c]; s.rs != 1 {
					fmt.Fprintf(&sb, " rowspan=%d", s.rs)
				}
				sb.WriteString(">" + string(rune('a'+c)))
			}
			sb.WriteString("</tr>")
		}
		if g.kind != "" {
			sb.WriteString("</" + g.kind + ">")
		}
	}
	sb.WriteString("</table>")
	tc.html = sb.String()
	tc.reference()
	return tc
}

// reference: CSS 2.1 §17.2 (the header group comes first, the footer group last) and §17.5 /
// HTML "forming a table" (slot assignment inside each row group).
func (tc *tableCase) reference() {
	var head, foot *tGroup
	var bodies []tGroup
	for i := range tc.groups {
		g := &tc.groups[i]
		switch {
		case g.kind == "thead" && head == nil:
			head = g
		case g.kind == "tfoot" && foot == nil:
			foot = g
		default:
			bodies = append(bodies, *g)
		}
	}
	if head != nil {
		tc.boxGroups = append(tc.boxGroups, *head)
	}
	tc.boxGroups = append(tc.boxGroups, bodies...)
	if foot != nil {
		tc.boxGroups = append(tc.boxGroups, *foot)
	}
	n := len(tc.spans)
	tc.wantX, tc.wantXs, tc.wantRs = make([]int, n), make([]int, n), make([]int, n)
	for _, g := range tc.boxGroups {
		rows := make([][]cellSpec, len(g.rows))
		for y, r := range g.rows {
			for _, c := range r {
				rows[y] = append(rows[y], tc.spans[c])
			}
		}
		xh, rs, ovl := slotSim(rows, false)
		xsft, _, _ := slotSim(rows, true)
		if ovl {
			tc.overlap = true
		}
		for y, r := range g.rows {
			for i, c := range r {
				tc.wantX[c], tc.wantXs[c], tc.wantRs[c] = xh[y][i], xsft[y][i], rs[y][i]
			}
		}
	}
	set := map[string]bool{"table-markup": true, layoutName[tc.sk.layout]: true}
	if tc.overlap {
		set["colspan-over-rowspan-slot"] = true
	}
	for _, c := range tc.sk.cells {
		if c == 0 {
			set["empty-row"] = true
		}
	}
	for _, s := range tc.spans {
		if s.cs != 1 {
			set["colspan"] = true
			tc.devs++
		}
		if s.rs == 0 {
			set["rowspan0"] = true
		}
		if s.rs != 1 {
			set["rowspan"] = true
			tc.devs++
		}
	}
	if tc.sk.layout != lPlain {
		tc.devs++
	}
	for k := range set {
		tc.feats = append(tc.feats, k)
	}
	sort.Strings(tc.feats)
}

// check compares the cells of the box tree with the reference (input-driven part of I4).
func (tc *tableCase) check(ti *treeInfo) {
	add := func(clause, detail string) {
		ti.finds = append(ti.finds, finding{clause: clause, detail: detail})
	}
	if len(ti.tables) != 1 {
		add("I3-table-count", fmt.Sprintf("one <table>, %d table boxes", len(ti.tables)))
		return
	}
	// row order: header first, footer last
	var gotRows, wantRows []string
	for _, g := range ti.tables[0].b.Box().Children {
		for _, r := range g.Box().Children {
			var ids []string
			for _, c := range r.Box().Children {
				ids = append(ids, ownerKey(c))
			}
			gotRows = append(gotRows, strings.Join(ids, ","))
		}
		gotRows = append(gotRows, "/")
	}
	for _, g := range tc.boxGroups {
		for _, r := range g.rows {
			var ids []string
			for _, c := range r {
				ids = append(ids, fmt.Sprintf("c%d", c+1))
			}
			wantRows = append(wantRows, strings.Join(ids, ","))
		}
		wantRows = append(wantRows, "/")
	}
	if strings.Join(gotRows, ";") != strings.Join(wantRows, ";") {
		add("I3-rows-and-groups", fmt.Sprintf("rows of the table box: %s, expected %s", strings.Join(gotRows, ";"), strings.Join(wantRows, ";")))
		return
	}
	for c := range tc.spans {
		refs := ti.byOwner[fmt.Sprintf("c%d", c+1)]
		var cell bo.Box
		for _, r := range refs {
			if is(bo.TableCellT, r.b) {
				cell = r.b
			}
		}
		letter := rune('a' + c)
		if ti.letters[letter] != 1 {
			add("I7-content-lost", fmt.Sprintf("text %q of cell c%d occurs %d times", letter, c+1, ti.letters[letter]))
		}
		if cell == nil {
			add("I7-content-lost", fmt.Sprintf("cell c%d generates no cell box", c+1))
			continue
		}
		f := cell.Box()
		ti.counters["I4:cells-compared-with-reference"]++
		if f.Colspan != tc.spans[c].cs || f.Rowspan != tc.wantRs[c] {
			add("I4-span-attribute", fmt.Sprintf("cell c%d colspan=%d rowspan=%d: expected Colspan=%d Rowspan=%d (clipped to the row group), got %d, %d",
				c+1, tc.spans[c].cs, tc.spans[c].rs, tc.spans[c].cs, tc.wantRs[c], f.Colspan, f.Rowspan))
		}
		if f.GridX != tc.wantX[c] && !(tc.overlap && f.GridX == tc.wantXs[c]) {
			add("I4-grid-x", fmt.Sprintf("cell c%d: GridX=%d, reference %d", c+1, f.GridX, tc.wantX[c]))
		}
	}
	if tc.overlap {
		ti.counters["I4:tables-where-colspan-meets-rowspan-slot"]++
	}
}

// slotSimSelfTest runs the examples of the specifications through the reference.
func slotSimSelfTest() error {
	// CSS 2.1 §17.5, the example of the overlap: <tr><td>1<td rowspan=2>2<td>3<td>4</tr><tr><td colspan=2>5</tr>
	rows := [][]cellSpec{{{1, 1}, {1, 2}, {1, 1}, {1, 1}}, {{2, 1}}}
	x, rs, ovl := slotSim(rows, false)
	if !(x[0][1] == 1 && rs[0][1] == 2 && x[1][0] == 0 && ovl) {
		return fmt.Errorf("slotSim: CSS 2.1 17.5 overlap example: %v %v %v", x, rs, ovl)
	}
	x, _, ovl = slotSim(rows, true)
	if !(x[1][0] == 2 && !ovl) {
		return fmt.Errorf("slotSim(shift): CSS 2.1 17.5 overlap example: %v %v", x, ovl)
	}
	// HTML 4 §11.2.6: <tr><td rowspan=2>1<td>2<td>3</tr><tr><td>4<td>5</tr>: 4 lands in column 1
	rows = [][]cellSpec{{{1, 2}, {1, 1}, {1, 1}}, {{1, 1}, {1, 1}}}
	x, _, ovl = slotSim(rows, false)
	if !(x[1][0] == 1 && x[1][1] == 2 && !ovl) {
		return fmt.Errorf("slotSim: rowspan example: %v", x)
	}
	// rowspan=0 and a too large rowspan are clipped to the row group
	rows = [][]cellSpec{{{1, 0}, {1, 5}}, {{1, 1}}, {}}
	x, rs, _ = slotSim(rows, false)
	if !(rs[0][0] == 3 && rs[0][1] == 3 && x[1][0] == 2) {
		return fmt.Errorf("slotSim: clipping: %v %v", x, rs)
	}
	return nil
}
