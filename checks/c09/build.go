package c09

import (
	"fmt"
	"io"
	"strings"

	"github.com/benoitkugler/webrender/css/counters"
	pr "github.com/benoitkugler/webrender/css/properties"
	bo "github.com/benoitkugler/webrender/html/boxes"
	"github.com/benoitkugler/webrender/html/tree"
	"github.com/benoitkugler/webrender/images"
	"github.com/benoitkugler/webrender/logger"
	"github.com/benoitkugler/webrender/utils"
)

func init() {
	logger.ProgressLogger.SetOutput(io.Discard)
	logger.WarningLogger.SetOutput(io.Discard)
}

// imgCache is shared by all the documents of a worker: the only image ever fetched is the
// tiny data: URI of the alphabet, so that sharing the cache cannot couple two cases.
var imgCache = images.NewCache()

// buildTree runs the real pipeline up to the formatting structure (no layout, no fonts):
// tree.NewHTML -> tree.GetAllComputedStyles -> boxes.BuildFormattingStructure.
// It must be called under ctx.Guard.
func buildTree(html string) bo.Box {
	doc, err := tree.NewHTML(utils.InputString(html), "", nil, "")
	if err != nil {
		panic("tree.NewHTML: " + err.Error())
	}
	cs := make(counters.CounterStyle)
	style := tree.GetAllComputedStyles(doc, nil, false, nil, cs, nil, nil, false, nil)
	imgFetcher := func(url string, forcedMimeType string, orientation pr.SBoolFloat) images.Image {
		return images.GetImageFromUri(imgCache, doc.UrlFetcher, false, url, forcedMimeType, orientation)
	}
	tr := tree.NewTargetCollector()
	var fn []bo.Box
	return bo.BuildFormattingStructure(doc.Root, style, bo.URLResolver{Fetch: doc.UrlFetcher, FetchImage: imgFetcher}, "", &tr, cs, &fn)
}

// elemID returns the id attribute of the element a box was generated for ("" if none).
func elemID(b bo.Box) string {
	e := b.Box().Element
	if e == nil {
		return ""
	}
	for _, a := range e.Attr {
		if a.Key == "id" {
			return a.Val
		}
	}
	return e.Data
}

// dumpTree is the canonical textual form of a box tree (types, owner, spans, text).
func dumpTree(b bo.Box) string {
	var sb strings.Builder
	var rec func(b bo.Box, depth int)
	rec = func(b bo.Box, depth int) {
		f := b.Box()
		sb.WriteString(strings.Repeat(" ", depth))
		sb.WriteString(b.Type().String())
		sb.WriteString("<" + elemID(b))
		if f.PseudoType != "" {
			sb.WriteString("::" + f.PseudoType)
		}
		sb.WriteString(">")
		if f.IsTableWrapper {
			sb.WriteString(" wrapper")
		}
		if !f.IsInNormalFlow() {
			sb.WriteString(" out-of-flow")
		}
		if bo.TableCellT.IsInstance(b) {
			fmt.Fprintf(&sb, " x=%d cs=%d rs=%d", f.GridX, f.Colspan, f.Rowspan)
		}
		if tb, ok := b.(*bo.TextBox); ok {
			fmt.Fprintf(&sb, " %q", tb.TextS())
		}
		sb.WriteString("\n")
		if t, ok := b.(bo.TableBoxITF); ok {
			for _, g := range t.Table().ColumnGroups {
				sb.WriteString(strings.Repeat(" ", depth+1) + "(colgroup)\n")
				rec(g, depth+2)
			}
		}
		for _, c := range f.Children {
			rec(c, depth+1)
		}
	}
	rec(b, 0)
	return sb.String()
}
