package c09

import (
	"bytes"
	"fmt"
	"image"
	"image/color"
	"image/png"
	"io"
	"strings"

	"github.com/benoitkugler/webrender/css/counters"
	pr "github.com/benoitkugler/webrender/css/properties"
	bo "github.com/benoitkugler/webrender/html/boxes"
	"github.com/benoitkugler/webrender/html/tree"
	"github.com/benoitkugler/webrender/images"
	"github.com/benoitkugler/webrender/logger"
	"github.com/benoitkugler/webrender/utils"
)

func init() {
	logger.ProgressLogger.SetOutput(io.Discard)
	logger.WarningLogger.SetOutput(io.Discard)
}

// imgCache is shared by all the documents of a worker: the only images ever fetched are the
// tiny data: URI of the alphabet, the served raster image and the URL that does not exist (the
// failure is cached as well), so that sharing the cache cannot couple two cases.
var imgCache = images.NewCache()

// The raster image of the alphabet, served at pngURL by the fetcher of the harness (a 4x4 PNG
// made in memory: no file of the repository is needed). missingURL is never served.
const (
	pngURL     = "http://h/img.png"
	missingURL = "http://h/none.png"
)

var pngBytes = func() []byte {
	im := image.NewNRGBA(image.Rect(0, 0, 4, 4))
	for i := 0; i < 16; i++ {
		im.Set(i%4, i/4, color.NRGBA{R: uint8(16 * i), G: 128, B: 255 - uint8(16*i), A: 255})
	}
	var buf bytes.Buffer
	if err := png.Encode(&buf, im); err != nil {
		panic(err)
	}
	return buf.Bytes()
}()

// fetch is the URL fetcher of every document: http://h/img.png is the raster image, any other
// http:// URL fails, everything else (data: URIs) goes to the default fetcher.
func fetch(url string) (utils.RemoteRessource, error) {
	if url == pngURL {
		return utils.RemoteRessource{Content: bytes.NewReader(pngBytes), MimeType: "image/png", RedirectedUrl: url}, nil
	}
	if strings.HasPrefix(url, "http://") {
		return utils.RemoteRessource{}, fmt.Errorf("harness: no such resource %s", url)
	}
	return utils.DefaultUrlFetcher(url)
}

// built is the formatting structure of one document: the box tree and the list of footnote
// boxes (taken out of the tree; a ::footnote-call box of the tree points to each of them).
type built struct {
	root      bo.Box
	footnotes []bo.Box
}

// buildTree runs the real pipeline up to the formatting structure (no layout, no fonts):
// tree.NewHTML -> tree.GetAllComputedStyles -> boxes.BuildFormattingStructure.
// It must be called under ctx.Guard.
func buildTree(html string) bo.Box { return buildDoc(html).root }

func buildDoc(html string) built {
	doc, err := tree.NewHTML(utils.InputString(html), "", fetch, "")
	if err != nil {
		panic("tree.NewHTML: " + err.Error())
	}
	cs := make(counters.CounterStyle)
	style := tree.GetAllComputedStyles(doc, nil, false, nil, cs, nil, nil, false, nil)
	imgFetcher := func(url string, forcedMimeType string, orientation pr.SBoolFloat) images.Image {
		return images.GetImageFromUri(imgCache, doc.UrlFetcher, false, url, forcedMimeType, orientation)
	}
	tr := tree.NewTargetCollector()
	var fn []bo.Box
	root := bo.BuildFormattingStructure(doc.Root, style, bo.URLResolver{Fetch: doc.UrlFetcher, FetchImage: imgFetcher}, "", &tr, cs, &fn)
	return built{root: root, footnotes: fn}
}

// footnoteArea does what layout does with the footnotes of a page (html/layout/layout.go,
// pages.go: CreateAnonymousBox(Deepcopy(footnoteArea))): the footnote boxes become the children
// of a block box and the anonymous-box passes run on it. Only then is the formatting structure
// of the footnotes complete. It must be called under ctx.Guard.
func footnoteArea(root bo.Box, footnotes []bo.Box) bo.Box {
	area := bo.BlockBoxAnonymousFrom(root, append([]bo.Box(nil), footnotes...))
	return bo.CreateAnonymousBox(area)
}

// elemID returns the id attribute of the element a box was generated for ("" if none).
func elemID(b bo.Box) string {
	e := b.Box().Element
	if e == nil {
		return ""
	}
	for _, a := range e.Attr {
		if a.Key == "id" {
			return a.Val
		}
	}
	return e.Data
}

// dumpTree is the canonical textual form of a box tree (types, owner, spans, text).
func dumpTree(b bo.Box) string {
	var sb strings.Builder
	var rec func(b bo.Box, depth int)
	rec = func(b bo.Box, depth int) {
		f := b.Box()
		sb.WriteString(strings.Repeat(" ", depth))
		sb.WriteString(b.Type().String())
		sb.WriteString("<" + elemID(b))
		if f.PseudoType != "" {
			sb.WriteString("::" + f.PseudoType)
		}
		sb.WriteString(">")
		if f.IsTableWrapper {
			sb.WriteString(" wrapper")
		}
		if !f.IsInNormalFlow() {
			sb.WriteString(" out-of-flow")
		}
		if f.IsRunning() {
			sb.WriteString(" running")
		}
		if f.Footnote != nil {
			sb.WriteString(" call-of:" + ownerKey(f.Footnote))
		}
		if bo.TableCellT.IsInstance(b) {
			fmt.Fprintf(&sb, " x=%d cs=%d rs=%d", f.GridX, f.Colspan, f.Rowspan)
		}
		if tb, ok := b.(*bo.TextBox); ok {
			fmt.Fprintf(&sb, " %q", tb.TextS())
		}
		sb.WriteString("\n")
		if t, ok := b.(bo.TableBoxITF); ok {
			for _, g := range t.Table().ColumnGroups {
				sb.WriteString(strings.Repeat(" ", depth+1) + "(colgroup)\n")
				rec(g, depth+2)
			}
		}
		for _, c := range f.Children {
			rec(c, depth+1)
		}
	}
	rec(b, 0)
	return sb.String()
}
