// Package c09: the box tree obeys the CSS box-generation rules.
//
// Bounded exhaustive enumeration of small element trees (ordered forests of 2, 3, in thorough 4,
// unknown elements under <body>, with distinct letters before/between/after the children) x every
// assignment of the 21 display keywords to every element x one extra deviation (float, absolute
// or fixed position, ::before/::after, marker position, <img> child, replaced element, colspan,
// rowspan, white-space-only / no text; with the 2-element forests, and in thorough with the
// 3-element forests: float:footnote with block / inline footnote-display, position:running(),
// replaced elements that load -- <object> with svg or raster data served by the harness, inline
// <svg> -- with fallback content, children and ::before/::after of their own, <img>/<embed>
// children with pseudo-elements or display:list-item, images that fail), plus a sub-space of real
// <table> markup (rows x cells x colspan/rowspan x row groups). Every document goes through the
// real pipeline tree.NewHTML -> GetAllComputedStyles -> boxes.BuildFormattingStructure (no
// layout); the resulting tree, and the footnote boxes its ::footnote-call boxes point to, are
// checked against the invariants I1..I9 of DESIGN §5 C09.
package c09

import (
	"fmt"
	"sort"
	"strings"

	bo "github.com/benoitkugler/webrender/html/boxes"

	"verif/internal/engine"
)

type check struct {
	tier     string
	shapes2  [][]int
	shapes3  [][]int
	shapes4  [][]int
	nF       int64 // units of the 2-element space: shape x d1 (every extra deviation)
	nA       int64 // units of the 3-element space: shape x d1 x d2
	skel     []tableSkeleton
	menu     []cellSpec
	nB       int64 // units of the table space
	nC       int64 // units of the 4-element space (thorough): shape x d1 x d2 x d3
	initNote string
}

func init() { engine.Register(&check{}) }

func (c *check) ID() string { return "C09" }

const nD = int64(nDisp)

func (c *check) Init(tier string, seed int64) engine.Space {
	c.tier = tier
	c.shapes2 = forests(2)
	c.nF = int64(len(c.shapes2)) * nD
	c.shapes3 = forests(3)
	c.nA = int64(len(c.shapes3)) * nD * nD
	c.skel, c.menu = tableSkeletons(tier)
	c.nB = 0
	for i := range c.skel {
		c.skel[i].first = c.nB
		c.nB += c.skel[i].units
	}
	c.nC = 0
	if tier == "thorough" {
		c.shapes4 = forests(4)
		c.nC = int64(len(c.shapes4)) * nD * nD * nD
	}
	// capability probe and reference self-test (never allowed to crash Init)
	func() {
		defer func() {
			if r := recover(); r != nil {
				c.initNote = fmt.Sprint("probe panicked: ", r)
			}
		}()
		if err := slotSimSelfTest(); err != nil {
			panic(err)
		}
		root := buildTree(`<body>x<e1 id=e1 style="display:contents">y</e1>`)
		ti := analyse(root)
		contentsSupported = len(ti.byOwner["e1"]) == 0
		ti = analyse(buildTree(`<body>x<e1 id=e1 style="display:table-cell;position:running(h)">y</e1>`))
		if r := ti.byOwner["e1"]; len(r) > 0 {
			runningBlockifiesTableParts = !is(bo.TableCellT, r[0].b)
		}
		// the images of the alphabet must load (or the replaced-element symbols are void)
		for _, d := range []string{objectData, pngURL} {
			ti = analyse(buildTree(`<body>x<object id=e1 data="` + d + `">y</object>`))
			if r := ti.byOwner["e1"]; len(r) != 1 || !is(bo.ReplacedT, r[0].b) {
				c.initNote += "image does not load: " + d[:16] + "; "
			}
		}
	}()
	var tables int64
	for _, s := range c.skel {
		tables += s.count
	}
	// one unit per request (0.1-1 s of work): a change of the code under test that makes a whole class
	// of documents overflow the stack (fatal, not recoverable: the engine restarts the worker and
	// re-runs the range without the poisoned case) must stay below the engine's limit of worker deaths
	// per range
	chunk := int64(1)
	return engine.Space{
		Units: c.nF + c.nA + c.nB + c.nC, Chunk: chunk, Level: "model_checking",
		Rule: "every ordered forest of 2 elements under <body> x every assignment of the 21 display keywords x {no extra, or one extra deviation of the full list: out-of-flow and display-rewriting properties (float, absolute, fixed, float:footnote with block and inline footnote-display, position:running()), pseudo-elements, replaced elements that load (object with svg / raster data, inline svg) with fallback content, children and pseudo-elements of their own, <img>/<embed> children with pseudo-elements or display:list-item, images that fail}; then every ordered forest of 3 (thorough: also 4) elements under <body> x every assignment of the 21 display keywords to every element (4 elements: at most 3 deviations in total) x {no extra, or one extra deviation}; then every <table> of up to 3 rows with the listed cells per row x every (colspan,rowspan) of the menu per cell x row-group layouts; each case is built with the real BuildFormattingStructure and checked against I1..I9; a case is non-trivial when the fix-up passes had to create at least one anonymous box or drop an element",
		Bounds: map[string]any{
			"displays": dispName[:], "forests_of_2": len(c.shapes2), "extras_of_3_element_forests": c.extraNames(3), "forests_of_3": len(c.shapes3), "forests_of_4": len(c.shapes4),
			"extras": extraName[:], "table_skeletons": len(c.skel), "tables": tables, "span_menu": fmt.Sprint(c.menu),
			"display_contents_supported_by_implementation": contentsSupported, "running_table_parts_blockified_by_implementation": runningBlockifiesTableParts, "init_note": c.initNote,
		},
		Assumptions: []string{
			"trees deeper or wider than 4 elements (+ pseudo-elements, markers, one <img>) are not explored",
			"at most one extra deviation per document; for 4 elements at most 3 deviations in total",
			"quick tier: the extra deviations added with the 2-element forests (footnote, running, loaded replaced elements with content, failing images) are combined with 2-element forests only; the thorough tier combines them with the 3-element forests as well",
			"the content of a running element (position:running()) is left as built by every anonymous-box pass until a copy is placed in a margin box at layout: inside a running box that block or inline layout takes out of the flow (child of a block container, a line or an inline box) only I6/I7 (what generates boxes) are checked; a running box that is a child of a table part or of a flex/grid container is handled by layout as an in-flow child: the structure clauses apply to it and are reported as I1-running-content-unfinished",
			"GCPM does not define the computed display of a running element: the reference follows the implementation (table-part displays kept, or blockified as for the other out-of-flow boxes), detected at start-up",
			"footnotes: the boxes reached through a ::footnote-call box of the tree are checked after the step layout applies to a footnote area (CreateAnonymousBox on a block box holding them); a footnote of the list that no call points to is never laid out and is only counted",
			"display:list-item on a footnote element: whether the list marker survives footnote-display is not specified and not checked",
			"display values outside the 21 keywords (ruby, run-in, two-keyword forms) are not explored",
			"display:contents is rejected by the validator of the implementation: the declaration is void (CSS error handling) and clause I8 is not applicable; the symbol stays in the alphabet as 'invalid value'",
			"CSS 2.1 §17.5 leaves the position of a column-spanning cell that meets a row-spanning cell undefined (overlap or shift); the property statement asks for 'no two cells on the same grid slot', which is what clause I4-slot-overlap checks",
		},
		BudgetS: 0, MinOutcomes: 2,
	}
}

// extraNames lists the targeted extra kinds used with forests of n elements in this tier.
func (c *check) extraNames(n int) []string {
	seen := map[extraKind]bool{}
	ds := make([]disp, n)
	ds[0] = dCell
	ds[n-1] = dListItem
	var out []string
	for _, x := range c.extrasFor(ds, true) {
		if !seen[x.kind] {
			seen[x.kind] = true
			out = append(out, extraName[x.kind])
		}
	}
	return out
}

// newKinds: the extra deviations added with the 2-element space.
var newKinds = []extraKind{xFootnote, xFootnoteInline, xRunning, xObjPng, xSvg, xObjBroken, xImgPseudo, xImgLI, xEmbedChild, xImgBroken}

// extrasFor lists the extra deviations applicable to a display assignment.
func (c *check) extrasFor(ds []disp, withExtras bool) []extra {
	out := []extra{{xNone, 0}}
	if !withExtras {
		return out
	}
	hasLI := false
	for _, d := range ds {
		if d == dListItem {
			hasLI = true
		}
	}
	if hasLI {
		out = append(out, extra{xLspInside, 0})
	}
	out = append(out, extra{xWsOnly, 0}, extra{xNoText, 0})
	if c.tier == "thorough" || len(ds) == 2 {
		out = append(out, extra{xSpaced, 0})
	}
	for t := 1; t <= len(ds); t++ {
		for _, k := range []extraKind{xFloat, xAbs, xFixed, xBefore, xAfter, xImgChild, xReplaced} {
			out = append(out, extra{k, t})
		}
		if ds[t-1] == dCell || ds[t-1] == dRow {
			// span attributes are read from the element of a cell box, and of a row box when an
			// anonymous cell is made from it
			out = append(out, extra{xColspan2, t}, extra{xRowspan2, t}, extra{xRowspan0, t})
		}
		if c.tier == "thorough" || len(ds) == 2 {
			out = append(out, extra{xImgAlt, t}, extra{xBeforeBlock, t}, extra{xBeforeCell, t})
		}
		if len(ds) == 2 || (c.tier == "thorough" && len(ds) == 3) {
			for _, k := range newKinds {
				out = append(out, extra{k, t})
			}
		}
	}
	return out
}

func (c *check) Run(u int64, ctx *engine.Ctx) {
	if u < c.nF {
		s := u / nD
		d1 := disp(u % nD)
		for d2 := disp(0); d2 < nDisp; d2++ {
			ds := []disp{d1, d2}
			for _, x := range c.extrasFor(ds, true) {
				c.runDoc(ctx, newDoc(c.shapes2[s], ds, x))
			}
		}
		return
	}
	u -= c.nF
	switch {
	case u < c.nA:
		s := u / (nD * nD)
		d1 := disp(u / nD % nD)
		d2 := disp(u % nD)
		for d3 := disp(0); d3 < nDisp; d3++ {
			ds := []disp{d1, d2, d3}
			for _, x := range c.extrasFor(ds, true) {
				c.runDoc(ctx, newDoc(c.shapes3[s], ds, x))
			}
		}
	case u < c.nA+c.nB:
		c.runTables(u-c.nA, ctx)
	default:
		v := u - c.nA - c.nB
		s := v / (nD * nD * nD)
		d1 := disp(v / (nD * nD) % nD)
		d2 := disp(v / nD % nD)
		d3 := disp(v % nD)
		k := 0
		for _, d := range []disp{d1, d2, d3} {
			if d != dInline {
				k++
			}
		}
		for d4 := disp(0); d4 < nDisp; d4++ {
			kk := k
			if d4 != dInline {
				kk++
			}
			if kk > 3 {
				break // at most 3 deviations: d4 stays at the default
			}
			ds := []disp{d1, d2, d3, d4}
			for _, x := range c.extrasFor(ds, kk < 3) {
				c.runDoc(ctx, newDoc(c.shapes4[s], ds, x))
			}
		}
	}
}

func (c *check) report(ctx *engine.Ctx, desc string, ti *treeInfo, feat func(f finding) []string) {
	seen := map[string]bool{}
	for _, f := range ti.finds {
		feats := feat(f)
		k := f.clause + "|" + strings.Join(feats, ",")
		if seen[k] {
			continue // one failure per clause and region and case
		}
		seen[k] = true
		ctx.Fail(engine.Failure{Clause: f.clause, Features: feats, Case: desc, Detail: f.detail})
	}
	for k, v := range ti.counters {
		ctx.Count(k, v)
	}
}

func (c *check) runDoc(ctx *engine.Ctx, dc *docCase) {
	var ti *treeInfo
	all := make([]int, 0, len(dc.nodes))
	for i := 1; i < len(dc.nodes); i++ {
		all = append(all, i)
	}
	ctx.Trans(int64(dc.devs))
	ok := ctx.GuardFail(dc.html, dc.featuresOf(all...), func() {
		ti = analyseDoc(buildDoc(dc.html))
		for _, t := range ti.tables {
			ti.checkGrid(t.b)
		}
	})
	if !ok {
		ctx.Case(true, "panic")
		return
	}
	dc.checkInput(ti)
	dead := false
	for i := 1; i < len(dc.nodes); i++ {
		if !dc.nodes[i].alive {
			dead = true
		}
	}
	ctx.Case(ti.anon > 0 || dead, ti.skeleton.String())
	c.report(ctx, dc.html, ti, func(f finding) []string {
		feats := dc.featuresOf(f.elems...)
		for _, x := range f.extra {
			dup := false
			for _, y := range feats {
				dup = dup || x == y
			}
			if !dup {
				feats = append(feats, x)
			}
		}
		sort.Strings(feats)
		return feats
	})
}

func (c *check) tableUnit(u int64) (*tableSkeleton, int64, int64) {
	i := sort.Search(len(c.skel), func(i int) bool { return c.skel[i].first+c.skel[i].units > u })
	sk := &c.skel[i]
	lo := (u - sk.first) * tableBatch
	hi := lo + tableBatch
	if hi > sk.count {
		hi = sk.count
	}
	return sk, lo, hi
}

func (c *check) runTables(u int64, ctx *engine.Ctx) {
	sk, lo, hi := c.tableUnit(u)
	for idx := lo; idx < hi; idx++ {
		tc := newTableCase(sk, c.menu, idx)
		var ti *treeInfo
		ctx.Trans(int64(tc.devs))
		ok := ctx.GuardFail(tc.html, tc.feats, func() {
			root := buildTree(tc.html)
			ti = analyse(root)
			for _, t := range ti.tables {
				ti.checkGrid(t.b)
			}
		})
		if !ok {
			ctx.Case(true, "panic")
			continue
		}
		tc.check(ti)
		ctx.Case(tc.devs > 0, ti.skeleton.String())
		c.report(ctx, tc.html, ti, func(f finding) []string { return tc.feats })
	}
}

func (c *check) Describe(u int64) any {
	if u < c.nF {
		s := u / nD
		d1 := disp(u % nD)
		first := newDoc(c.shapes2[s], []disp{d1, 0}, extra{})
		return map[string]any{"space": "2 elements", "forest(parents)": c.shapes2[s], "display(e1)": d1.String(),
			"display(e2)": "all 21", "extras": "none + every applicable extra deviation of the full list", "first": first.html}
	}
	u -= c.nF
	switch {
	case u < c.nA:
		s := u / (nD * nD)
		d1 := disp(u / nD % nD)
		d2 := disp(u % nD)
		first := newDoc(c.shapes3[s], []disp{d1, d2, 0}, extra{})
		return map[string]any{"space": "3 elements", "forest(parents)": c.shapes3[s], "display(e1)": d1.String(), "display(e2)": d2.String(),
			"display(e3)": "all 21", "extras": "none + every applicable extra deviation", "first": first.html}
	case u < c.nA+c.nB:
		sk, lo, hi := c.tableUnit(u - c.nA)
		return map[string]any{"space": "tables", "cells_per_row": sk.cells, "row_groups": layoutName[sk.layout],
			"first": newTableCase(sk, c.menu, lo).html, "last": newTableCase(sk, c.menu, hi-1).html, "tables": hi - lo}
	default:
		v := u - c.nA - c.nB
		s := v / (nD * nD * nD)
		d1 := disp(v / (nD * nD) % nD)
		d2 := disp(v / nD % nD)
		d3 := disp(v % nD)
		first := newDoc(c.shapes4[s], []disp{d1, d2, d3, 0}, extra{})
		return map[string]any{"space": "4 elements", "forest(parents)": c.shapes4[s], "display(e1)": d1.String(), "display(e2)": d2.String(),
			"display(e3)": d3.String(), "display(e4)": "all values within 3 deviations", "first": first.html}
	}
}
