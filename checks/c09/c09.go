// Package c09: the box tree obeys the CSS box-generation rules.
//
// Bounded exhaustive enumeration of small element trees (ordered forests of 3, in thorough 4,
// unknown elements under <body>, with distinct letters before/between/after the children) x every
// assignment of the 21 display keywords to every element x one extra deviation (float, absolute
// or fixed position, ::before/::after, marker position, <img> child, replaced element, colspan,
// rowspan, white-space-only / no text), plus a sub-space of real <table> markup (rows x cells x
// colspan/rowspan x row groups). Every document goes through the real pipeline
// tree.NewHTML -> GetAllComputedStyles -> boxes.BuildFormattingStructure (no layout) and the
// resulting tree is checked against the invariants I1..I9 of DESIGN §5 C09.
package c09

import (
	"fmt"
	"sort"
	"strings"

	"verif/internal/engine"
)

type check struct {
	tier     string
	shapes3  [][]int
	shapes4  [][]int
	nA       int64 // units of the 3-element space: shape x d1 x d2
	skel     []tableSkeleton
	menu     []cellSpec
	nB       int64 // units of the table space
	nC       int64 // units of the 4-element space (thorough): shape x d1 x d2 x d3
	initNote string
}

func init() { engine.Register(&check{}) }

func (c *check) ID() string { return "C09" }

const nD = int64(nDisp)

func (c *check) Init(tier string, seed int64) engine.Space {
	c.tier = tier
	c.shapes3 = forests(3)
	c.nA = int64(len(c.shapes3)) * nD * nD
	c.skel, c.menu = tableSkeletons(tier)
	c.nB = 0
	for i := range c.skel {
		c.skel[i].first = c.nB
		c.nB += c.skel[i].units
	}
	c.nC = 0
	if tier == "thorough" {
		c.shapes4 = forests(4)
		c.nC = int64(len(c.shapes4)) * nD * nD * nD
	}
	// capability probe and reference self-test (never allowed to crash Init)
	func() {
		defer func() {
			if r := recover(); r != nil {
				c.initNote = fmt.Sprint("probe panicked: ", r)
			}
		}()
		if err := slotSimSelfTest(); err != nil {
			panic(err)
		}
		root := buildTree(`<body>x<e1 id=e1 style="display:contents">y</e1>`)
		ti := analyse(root)
		contentsSupported = len(ti.byOwner["e1"]) == 0
	}()
	var tables int64
	for _, s := range c.skel {
		tables += s.count
	}
	chunk := int64(4)
	return engine.Space{
		Units: c.nA + c.nB + c.nC, Chunk: chunk, Level: "model_checking",
		Rule: "every ordered forest of 3 (thorough: also 4) elements under <body> x every assignment of the 21 display keywords to every element (4 elements: at most 3 deviations in total) x {no extra, or one extra deviation}; then every <table> of up to 3 rows with the listed cells per row x every (colspan,rowspan) of the menu per cell x row-group layouts; each case is built with the real BuildFormattingStructure and checked against I1..I9; a case is non-trivial when the fix-up passes had to create at least one anonymous box or drop an element",
		Bounds: map[string]any{
			"displays": dispName[:], "forests_of_3": len(c.shapes3), "forests_of_4": len(c.shapes4),
			"extras": extraName[:], "table_skeletons": len(c.skel), "tables": tables, "span_menu": fmt.Sprint(c.menu),
			"display_contents_supported_by_implementation": contentsSupported, "init_note": c.initNote,
		},
		Assumptions: []string{
			"trees deeper or wider than 4 elements (+ pseudo-elements, markers, one <img>) are not explored",
			"at most one extra deviation per document; for 4 elements at most 3 deviations in total",
			"display values outside the 21 keywords (ruby, run-in, two-keyword forms) are not explored",
			"display:contents is rejected by the validator of the implementation: the declaration is void (CSS error handling) and clause I8 is not applicable; the symbol stays in the alphabet as 'invalid value'",
			"CSS 2.1 §17.5 leaves the position of a column-spanning cell that meets a row-spanning cell undefined (overlap or shift); the property statement asks for 'no two cells on the same grid slot', which is what clause I4-slot-overlap checks",
		},
		BudgetS: 0, MinOutcomes: 2,
	}
}

// extrasFor lists the extra deviations applicable to a display assignment.
func (c *check) extrasFor(ds []disp, withExtras bool) []extra {
	out := []extra{{xNone, 0}}
	if !withExtras {
		return out
	}
	hasLI := false
	for _, d := range ds {
		if d == dListItem {
			hasLI = true
		}
	}
	if hasLI {
		out = append(out, extra{xLspInside, 0})
	}
	out = append(out, extra{xWsOnly, 0}, extra{xNoText, 0})
	if c.tier == "thorough" {
		out = append(out, extra{xSpaced, 0})
	}
	for t := 1; t <= len(ds); t++ {
		for _, k := range []extraKind{xFloat, xAbs, xFixed, xBefore, xAfter, xImgChild, xReplaced} {
			out = append(out, extra{k, t})
		}
		if ds[t-1] == dCell || ds[t-1] == dRow {
			// span attributes are read from the element of a cell box, and of a row box when an
			// anonymous cell is made from it
			out = append(out, extra{xColspan2, t}, extra{xRowspan2, t}, extra{xRowspan0, t})
		}
		if c.tier == "thorough" {
			out = append(out, extra{xImgAlt, t}, extra{xBeforeBlock, t}, extra{xBeforeCell, t})
		}
	}
	return out
}

func (c *check) Run(u int64, ctx *engine.Ctx) {
	switch {
	case u < c.nA:
		s := u / (nD * nD)
		d1 := disp(u / nD % nD)
		d2 := disp(u % nD)
		for d3 := disp(0); d3 < nDisp; d3++ {
			ds := []disp{d1, d2, d3}
			for _, x := range c.extrasFor(ds, true) {
				c.runDoc(ctx, newDoc(c.shapes3[s], ds, x))
			}
		}
	case u < c.nA+c.nB:
		c.runTables(u-c.nA, ctx)
	default:
		v := u - c.nA - c.nB
		s := v / (nD * nD * nD)
		d1 := disp(v / (nD * nD) % nD)
		d2 := disp(v / nD % nD)
		d3 := disp(v % nD)
		k := 0
		for _, d := range []disp{d1, d2, d3} {
			if d != dInline {
				k++
			}
		}
		for d4 := disp(0); d4 < nDisp; d4++ {
			kk := k
			if d4 != dInline {
				kk++
			}
			if kk > 3 {
				break // at most 3 deviations: d4 stays at the default
			}
			ds := []disp{d1, d2, d3, d4}
			for _, x := range c.extrasFor(ds, kk < 3) {
				c.runDoc(ctx, newDoc(c.shapes4[s], ds, x))
			}
		}
	}
}

func (c *check) report(ctx *engine.Ctx, desc string, ti *treeInfo, feat func(f finding) []string) {
	seen := map[string]bool{}
	for _, f := range ti.finds {
		feats := feat(f)
		k := f.clause + "|" + strings.Join(feats, ",")
		if seen[k] {
			continue // one failure per clause and region and case
		}
		seen[k] = true
		ctx.Fail(engine.Failure{Clause: f.clause, Features: feats, Case: desc, Detail: f.detail})
	}
	for k, v := range ti.counters {
		ctx.Count(k, v)
	}
}

func (c *check) runDoc(ctx *engine.Ctx, dc *docCase) {
	var ti *treeInfo
	all := make([]int, 0, len(dc.nodes))
	for i := 1; i < len(dc.nodes); i++ {
		all = append(all, i)
	}
	ctx.Trans(int64(dc.devs))
	ok := ctx.GuardFail(dc.html, dc.featuresOf(all...), func() {
		root := buildTree(dc.html)
		ti = analyse(root)
		for _, t := range ti.tables {
			ti.checkGrid(t.b)
		}
	})
	if !ok {
		ctx.Case(true, "panic")
		return
	}
	dc.checkInput(ti)
	dead := false
	for i := 1; i < len(dc.nodes); i++ {
		if !dc.nodes[i].alive {
			dead = true
		}
	}
	ctx.Case(ti.anon > 0 || dead, ti.skeleton.String())
	c.report(ctx, dc.html, ti, func(f finding) []string {
		feats := dc.featuresOf(f.elems...)
		for _, x := range f.extra {
			dup := false
			for _, y := range feats {
				dup = dup || x == y
			}
			if !dup {
				feats = append(feats, x)
			}
		}
		sort.Strings(feats)
		return feats
	})
}

func (c *check) tableUnit(u int64) (*tableSkeleton, int64, int64) {
	i := sort.Search(len(c.skel), func(i int) bool { return c.skel[i].first+c.skel[i].units > u })
	sk := &c.skel[i]
	lo := (u - sk.first) * tableBatch
	hi := lo + tableBatch
	if hi > sk.count {
		hi = sk.count
	}
	return sk, lo, hi
}

func (c *check) runTables(u int64, ctx *engine.Ctx) {
	sk, lo, hi := c.tableUnit(u)
	for idx := lo; idx < hi; idx++ {
		tc := newTableCase(sk, c.menu, idx)
		var ti *treeInfo
		ctx.Trans(int64(tc.devs))
		ok := ctx.GuardFail(tc.html, tc.feats, func() {
			root := buildTree(tc.html)
			ti = analyse(root)
			for _, t := range ti.tables {
				ti.checkGrid(t.b)
			}
		})
		if !ok {
			ctx.Case(true, "panic")
			continue
		}
		tc.check(ti)
		ctx.Case(tc.devs > 0, ti.skeleton.String())
		c.report(ctx, tc.html, ti, func(f finding) []string { return tc.feats })
	}
}

func (c *check) Describe(u int64) any {
	switch {
	case u < c.nA:
		s := u / (nD * nD)
		d1 := disp(u / nD % nD)
		d2 := disp(u % nD)
		first := newDoc(c.shapes3[s], []disp{d1, d2, 0}, extra{})
		return map[string]any{"space": "3 elements", "forest(parents)": c.shapes3[s], "display(e1)": d1.String(), "display(e2)": d2.String(),
			"display(e3)": "all 21", "extras": "none + every applicable extra deviation", "first": first.html}
	case u < c.nA+c.nB:
		sk, lo, hi := c.tableUnit(u - c.nA)
		return map[string]any{"space": "tables", "cells_per_row": sk.cells, "row_groups": layoutName[sk.layout],
			"first": newTableCase(sk, c.menu, lo).html, "last": newTableCase(sk, c.menu, hi-1).html, "tables": hi - lo}
	default:
		v := u - c.nA - c.nB
		s := v / (nD * nD * nD)
		d1 := disp(v / (nD * nD) % nD)
		d2 := disp(v / nD % nD)
		d3 := disp(v % nD)
		first := newDoc(c.shapes4[s], []disp{d1, d2, d3, 0}, extra{})
		return map[string]any{"space": "4 elements", "forest(parents)": c.shapes4[s], "display(e1)": d1.String(), "display(e2)": d2.String(),
			"display(e3)": d3.String(), "display(e4)": "all values within 3 deviations", "first": first.html}
	}
}
