package c09

import (
	"fmt"
	"sort"
	"strings"

	bo "github.com/benoitkugler/webrender/html/boxes"
	"golang.org/x/net/html"
)

// finding is one violated clause on one tree.
type finding struct {
	clause string
	elems  []int // elements (numbers) the finding is about: feature tags are derived from them
	extra  []string
	detail string
}

// boxRef is a box together with its parent in the tree.
type boxRef struct {
	b, parent bo.Box
}

type treeInfo struct {
	byOwner  map[string][]boxRef // "e1", "e1::before", "body" ...
	letters  map[rune]int
	letterAt map[rune]string // owner of the text box holding the letter
	tables   []boxRef
	counters map[string]int64
	finds    []finding
	skeleton strings.Builder
	anon     int

	calls     []bo.Box              // the ::footnote-call boxes of the tree, in document order
	replaced  map[*html.Node]bo.Box // elements whose principal box is a replaced box
	all       []bo.Box              // every box of the tree and of the footnote area
	inFnArea  map[string]bool       // owners with a box in the footnote area
	callsSeen int
}

func ownerKey(b bo.Box) string {
	f := b.Box()
	k := elemID(b)
	if f.PseudoType != "" {
		k += "::" + f.PseudoType
	}
	return k
}

func elemNum(owner string) int {
	if i := strings.Index(owner, "::"); i >= 0 {
		owner = owner[:i]
	}
	if len(owner) == 2 && owner[0] == 'e' && owner[1] >= '1' && owner[1] <= '9' {
		return int(owner[1] - '0')
	}
	return 0
}

func is(t bo.BoxType, b bo.Box) bool { return t.IsInstance(b) }

func (ti *treeInfo) fail(clause string, detail string, boxes ...bo.Box) {
	var elems []int
	for _, b := range boxes {
		if b != nil {
			elems = append(elems, elemNum(ownerKey(b)))
		}
	}
	ti.finds = append(ti.finds, finding{clause: clause, elems: elems, detail: detail})
}

func describe(b bo.Box) string {
	s := b.Type().String() + "<" + ownerKey(b) + ">"
	if !b.Box().IsInNormalFlow() {
		s += "(out-of-flow)"
	}
	return s
}

func childList(b bo.Box) string {
	var l []string
	for _, c := range b.Box().Children {
		l = append(l, describe(c))
	}
	return describe(b) + "[" + strings.Join(l, " ") + "]"
}

// analyse walks the tree once: structural clauses I1, I2, I3, I5 on every box, and the
// indexes needed by the input-driven clauses.
func analyse(root bo.Box) *treeInfo { return analyseDoc(built{root: root}) }

// analyseDoc does the same for the whole formatting structure: the tree, then the footnotes
// that a ::footnote-call box of the tree points to, completed the way layout completes a
// footnote area (footnoteArea). A footnote box of the list that no call points to is never laid
// out: it is counted, not analysed.
func analyseDoc(bt built) *treeInfo {
	root := bt.root
	ti := &treeInfo{byOwner: map[string][]boxRef{}, letters: map[rune]int{}, letterAt: map[rune]string{}, counters: map[string]int64{},
		replaced: map[*html.Node]bo.Box{}, inFnArea: map[string]bool{}}
	inArea := false
	// the elements that have a running box (position:running())
	runEl := map[*html.Node]bool{}
	var pre func(b bo.Box)
	pre = func(b bo.Box) {
		f := b.Box()
		if f.IsRunning() && f.Element != nil && f.PseudoType == "" {
			runEl[f.Element] = true
		}
		if t, ok := b.(bo.TableBoxITF); ok {
			for _, g := range t.Table().ColumnGroups {
				pre(g)
			}
		}
		for _, c := range f.Children {
			pre(c)
		}
	}
	pre(root)
	unfinished := 0 // > 0 inside a zone reported as I1-running-content-unfinished
	var walk func(b, parent bo.Box, depth int, raw bool)
	walk = func(b, parent bo.Box, depth int, raw bool) {
		f := b.Box()
		key := ownerKey(b)
		ti.byOwner[key] = append(ti.byOwner[key], boxRef{b, parent})
		ti.all = append(ti.all, b)
		if inArea {
			ti.inFnArea[key] = true
		}
		if parent != nil && ownerKey(parent) == key && !is(bo.TextT, b) {
			ti.anon++
		}
		ti.skeleton.WriteByte(byte('0' + depth%10))
		ti.skeleton.WriteString(b.Type().String())
		if !f.IsInNormalFlow() {
			ti.skeleton.WriteByte('^')
		}
		if is(bo.TableCellT, b) {
			fmt.Fprintf(&ti.skeleton, "%d.%d.%d", f.GridX, f.Colspan, f.Rowspan)
		}
		ch := f.Children
		if f.Footnote != nil {
			ti.calls = append(ti.calls, b)
			ti.skeleton.WriteByte('@')
		}
		if is(bo.ReplacedT, b) && f.Element != nil && f.PseudoType == "" && (parent == nil || parent.Box().Element != f.Element) {
			ti.replaced[f.Element] = b
		}
		if !raw && f.IsRunning() {
			// A running element is left as built (every anonymous-box pass returns it unchanged): its
			// content is completed when a copy of it is placed in a margin box, and block and inline
			// layout take the box out of the flow without looking inside. Only the indexes (owners,
			// letters) are taken from it.
			if deferredContext(parent) {
				raw = true
			} else {
				// ... but table, flex and grid layout handle a running child as any other child:
				// the structure clauses apply to it, reported under one clause
				ti.counters["running:boxes-outside-block-and-inline-contexts"]++
				n0 := len(ti.finds)
				unfinished++
				defer func() { unfinished--; ti.collapseRunning(n0, b, parent, "") }()
			}
		} else if !raw && unfinished == 0 && len(runEl) > 0 && f.Element != nil {
			// a box made for a descendant of a running element that is not inside the running box:
			// taken out of it, into the flow, by a pass that did not leave the running box alone
			for a := f.Element.Parent; a != nil; a = a.Parent {
				if runEl[a] {
					ti.counters["running:boxes-taken-out-of-a-running-box"]++
					n0 := len(ti.finds)
					unfinished++
					defer func() {
						unfinished--
						ti.collapseRunning(n0, b, parent, "a descendant of a running element, is outside the running box, in the flow")
					}()
					break
				}
			}
		}
		if raw {
			ti.counters["boxes:indexed-only(columns,inside-running-elements)"]++
			ti.skeleton.WriteByte('~')
			if tb, ok := b.(*bo.TextBox); ok {
				for _, r := range tb.Text {
					if (r >= 'a' && r <= 'z') || (r >= 'A' && r <= 'Z') {
						ti.letters[r]++
						ti.letterAt[r] = key
					}
				}
			}
			if is(bo.ReplacedT, b) && len(ch) != 0 {
				ti.fail("I6-replaced-has-children", childList(b), b)
			}
			for _, c := range ch {
				walk(c, b, depth+1, true)
			}
			return
		}

		if tb, ok := b.(*bo.TextBox); ok {
			for _, r := range tb.Text {
				if (r >= 'a' && r <= 'z') || (r >= 'A' && r <= 'Z') {
					ti.letters[r]++
					ti.letterAt[r] = key
				}
			}
			ti.counters["boxes:text"]++
			if len(ch) != 0 {
				ti.fail("I2-text-box-has-children", childList(b), b)
			}
			// I2 (converse): text only lives in an inline formatting context
			if parent == nil || !(is(bo.LineT, parent) || is(bo.InlineT, parent)) {
				ti.fail("I2-text-outside-line", "TextBox child of "+describe(parent), b, parent)
			}
			return
		}

		switch {
		case is(bo.ReplacedT, b):
			ti.counters["boxes:replaced"]++
			if len(ch) != 0 {
				ti.fail("I6-replaced-has-children", childList(b), b)
			}
		case is(bo.LineT, b) || is(bo.InlineT, b):
			// I2: inline-level content only
			ti.counters["I2:line-and-inline-boxes"]++
			if is(bo.LineT, b) && (parent == nil || !is(bo.BlockContainerT, parent)) {
				ti.fail("I1-line-outside-block-container", "LineBox child of "+describe(parent), b, parent)
			}
			for _, c := range ch {
				if is(bo.LineT, c) {
					ti.fail("I2-line-in-inline", childList(b), b, c)
				} else if c.Box().IsInNormalFlow() && !is(bo.InlineLevelT, c) {
					ti.fail("I2-inline-holds-non-inline-level", childList(b), b, c)
				}
			}
		case is(bo.FlexContainerT, b) || is(bo.GridContainerT, b):
			// I5: only block-level (blockified) items
			ti.counters["I5:flex-and-grid-containers"]++
			for _, c := range ch {
				ti.counters["I5:items"]++
				if !is(bo.BlockLevelT, c) {
					ti.fail("I5-item-not-block-level", childList(b), b, c)
				}
			}
		case is(bo.TableT, b):
			ti.counters["I3:tables"]++
			if unfinished == 0 {
				ti.tables = append(ti.tables, boxRef{b, parent})
			}
			if parent == nil || !parent.Box().IsTableWrapper {
				ti.fail("I3-table-without-wrapper", "parent "+describe(parent), b, parent)
			}
			for _, c := range ch {
				if !is(bo.TableRowGroupT, c) {
					ti.fail("I3-table-child-not-row-group", childList(b), b, c)
				}
			}
			for _, g := range b.(bo.TableBoxITF).Table().ColumnGroups {
				ti.counters["I3:column-groups"]++
				gk := ownerKey(g)
				ti.byOwner[gk] = append(ti.byOwner[gk], boxRef{g, b})
				n0 := len(ti.finds)
				var running bo.Box
				if g.Box().IsRunning() {
					running = g
				}
				for _, col := range g.Children {
					if running == nil && col.Box().IsRunning() {
						running = col
					}
					if !is(bo.TableColumnT, col) {
						ti.fail("I3-column-group-child-not-column", childList(g), g, col)
					} else if len(col.Box().Children) != 0 {
						ti.fail("I3-column-has-children", childList(col), col)
					}
					// (a column box is never laid out: it and what it may hold are only indexed)
					walk(col, g, depth+2, true)
				}
				if running != nil {
					// a running column (group) stays in the table: never taken out, never completed
					ti.counters["running:boxes-outside-block-and-inline-contexts"]++
					ti.collapseRunning(n0, running, b, "")
				}
			}
		case is(bo.TableRowGroupT, b):
			ti.counters["I3:row-groups"]++
			if parent == nil || !is(bo.TableT, parent) {
				ti.fail("I3-row-group-outside-table", "parent "+describe(parent), b, parent)
			}
			for _, c := range ch {
				if !is(bo.TableRowT, c) {
					ti.fail("I3-row-group-child-not-row", childList(b), b, c)
				}
			}
		case is(bo.TableRowT, b):
			ti.counters["I3:rows"]++
			if parent == nil || !is(bo.TableRowGroupT, parent) {
				ti.fail("I3-row-outside-row-group", "parent "+describe(parent), b, parent)
			}
			for _, c := range ch {
				if !is(bo.TableCellT, c) {
					ti.fail("I3-row-child-not-cell", childList(b), b, c)
				}
			}
		case is(bo.TableColumnGroupT, b) || is(bo.TableColumnT, b):
			// column boxes live in TableBox.ColumnGroups only
			ti.fail("I3-column-box-in-children", "child of "+describe(parent), b, parent)
		case is(bo.BlockContainerT, b):
			// I1 (BlockBox, InlineBlockBox, TableCellBox, TableCaptionBox)
			ti.counters["I1:block-containers"]++
			nLine := 0
			for _, c := range ch {
				if is(bo.LineT, c) {
					nLine++
				}
			}
			if nLine > 0 {
				ti.counters["I1:with-line"]++
				if len(ch) != 1 {
					ti.fail("I1-line-box-has-siblings", childList(b), b)
				}
			} else {
				for _, c := range ch {
					if !is(bo.BlockLevelT, c) {
						ti.fail("I1-block-container-holds-non-block-level", childList(b), b, c)
					}
				}
			}
			if is(bo.TableCellT, b) && (parent == nil || !is(bo.TableRowT, parent)) {
				ti.fail("I3-cell-outside-row", "parent "+describe(parent), b, parent)
			}
			if is(bo.TableCaptionT, b) && (parent == nil || !parent.Box().IsTableWrapper) {
				ti.fail("I3-caption-outside-wrapper", "parent "+describe(parent), b, parent)
			}
			if f.IsTableWrapper {
				ti.counters["I3:wrappers"]++
				nTable := 0
				for _, c := range ch {
					switch {
					case is(bo.TableT, c):
						nTable++
						if is(bo.InlineTableT, c) != is(bo.InlineBlockT, b) {
							ti.fail("I3-wrapper-kind", childList(b), b, c)
						}
					case is(bo.TableCaptionT, c):
					default:
						ti.fail("I3-wrapper-holds-other", childList(b), b, c)
					}
				}
				if nTable != 1 {
					ti.fail("I3-wrapper-table-count", childList(b), b)
				}
			}
		default:
			ti.fail("unknown-box-kind", describe(b), b)
		}
		for _, c := range ch {
			walk(c, b, depth+1, false)
		}
	}
	walk(root, nil, 0, false)

	// the footnotes reachable from the tree
	if len(ti.calls) > 0 || len(bt.footnotes) > 0 {
		listed := map[bo.Box]bool{}
		for _, fb := range bt.footnotes {
			listed[fb] = true
		}
		var reach []bo.Box
		seen := map[bo.Box]bool{}
		for _, c := range ti.calls {
			fb := c.Box().Footnote
			ti.counters["footnotes:calls"]++
			if seen[fb] {
				ti.fail("I7-content-duplicated", "two ::footnote-call boxes point to the footnote "+describe(fb), c, fb)
				continue
			}
			seen[fb] = true
			if !listed[fb] {
				ti.counters["footnotes:call-to-unlisted-footnote"]++
			}
			reach = append(reach, fb)
		}
		for _, fb := range bt.footnotes {
			if !seen[fb] {
				ti.counters["footnotes:listed-but-never-called"]++
			}
		}
		ti.callsSeen = len(ti.calls)
		if len(reach) > 0 {
			area := footnoteArea(root, reach)
			ti.skeleton.WriteString("|F")
			inArea = true
			nCalls := len(ti.calls)
			walk(area, nil, 0, false)
			ti.calls = ti.calls[:nCalls] // (a footnote inside a footnote is not followed)
		}
	}
	ti.checkReplacedLeaves()
	return ti
}

// deferredContext: a running child of this box is taken out of the flow by layout (block and
// inline layout do it; table, flex and grid layout do not).
func deferredContext(parent bo.Box) bool {
	if parent == nil {
		return false
	}
	if is(bo.LineT, parent) || is(bo.InlineT, parent) {
		return true
	}
	return is(bo.BlockContainerT, parent) && !is(bo.FlexContainerT, parent) && !is(bo.GridContainerT, parent)
}

// collapseRunning replaces the findings made inside a running box that layout will not take out
// of the flow, or inside a box taken out of a running box (finds[n0:]), by one finding of the
// clause I1-running-content-unfinished.
func (ti *treeInfo) collapseRunning(n0 int, b, parent bo.Box, hoisted string) {
	if len(ti.finds) <= n0 {
		return
	}
	first := ti.finds[n0]
	more := len(ti.finds) - n0 - 1
	ti.finds = ti.finds[:n0]
	if hoisted != "" {
		ti.fail("I1-running-content-unfinished", fmt.Sprintf("%s (child of %s), %s, with its content as built (no anonymous-box pass has completed it): %s: %s (+%d more)",
			describe(b), describe(parent), hoisted, first.clause, first.detail, more), b)
		return
	}
	ti.fail("I1-running-content-unfinished", fmt.Sprintf("the running box %s is a child of %s: table, flex and grid layout handle it as an in-flow child, and no anonymous-box pass has completed its content: %s: %s (+%d more)",
		describe(b), describe(parent), first.clause, first.detail, more), b)
}

// checkReplacedLeaves is the second half of "the children of replaced elements generate no box"
// (the first half, a replaced box has no child box, is checked on every replaced box): no box of
// the formatting structure belongs to a pseudo-element of an element whose principal box is a
// replaced box, nor to an element or a text below it in the document.
func (ti *treeInfo) checkReplacedLeaves() {
	if len(ti.replaced) == 0 {
		return
	}
	ti.counters["I6:replaced-elements"] += int64(len(ti.replaced))
	for _, b := range ti.all {
		f := b.Box()
		if f.Element == nil {
			continue
		}
		if rb, ok := ti.replaced[f.Element]; ok && b != rb {
			what := "an anonymous box"
			if f.PseudoType != "" {
				what = "the pseudo-element ::" + f.PseudoType
			}
			ti.fail("I6-replaced-pseudo-generates-box", fmt.Sprintf("%s is generated for %s of the replaced element of %s", describe(b), what, describe(rb)), b)
			continue
		}
		for a := f.Element.Parent; a != nil; a = a.Parent {
			if rb, ok := ti.replaced[a]; ok {
				ti.fail("I6-replaced-child-generates-box", fmt.Sprintf("%s is generated for a descendant of the replaced element of %s", describe(b), describe(rb)), b, rb)
				break
			}
		}
	}
}

// ---- I4: grid slots ---------------------------------------------------------------------------

type cellSpec struct{ cs, rs int } // rs 0 = to the end of the row group

// slotSim is the reference slot assignment of CSS 2.1 §17.5 / HTML "forming a table" for ONE
// row group: rows[y] = the cells of row y in source order. With shift=false it is the HTML
// algorithm (only the first slot of a cell is tested: a column-spanning cell may land on a slot
// held by a row-spanning cell, a "table model error"); with shift=true the later cell is moved
// right until all its slots of the current row are free (the other behaviour CSS 2.1 allows).
// It returns x and the clipped row span of every cell, and whether two cells share a slot.
func slotSim(rows [][]cellSpec, shift bool) (xs [][]int, rss [][]int, overlap bool) {
	occ := map[[2]int]bool{}
	n := len(rows)
	for y, row := range rows {
		x := 0
		xr := make([]int, len(row))
		rr := make([]int, len(row))
		for i, c := range row {
			cs := c.cs
			if cs < 1 {
				cs = 1
			}
			for {
				free := !occ[[2]int{x, y}]
				if shift {
					for k := 0; k < cs; k++ {
						if occ[[2]int{x + k, y}] {
							free = false
						}
					}
				}
				if free {
					break
				}
				x++
			}
			rs := c.rs
			if rs == 0 || rs > n-y {
				rs = n - y
			}
			if rs < 1 {
				rs = 1
			}
			for dy := 0; dy < rs; dy++ {
				for dx := 0; dx < cs; dx++ {
					k := [2]int{x + dx, y + dy}
					if occ[k] {
						overlap = true
					}
					occ[k] = true
				}
			}
			xr[i], rr[i] = x, rs
			x += cs
		}
		xs = append(xs, xr)
		rss = append(rss, rr)
	}
	return
}

// checkGrid evaluates I4 on one table box, from the output alone: spans are positive and
// clipped to the row group, GridX follows the reference assignment, no slot holds two cells.
func (ti *treeInfo) checkGrid(table bo.Box) {
	for _, g := range table.Box().Children {
		if g.Box().IsRunning() {
			ti.counters["I4:tables-with-running-rows-skipped"]++
			return // reported by I1-running-content-unfinished
		}
		for _, r := range g.Box().Children {
			if r.Box().IsRunning() {
				ti.counters["I4:tables-with-running-rows-skipped"]++
				return
			}
		}
	}
	y0 := 0
	type placed struct {
		c     bo.Box
		x, y  int
		cs, r int
	}
	var all []placed
	for _, g := range table.Box().Children {
		rowsB := g.Box().Children
		rows := make([][]cellSpec, len(rowsB))
		bad := false
		for y, r := range rowsB {
			for _, c := range r.Box().Children {
				f := c.Box()
				ti.counters["I4:cells"]++
				if f.Colspan != 1 || f.Rowspan != 1 {
					ti.counters["I4:spanning-cells"]++
				}
				if f.Colspan < 1 || f.Rowspan < 1 {
					ti.fail("I4-span-not-positive", fmt.Sprintf("%s colspan=%d rowspan=%d", describe(c), f.Colspan, f.Rowspan), c)
					bad = true
				} else if y+f.Rowspan > len(rowsB) {
					ti.fail("I4-rowspan-beyond-row-group", fmt.Sprintf("%s in row %d of %d has rowspan=%d", describe(c), y, len(rowsB), f.Rowspan), c)
				}
				rows[y] = append(rows[y], cellSpec{f.Colspan, f.Rowspan})
				all = append(all, placed{c, f.GridX, y0 + y, f.Colspan, f.Rowspan})
			}
		}
		if !bad {
			xh, _, ovl := slotSim(rows, false)
			xsft, _, _ := slotSim(rows, true)
			for y, r := range rowsB {
				for i, c := range r.Box().Children {
					gx := c.Box().GridX
					if gx != xh[y][i] && !(ovl && gx == xsft[y][i]) {
						ti.fail("I4-grid-x", fmt.Sprintf("%s row %d cell %d: GridX=%d, reference %d", describe(c), y, i, gx, xh[y][i]), c)
					}
				}
			}
		}
		y0 += len(rowsB)
	}
	occ := map[[2]int]bo.Box{}
	reported := false
	for _, p := range all {
		for dy := 0; dy < p.r && dy < 8; dy++ {
			for dx := 0; dx < p.cs && dx < 8; dx++ {
				k := [2]int{p.x + dx, p.y + dy}
				if o, ok := occ[k]; ok && !reported {
					ti.fail("I4-slot-overlap", fmt.Sprintf("slot (x=%d,y=%d) is covered by %s and %s", k[0], k[1], describe(o), describe(p.c)), o, p.c)
					reported = true
				}
				occ[k] = p.c
			}
		}
	}
}

// ---- the input-driven clauses (I6, I7, I8, I9) -------------------------------------------------

var typeOfDisp = map[disp]bo.BoxType{
	dInline: bo.InlineT, dBlock: bo.BlockT, dInlineBlock: bo.InlineBlockT, dListItem: bo.BlockT,
	dTable: bo.TableT, dInlineTable: bo.InlineTableT, dRowGroup: bo.TableRowGroupT, dHeaderGroup: bo.TableRowGroupT,
	dFooterGroup: bo.TableRowGroupT, dRow: bo.TableRowT, dCell: bo.TableCellT, dColumn: bo.TableColumnT,
	dColGroup: bo.TableColumnGroupT, dCaption: bo.TableCaptionT, dFlex: bo.FlexT, dInlineFlex: bo.InlineFlexT,
	dGrid: bo.GridT, dInlineGrid: bo.InlineGridT, dFlowRoot: bo.BlockT,
}

// checkBoxType turns clause I9 (display -> principal box type) on. It is a separate clause
// because the property statement lists well-formedness conditions, not the type map itself.
const checkBoxType = true

func (dc *docCase) checkInput(ti *treeInfo) {
	add := func(clause, detail string, extra []string, elems ...int) {
		ti.finds = append(ti.finds, finding{clause: clause, elems: elems, extra: extra, detail: detail})
	}
	wantLetters := map[rune]int{}
	owner := map[rune]int{}
	ownerTags := map[rune][]string{} // tags of a pseudo-element as a child of its element
	optional := map[rune]int{}       // occurrences that may or may not be there
	for i := 1; i < len(dc.nodes); i++ {
		nd := &dc.nodes[i]
		key := fmt.Sprintf("e%d", i)
		refs := ti.byOwner[key]
		if nd.alive {
			ti.counters["I7:elements-that-must-generate-a-box"]++
			if len(refs) == 0 {
				add("I7-content-lost", fmt.Sprintf("element e%d (display:%s, computed %s) generates no box", i, nd.d, nd.cd), nil, i)
			} else if checkBoxType {
				dc.checkPrincipal(ti, i, refs, add)
			}
		} else {
			ti.counters["I6:elements-that-must-not-generate-a-box:"+nd.deadWhy]++
			if len(refs) > 0 {
				clause := "I6-none-subtree-generates-box"
				switch nd.deadWhy {
				case "replaced-child":
					clause = "I6-replaced-child-generates-box"
				case "column-child", "colgroup-child":
					clause = "I3-column-content-generates-box"
				case "contents":
					clause = "I8-contents-generates-box"
				}
				add(clause, fmt.Sprintf("element e%d (%s) generates %s", i, nd.deadWhy, describe(refs[0].b)), nil, i)
			}
		}
		// pseudo-elements of an element that generates nothing (::before, ::after, ::marker,
		// ::footnote-marker ...)
		if !nd.alive && !nd.kidsAlive {
			var pk []string
			for k, rs := range ti.byOwner {
				if strings.HasPrefix(k, key+"::") && len(rs) > 0 {
					pk = append(pk, k)
				}
			}
			if len(pk) > 0 {
				sort.Strings(pk)
				add(deadClause(nd.deadWhy), fmt.Sprintf("pseudo-element of e%d (%s) generates %s", i, nd.deadWhy, describe(ti.byOwner[pk[0]][0].b)), nil, i)
			}
		}
		// the footnote call and the place of the footnote
		if nd.x.footnote() {
			wantCalls := 0
			if nd.alive {
				wantCalls = 1
				ti.counters["I7:footnote-elements"]++
				if len(refs) > 0 && !ti.inFnArea[key] {
					ti.counters["footnotes:footnote-box-left-in-the-tree"]++
				}
			} else {
				ti.counters["I6:footnote-elements-that-must-not-generate-a-box:"+nd.deadWhy]++
			}
			switch {
			case ti.callsSeen > wantCalls:
				add(deadClause(nd.deadWhy), fmt.Sprintf("%d ::footnote-call box(es) in the tree, %d expected: e%d (%s) generates %s", ti.callsSeen, wantCalls, i, nd.deadWhy, describe(ti.calls[0])), nil, i)
			case ti.callsSeen < wantCalls:
				add("I7-content-lost", fmt.Sprintf("no ::footnote-call box in the tree for the footnote e%d", i), nil, i)
			}
		}
		// pseudo-elements and markers
		ta := dc.textAlive(i)
		pseudo := func(r rune, tags []string) {
			owner[r] = i
			if ta {
				wantLetters[r]++
				if tags != nil {
					ownerTags[r] = tags
				}
			} else {
				wantLetters[r] += 0
			}
		}
		switch nd.x {
		case xBefore, xBeforeBlock, xBeforeCell:
			var tags []string
			if nd.x == xBeforeCell && nd.cd.flexContainer() {
				// the pseudo-element is itself a flex item with a table-part display
				tags = []string{"table-cell-in-flex", "table-part-in-flex"}
			}
			if nd.x == xBeforeCell && nd.cd.gridContainer() {
				tags = []string{"table-cell-in-grid", "table-part-in-grid"}
			}
			pseudo('B', tags)
		case xAfter:
			pseudo('F', nil)
		case xObjPng:
			// ::before and ::after of a replaced element: never alive
			pseudo('B', nil)
			pseudo('F', nil)
		}
		if nd.x.voidChild() {
			ir := ti.byOwner["i"]
			if ta {
				ti.counters["I7:img-children"]++
				if len(ir) == 0 {
					add("I7-content-lost", fmt.Sprintf("<img>/<embed> child of e%d generates no box", i), []string{"img"}, i)
				} else if nd.x.voidChildLoads() {
					ti.counters["I6:loaded-img-children"]++
					if !is(bo.ReplacedT, ir[0].b) {
						add("I9-principal-box-type", fmt.Sprintf("<img>/<embed> child of e%d whose image loads: expected a replaced box, got %s", i, describe(ir[0].b)), []string{"img"}, i)
					}
				}
			} else if len(ir) > 0 {
				add("I6-none-subtree-generates-box", fmt.Sprintf("<img> child of dead e%d generates %s", i, describe(ir[0].b)), []string{"img"}, i)
			}
			switch nd.x {
			case xImgAlt, xImgBroken:
				owner['Q'] = i
				if ta {
					wantLetters['Q']++
				} else {
					wantLetters['Q'] += 0
				}
			case xImgPseudo:
				// pseudo-elements of the replaced <img>: never alive
				owner['B'], owner['F'] = i, i
				wantLetters['B'] += 0
				wantLetters['F'] += 0
			}
		}
		if nd.alive && nd.cd == dListItem && !nd.replaced {
			wantLetters['M']++
			owner['M'] = i
		}
		if nd.d == dListItem {
			owner['M'] = i
			wantLetters['M'] += 0
		}
		if nd.alive && nd.x.footnote() && nd.d == dListItem {
			// display:list-item on a footnote element: footnote-display decides the box (block or
			// inline); whether the marker of the list item survives is not specified
			optional['M']++
			owner['M'] = i
		}
	}
	// I7: conservation of text
	for i := range dc.nodes {
		nd := &dc.nodes[i]
		ta := dc.textAlive(i)
		for _, s := range nd.segs {
			for _, r := range s {
				if r >= 'a' && r <= 'z' {
					owner[r] = i
					if ta {
						wantLetters[r]++
					} else {
						wantLetters[r] += 0
					}
				}
			}
		}
	}
	var keys []rune
	for r := range wantLetters {
		keys = append(keys, r)
	}
	for r := range ti.letters {
		if _, ok := wantLetters[r]; !ok {
			keys = append(keys, r)
		}
	}
	sort.Slice(keys, func(i, j int) bool { return keys[i] < keys[j] })
	for _, r := range keys {
		want, got := wantLetters[r], ti.letters[r]
		ti.counters["I7:text-runs-compared"]++
		if want == got || (got > want && got <= want+optional[r]) {
			continue
		}
		kind := "text"
		switch r {
		case 'B', 'F':
			kind = "pseudo-element"
		case 'M':
			kind = "marker"
		case 'Q':
			kind = "alt-text"
		}
		o := owner[r]
		switch {
		case got < want:
			add("I7-content-lost", fmt.Sprintf("%s %q of e%d: expected %d occurrence(s) in the tree, found %d", kind, r, o, want, got), ownerTags[r], o)
		case want == 0:
			add("I6-dead-content-generates-box", fmt.Sprintf("%q of e%d (%s) must not generate a box, found %d in %s", r, o, dc.nodes[o].deadWhy, got, ti.letterAt[r]), nil, o)
		default:
			add("I7-content-duplicated", fmt.Sprintf("%s %q of e%d: expected %d, found %d", kind, r, o, want, got), ownerTags[r], o)
		}
	}
}

// deadClause names the clause violated when an element that must not generate a box does.
func deadClause(why string) string {
	switch why {
	case "replaced-child":
		return "I6-replaced-child-generates-box"
	case "column-child", "colgroup-child":
		return "I3-column-content-generates-box"
	case "contents":
		return "I8-contents-generates-box"
	}
	return "I6-none-subtree-generates-box"
}

// checkPrincipal: clause I9, the type of the principal box(es) of element i, and the span
// attributes of a principal cell.
func (dc *docCase) checkPrincipal(ti *treeInfo, i int, refs []boxRef, add func(clause, detail string, extra []string, elems ...int)) {
	nd := &dc.nodes[i]
	key := fmt.Sprintf("e%d", i)
	pp := &dc.nodes[nd.effParent]
	if (pp.cd.flexContainer() || pp.cd.gridContainer()) && !nd.x.footnote() {
		// flex and grid items: the statement asks for block-level items (clause I5 on the output);
		// which box carries the element is not prescribed here
		return
	}
	var want bo.BoxType
	if nd.replaced {
		want = bo.InlineReplacedT
		if nd.cd.blockLevelOuter() {
			want = bo.BlockReplacedT
		}
	} else {
		want = typeOfDisp[nd.cd]
	}
	ti.counters["I9:principal-boxes"]++
	for _, r := range refs {
		if r.parent != nil && (ownerKey(r.parent) == key || strings.HasPrefix(ownerKey(r.parent), key+"::")) {
			continue // anonymous box or content inside the principal box (or inside a pseudo-element of it)
		}
		b := r.b
		if b.Box().IsTableWrapper {
			for _, c := range b.Box().Children {
				if is(bo.TableT, c) {
					b = c
				}
			}
		}
		if b.Type() != want {
			add("I9-principal-box-type", fmt.Sprintf("e%d display:%s (computed %s): expected %s, got %s", i, nd.d, nd.cd, want, describe(b)), nil, i)
			return
		}
		if want == bo.TableCellT {
			f := b.Box()
			wantCs, wantRs := 1, 1
			switch nd.x {
			case xColspan2:
				wantCs = 2
			case xRowspan2:
				wantRs = 2
			case xRowspan0:
				wantRs = 0
			}
			ti.counters["I4:principal-cells"]++
			// the row span is clipped to the row group: position of the row in its group
			if row := r.parent; row != nil {
				rest := 1
				for _, rr := range ti.byOwner[ownerKey(row)] {
					if rr.b == row && rr.parent != nil {
						sib := rr.parent.Box().Children
						for k, s := range sib {
							if s == row {
								rest = len(sib) - k
							}
						}
					}
				}
				if wantRs == 0 || wantRs > rest {
					wantRs = rest
				}
			}
			if f.Colspan != wantCs || f.Rowspan != wantRs {
				add("I4-span-attribute", fmt.Sprintf("cell e%d: expected colspan=%d rowspan=%d, got colspan=%d rowspan=%d", i, wantCs, wantRs, f.Colspan, f.Rowspan), nil, i)
			}
		}
	}
}
