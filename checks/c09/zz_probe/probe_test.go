package zz_probe

import (
	"fmt"
	"os"
	"strings"
	"testing"

	bo "github.com/benoitkugler/webrender/html/boxes"
	"verif/internal/render"
)

func dump(b bo.Box, depth int, sb *strings.Builder) {
	f := b.Box()
	tag := ""
	if f.Element != nil {
		tag = f.Element.Data
	}
	fmt.Fprintf(sb, "%s%s<%s> (%.0f,%.0f %vx%v)", strings.Repeat(" ", depth), b.Type(), tag, float64(f.PositionX), float64(f.PositionY), f.Width, f.Height)
	if tb, ok := b.(*bo.TextBox); ok {
		fmt.Fprintf(sb, " %q", tb.TextS())
	}
	sb.WriteString("\n")
	for _, c := range f.Children {
		dump(c, depth+1, sb)
	}
}

func TestProbe(t *testing.T) {
	d := os.Getenv("DOC")
	if d == "" {
		t.Skip()
	}
	func() {
		defer func() {
			if r := recover(); r != nil {
				s := fmt.Sprint(r)
				if len(s) > 300 {
					s = s[:300]
				}
				fmt.Println("PANIC:", s)
			}
		}()
		pages, err := render.Layout(render.Options{HTML: `<style>@page{size:200px 100px;margin:20px 0 0 0;@top-center{content:element(h)}} html,body{margin:0;font-family:ahem;font-size:10px;line-height:1}</style>` + d, Engine: "gotext", PageBound: 5})
		if err != nil {
			fmt.Println("ERR", err)
			return
		}
		for i, p := range pages {
			var sb strings.Builder
			dump(p, 0, &sb)
			fmt.Printf("page %d\n%s", i, sb.String())
		}
	}()
}
