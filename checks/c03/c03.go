// Package c03: the cascade picks the declaration CSS says wins.
//
// Bounded exhaustive exploration: every ordered pair (quick) and every ordered triple of a
// reduced menu (thorough) of declaration carriers (UA sheet, user sheet, <style>, <link>,
// @import, @media, nested rules, rules with declarations of their own before / between / after
// nested rules (also inside @media and in the other sheets), nested rules that are dropped
// (invalid selector, unsupported pseudo-element), style attribute, presentational hints computed
// from attributes and given by rules of the hint sheet, non-matching rules and media, and the
// media-dependent constructs again INSIDE sheets reached through @import: @media blocks and
// media-qualified @imports of imported sheets, each on the print and on the screen device)
// declaring the same property on one probe element, in every container arrangement,
// against a reference comparator written from CSS Cascade 4 / CSS Nesting. Observed through
// tree.NewHTML + tree.GetAllComputedStyles on the real code.
package c03

import (
	"bytes"
	"fmt"
	"io"
	"strings"

	pr "github.com/benoitkugler/webrender/css/properties"
	"github.com/benoitkugler/webrender/html/tree"
	"github.com/benoitkugler/webrender/logger"
	"github.com/benoitkugler/webrender/utils"

	"verif/internal/engine"
)

type config struct {
	prop   int
	hints  bool
	device string
}

type check struct {
	full, red []inst
	pairCfg   []config
	tripCfg   []config
	nPair     int64 // number of pair units
	nTrip     int64
	selfErr   error
}

func init() { engine.Register(&check{}) }

func (c *check) ID() string { return "C03" }

func quiet() {
	logger.ProgressLogger.SetOutput(io.Discard)
	logger.WarningLogger.SetOutput(io.Discard)
}

func (c *check) Init(tier string, seed int64) engine.Space {
	quiet()
	c.full, c.red = fullSet(), reducedSet()
	c.selfErr = selfTest()
	c.pairCfg, c.tripCfg = nil, nil
	for p := range props {
		for _, h := range []bool{true, false} {
			c.pairCfg = append(c.pairCfg, config{p, h, "print"})
			if h {
				c.pairCfg = append(c.pairCfg, config{p, h, "screen"})
			}
			c.tripCfg = append(c.tripCfg, config{p, h, "print"})
			if h && p == 0 {
				c.tripCfg = append(c.tripCfg, config{p, h, "screen"})
			}
		}
	}
	n, r := int64(len(c.full)), int64(len(c.red))
	c.nPair = int64(len(c.pairCfg)) * (n + 1)
	c.nTrip = 0
	if tier == "thorough" {
		c.nTrip = int64(len(c.tripCfg)) * r * r
	}
	var pnames []string
	for _, p := range props {
		n := p.name + " on <" + p.tag + " " + p.hint + "=…>"
		if p.sheetHint {
			n += " (hint given by a rule of the hint sheet)"
		} else {
			n += " (hint computed from the attribute)"
		}
		if p.hintOnly {
			n += " (only the cases holding the hint)"
		}
		pnames = append(pnames, n)
	}
	var ks []string
	seen := map[string]bool{}
	for _, in := range c.full {
		if !seen[in.kind] {
			seen[in.kind] = true
			ks = append(ks, in.kind)
		}
	}
	var ss []string
	for _, s := range selS {
		ss = append(ss, s.text)
	}
	for _, s := range selNo {
		ss = append(ss, s.text+" (non-matching)")
	}
	return engine.Space{
		Units: c.nPair + c.nTrip, Chunk: 8, Level: "model_checking",
		Rule: "a case is an ordered list of 0, 1 or 2 (thorough: also 3, over the reduced menu) carrier instances declaring the same property with distinct values on one probe element, laid out in list order, in each distinct container arrangement (share / split / merge rules); for every case the computed value returned by the implementation is compared with the winner of the reference comparator; a case is non-trivial when at least two of its declarations apply, so that the cascade has to choose",
		Bounds: map[string]any{
			"properties": pnames, "carrier_kinds": ks, "selectors": ss,
			"instances_pair_menu": n, "instances_triple_menu": r,
			"multi_match_selector_lists": "the selector lists after #z,T are instantiated for the ua, user, style, nest& and nestrel carriers (triples: style only)",
			"importance":                 []string{"normal", "!important (except UA sheet and hints)"},
			"declaration_block_shapes":   "d = the carrier's declaration, n = the nested rule holding it, F = a declaration of another property, N = a nested rule of another property, X = a nested rule with an invalid selector (&:bogus), U = a nested rule for a parsed but unsupported pseudo-element (&::selection): d, dX, Xd, dU, Ud, {Xn}, {Un}, dNF, FNd, dN, Nd, NdN, FNdNF, {n}, {nF}, {FnF}, {NnF}, {n:dNF}; the merge arrangement concatenates the blocks of adjacent carriers (e.g. d!+Nd = S{P:a!important;&{top:0}P:b}); dNF also in the ua, user, <link>, @import sheets and inside @media",
			"arrangements":               []string{"share", "split", "merge (also merges adjacent @media blocks of the same query)"}, "hints": []string{"on", "off"}, "device_media": []string{"print", "screen (pairs with hints on; triples for color with hints on)"},
			"media_carriers": "every media-dependent carrier kind is explored on both devices: @media in <style> and in <link> sheets, media= on <style>/<link>, @import with a media list, and the same constructs INSIDE sheets reached through @import (an @media block in an imported sheet at depth 1 and 2, from <style> and <link>; a media list on an @import written inside an imported sheet; a media list on the @import crossed with an @media block inside the imported sheet; media= crossed with @media)",
			"list_length":    map[string]int{"quick": 2, "thorough": 3},
		},
		Assumptions: []string{
			"one probe element per document; the cascade of an element does not depend on other elements",
			"UA-origin !important, @layer, @scope, revert, media queries beyond media types and the forms sheet are outside the alphabet",
			"a declaration written after a nested rule is only required to be ordered in one of the two ways the CSS Nesting drafts define",
			"conditional group rules nested inside a style rule (p{@media print{…}}) are outside the alphabet: the implementation does not support them (their declarations are ignored wherever they stand)",
			"for the properties whose hint is given by a rule of the hint sheet only (list-style-type, vertical-align, clear) only the cases holding the hint are explored",
			"triples containing no presentational hint are explored with hints on only (hints off changes nothing for them but the absence of the hints sheet, which the pair space covers)",
		},
		BudgetS: map[string]float64{"quick": 300, "thorough": 1500}[tier],
	}
}

// ---- observation (the only calls into the code under test) -----------------------------------

var propKeys = map[string]pr.KnownProp{
	"color": pr.PColor, "text-align": pr.PTextAlignAll, "width": pr.PWidth, "background-color": pr.PBackgroundColor,
	"list-style-type": pr.PListStyleType, "vertical-align": pr.PVerticalAlign, "clear": pr.PClear,
}

// base is the computed value expected when no declaration applies (initial / inherited value).
var baseCanon = map[string]string{"color": "#000000", "text-align": "start", "width": "auto", "background-color": "rgba(0,0,0,0)",
	"list-style-type": "disc", "vertical-align": "baseline", "clear": "none"}

func canon(v pr.CssProperty) string {
	switch v := v.(type) {
	case pr.Color:
		r, g, b := int(v.RGBA.R*255+.5), int(v.RGBA.G*255+.5), int(v.RGBA.B*255+.5)
		if v.RGBA.A == 1 {
			return fmt.Sprintf("#%02x%02x%02x", r, g, b)
		}
		return fmt.Sprintf("rgba(%d,%d,%d,%g)", r, g, b, v.RGBA.A)
	case pr.String:
		return string(v)
	case pr.CounterStyleID:
		if v.Type == "" && len(v.Symbols) == 0 {
			return v.Name
		}
	case pr.DimOrS:
		if v.S != "" {
			return v.S
		}
		if v.Unit == pr.Px {
			return fmt.Sprintf("%gpx", v.Value)
		}
		return fmt.Sprintf("%g/unit%d", v.Value, v.Unit)
	}
	return fmt.Sprintf("%#v", v)
}

func observe(t texts, p *propDef, hints bool, device string) string {
	fetch := func(url string) (utils.RemoteRessource, error) {
		c, ok := t.files[url]
		if !ok {
			return utils.RemoteRessource{}, fmt.Errorf("c03 fetcher: no such sheet %s", url)
		}
		return utils.RemoteRessource{Content: bytes.NewReader([]byte(c)), MimeType: "text/css", RedirectedUrl: url}, nil
	}
	doc, err := tree.NewHTML(utils.InputString(t.html), baseURL, fetch, device)
	if err != nil {
		return "error:" + err.Error()
	}
	ua, err := tree.NewCSSDefault(utils.InputString(t.ua))
	if err != nil {
		return "error:" + err.Error()
	}
	doc.UAStyleSheet = ua
	var users []tree.CSS
	for _, u := range t.users {
		s, err := tree.NewCSSDefault(utils.InputString(u))
		if err != nil {
			return "error:" + err.Error()
		}
		users = append(users, s)
	}
	sf := tree.GetAllComputedStyles(doc, users, hints, nil, nil, nil, nil, false, nil)
	var el *utils.HTMLNode
	it := doc.Root.Iter()
	for it.HasNext() {
		e := it.Next()
		if e.Get("id") == "i" {
			el = e
		}
	}
	if el == nil {
		return "error:probe element not found"
	}
	st := sf.Get(el, "")
	if st == nil {
		return "error:no computed style"
	}
	return canon(st.Get(propKeys[p.name].Key()))
}

// ---- exploration ----------------------------------------------------------------------------

func (c *check) decode(u int64) (cfg config, menu []inst, fixed []int, loop bool) {
	if u < c.nPair {
		n := int64(len(c.full)) + 1
		cfg = c.pairCfg[u/n]
		a := int(u%n) - 1
		if a < 0 {
			return cfg, c.full, nil, false
		}
		return cfg, c.full, []int{a}, true
	}
	v := u - c.nPair
	r := int64(len(c.red))
	cfg = c.tripCfg[v/(r*r)]
	return cfg, c.red, []int{int(v / r % r), int(v % r)}, true
}

func (c *check) Run(u int64, ctx *engine.Ctx) {
	if c.selfErr != nil {
		ctx.Case(false, "selftest")
		ctx.Fail(engine.Failure{Clause: "reference-selftest", Case: "reference self-test", Detail: c.selfErr.Error()})
		return
	}
	cfg, menu, fixed, loop := c.decode(u)
	pick := func(ix []int) []inst {
		out := make([]inst, len(ix))
		for i, x := range ix {
			out[i] = menu[x]
		}
		return out
	}
	if !loop {
		c.runCase(ctx, cfg, nil)
		return
	}
	if u < c.nPair {
		c.runCase(ctx, cfg, pick(fixed)) // the single carrier
	}
	for x := range menu {
		c.runCase(ctx, cfg, pick(append(append([]int(nil), fixed...), x)))
	}
}

func (c *check) runCase(ctx *engine.Ctx, cfg config, insts []inst) {
	nh := 0
	for _, in := range insts {
		if in.kind == "hint" {
			nh++
		}
	}
	if nh > 1 {
		return // an element has one presentational attribute of a given name
	}
	if len(insts) == 3 && !cfg.hints && nh == 0 {
		return // see Assumptions
	}
	p := &props[cfg.prop]
	if p.hintOnly && nh == 0 && len(insts) > 0 {
		return // see propDef.hintOnly
	}
	seen := map[string]bool{}
	for v := varShare; v <= varMerge; v++ {
		d := build(p, insts, v)
		t := d.serialize()
		k := t.key()
		if seen[k] {
			continue
		}
		seen[k] = true
		c.runDoc(ctx, cfg, d, t, v)
	}
}

func (c *check) runDoc(ctx *engine.Ctx, cfg config, d *docB, t texts, v variant) {
	p := d.prop
	recs := d.evaluate(cfg.hints, cfg.device)
	e0, e1 := winner(recs, 0), winner(recs, 1)
	var labels []string
	for _, in := range d.insts {
		labels = append(labels, in.label())
	}
	hs := "off"
	if cfg.hints {
		hs = "on"
	}
	desc := fmt.Sprintf("%s hints=%s device=%s arrangement=%s carriers=[%s] :: %s", p.name, hs, cfg.device, variantName[v], strings.Join(labels, " | "), t.String())
	var got string
	pi, skipped := ctx.Guard(desc, func() { got = observe(t, p, cfg.hints, cfg.device) })
	if skipped {
		return
	}
	napp := 0
	for _, r := range recs {
		if r.applies {
			napp++
		}
	}
	ctx.Trans(int64(len(d.insts)))
	tags := d.tags(recs, cfg.hints, cfg.device, v)
	if pi != nil {
		ctx.Case(napp >= 2, "panic")
		ctx.Fail(engine.Failure{Clause: pi.Clause, Site: pi.Site, Features: tags, Case: desc, Detail: pi.Msg})
		return
	}
	// which carrier does the observed value belong to
	g := -2
	if got == baseCanon[p.name] {
		g = -1
	}
	for i := range d.insts {
		if got == p.canon[i] {
			g = i
		}
	}
	wk := "none"
	if g >= 0 {
		wk = d.insts[g].kind
	}
	ctx.Case(napp >= 2, p.name+"|"+wk+"|"+got)
	// reach counters
	if napp >= 2 {
		second := -1
		for i, r := range recs {
			if i != e0 && r.applies && (second < 0 || beats(recs[second], r, 0)) {
				second = i
			}
		}
		ctx.Count("decided-by:"+step(recs[e0], recs[second]), 1)
	}
	if napp < len(recs) {
		ctx.Count("has-non-applying-carrier", 1)
	}
	if e0 != e1 {
		ctx.Count("nested-order-ambiguous(one-of-two)", 1)
	}
	if d.hint >= 0 && recs[d.hint].applies {
		ctx.Count("hint-applies", 1)
		if p.sheetHint {
			ctx.Count("hint-given-by-a-rule-of-the-hint-sheet-applies", 1)
		}
	}
	for _, t := range tags {
		switch t {
		case "decls-before-and-after-nested-rule", "decl-between-nested-rules", "nested-rule-in-media",
			"decl-in-rule-with-invalid-nested-selector", "decl-after-nested-unsupported-pseudo-element":
			ctx.Count("shape:"+t, 1)
		}
	}
	if g == e0 || g == e1 {
		return
	}
	name := func(i int) string {
		if i == -1 {
			return "none (initial value " + baseCanon[p.name] + ")"
		}
		return fmt.Sprintf("#%d %s = %s", i, d.insts[i].label(), p.canon[i])
	}
	exp := name(e0)
	if e1 != e0 {
		exp += " or " + name(e1)
	}
	var clause string
	switch {
	case g >= 0 && !recs[g].applies:
		clause = "non-applying-observed"
	case g == -2:
		clause = "unexpected-value"
	case g == -1:
		clause = "declaration-lost"
	case e0 < 0:
		clause = "non-applying-observed"
	default:
		clause = step(recs[e0], recs[g])
	}
	gs := got
	if g >= -1 {
		gs = name(g)
	}
	ctx.Fail(engine.Failure{Clause: clause, Site: "-", Features: tags, Case: desc,
		Detail: fmt.Sprintf("expected winner %s; computed value is that of %s", exp, gs)})
}

func (c *check) Describe(u int64) any {
	cfg, menu, fixed, loop := c.decode(u)
	m := map[string]any{"property": props[cfg.prop].name, "hints": cfg.hints, "device": cfg.device}
	if !loop {
		m["carriers"] = "none (empty case)"
		return m
	}
	var l []string
	for _, x := range fixed {
		l = append(l, menu[x].label())
	}
	m["carriers"] = strings.Join(l, " | ") + " | <every instance of the menu>"
	if len(fixed) == 1 {
		m["also"] = "the single carrier alone"
	}
	if len(fixed) > 0 {
		d := build(&props[cfg.prop], append([]inst{}, menu[fixed[0]], menu[len(menu)/2]), varShare)
		m["example"] = d.serialize().String()
	}
	return m
}

// FeaturesOf gives the tags of a case that killed its worker (from the description only).
func (c *check) FeaturesOf(desc string) []string {
	var out []string
	if i := strings.Index(desc, "carriers=["); i >= 0 {
		rest := desc[i+len("carriers=["):]
		if j := strings.Index(rest, "]"); j >= 0 {
			for _, l := range strings.Split(rest[:j], " | ") {
				l = strings.TrimSuffix(l, "!")
				if k := strings.Index(l, ":"); k >= 0 {
					l = l[:k]
				}
				out = append(out, "kind:"+l)
			}
		}
	}
	return out
}
