package c03

// The input model of the cascade check: declaration carriers, the document built from an
// ordered list of carrier instances, and the reference comparator (CSS Cascade 4 §6.1-6.4,
// CSS Nesting, HTML "presentational hints").
//
// The reference works on the *structure* of the generated document (sheets, @import chains,
// @media wrappers, rule trees, style attribute, hint attribute); the implementation is given
// the serialized text of the same structure. Nothing of the code under test is imported here.

import (
	"fmt"
	"sort"
	"strings"
)

// ---- selectors ------------------------------------------------------------------------------

// selInfo is one selector of the alphabet. "T" stands for the tag name of the probe element
// (<T id=i class=c>, first child of its parent, descendant of <body>).
type selInfo struct {
	text    string
	match   bool   // does it match the probe element
	specTop [3]int // specificity when used as the selector of a style rule (matching branch of a list)
	specIs  [3]int // specificity of :is(<selector>), i.e. of "&" inside a rule with this selector
}

func sp(a, b, c int) [3]int { return [3]int{a, b, c} }

// S of DESIGN §C03, plus a selector list whose non-matching branch is the more specific one
// (as a style rule it weighs (0,0,1); as the parent of a nested rule "&" weighs (1,0,0)).
var selS = []selInfo{
	{"T", true, sp(0, 0, 1), sp(0, 0, 1)},
	{".c", true, sp(0, 1, 0), sp(0, 1, 0)},
	{"T.c", true, sp(0, 1, 1), sp(0, 1, 1)},
	{"#i", true, sp(1, 0, 0), sp(1, 0, 0)},
	{"#i.c", true, sp(1, 1, 0), sp(1, 1, 0)},
	{":is(#i,.c)", true, sp(1, 0, 0), sp(1, 0, 0)},
	{":not(.z)", true, sp(0, 1, 0), sp(0, 1, 0)},
	{"T:first-child", true, sp(0, 1, 1), sp(0, 1, 1)},
	{"*", true, sp(0, 0, 0), sp(0, 0, 0)},
	{"#z,T", true, sp(0, 0, 1), sp(1, 0, 0)},
	// selector lists in which several members match the probe element with different
	// specificities: a rule weighs, for an element, as its MOST SPECIFIC MATCHING member
	// (Selectors 4 §17: a list is the union of its members; Cascade 4 §6.4.3), in whatever
	// position that member is; "&" weighs as the most specific member, matching or not.
	{"T,#i", true, sp(1, 0, 0), sp(1, 0, 0)},
	{"#i,T", true, sp(1, 0, 0), sp(1, 0, 0)},
	{"T,.c,#i", true, sp(1, 0, 0), sp(1, 0, 0)},
	{"*,T.c", true, sp(0, 1, 1), sp(0, 1, 1)},
	{"T,#z,.c", true, sp(0, 1, 0), sp(1, 0, 0)}, // a non-matching member between two matching ones
	{".c,q,T", true, sp(0, 1, 0), sp(0, 1, 0)},  // the same with the most specific matching member first
}

// coreSel is the number of leading entries of selS used by every rule carrier; the
// multi-match lists after them are used by the carriers listed in listKinds.
const coreSel = 10

var listKinds = map[string]bool{"ua": true, "user": true, "style": true, "nest&": true, "nestrel": true}

// selsFor returns the selectors a carrier kind is instantiated with.
func selsFor(kind string) []selInfo {
	if listKinds[kind] {
		return selS
	}
	return selS[:coreSel]
}

// selectors that do not match the probe element
var selNo = []selInfo{
	{"q", false, sp(0, 0, 1), sp(0, 0, 1)},
	{".z", false, sp(0, 1, 0), sp(0, 1, 0)},
	{"#z", false, sp(1, 0, 0), sp(1, 0, 0)},
	{"T.z", false, sp(0, 1, 1), sp(0, 1, 1)},
	{"T:not(.c)", false, sp(0, 1, 1), sp(0, 1, 1)},
	{"T:nth-child(2)", false, sp(0, 1, 1), sp(0, 1, 1)},
	{"T T", false, sp(0, 0, 2), sp(0, 0, 2)},
	{":is(#z,.z)", false, sp(1, 0, 0), sp(1, 0, 0)},
}

func selByText(t string) selInfo {
	for _, s := range selS {
		if s.text == t {
			return s
		}
	}
	for _, s := range selNo {
		if s.text == t {
			return s
		}
	}
	panic("c03: unknown selector " + t)
}

func selIndex(t string) int {
	for i, s := range selS {
		if s.text == t {
			return i
		}
	}
	return -1
}

func addSpec(a, b [3]int) [3]int { return [3]int{a[0] + b[0], a[1] + b[1], a[2] + b[2]} }

// ---- carrier kinds --------------------------------------------------------------------------

type class int

const (
	clsUA        class = iota // rule of the user-agent sheet
	clsUser                   // rule of a user sheet
	clsStyleBody              // rule in the body of a <style> element
	clsStyleHead              // @import at the head of a <style> element
	clsLinkBody               // rule in the body of a <link> sheet
	clsLinkHead               // @import at the head of a <link> sheet
	clsOwnStyle               // <style media=…> element of its own
	clsOwnLink                // <link media=…> element of its own
	clsAttr                   // declaration in the style attribute
	clsHint                   // presentational attribute
)

type kindDef struct {
	name  string
	cls   class
	media string // @media prelude (wrap), @import media, or media attribute
	wrap  bool   // rule wrapped in @media <media>
	late  bool   // @import placed after a style rule (invalid position)
	chain int    // length of the @import chain (1 or 2)
	// inner: @media prelude wrapped around the rule INSIDE the sheet of its own that the carrier
	// gets (the imported sheet of an @import carrier, at the end of the chain; the sheet of a
	// <style media>/<link media> element of its own). For chain 2, media is written on the INNER
	// @import rule, i.e. on an @import that is itself inside an imported sheet.
	inner string
	// shape of the selector path below the top-level selector: "" (plain rule), "&", "&.c",
	// "&&" (two levels of "&"), "rel" (relative nested selector under body)
	shape string
	// padding of the rule that holds the carrier's declaration (pre/post) and of its parent rule
	// around the nested rule (ppre/ppost): a string over 'F' (a declaration of another property,
	// left:0), 'N' (a nested rule declaring another property, &{top:0}), 'X' (a nested rule whose
	// selector is invalid, &:bogus{top:0}: only that nested rule is dropped) and 'U' (a nested
	// rule for a pseudo-element the implementation parses but does not support,
	// &::selection{top:0}: again only that nested rule is dropped). They give a rule
	// declarations of its own before, between and after nested rules.
	pre, post, ppre, ppost string
}

type pads struct{ pre, post, ppre, ppost string }

func (k kindDef) pads() pads { return pads{k.pre, k.post, k.ppre, k.ppost} }

var kinds = map[string]kindDef{
	"ua":                {name: "ua", cls: clsUA},
	"user":              {name: "user", cls: clsUser},
	"style":             {name: "style", cls: clsStyleBody},
	"link":              {name: "link", cls: clsLinkBody},
	"import":            {name: "import", cls: clsStyleHead, chain: 1},
	"import-print":      {name: "import-print", cls: clsStyleHead, chain: 1, media: "print"},
	"import-screen":     {name: "import-screen", cls: clsStyleHead, chain: 1, media: "screen"},
	"import2":           {name: "import2", cls: clsStyleHead, chain: 2},
	"link-import":       {name: "link-import", cls: clsLinkHead, chain: 1},
	"import-late":       {name: "import-late", cls: clsStyleBody, chain: 1, late: true},
	"media-print":       {name: "media-print", cls: clsStyleBody, wrap: true, media: "print"},
	"media-all":         {name: "media-all", cls: clsStyleBody, wrap: true, media: "all"},
	"media-list":        {name: "media-list", cls: clsStyleBody, wrap: true, media: "screen, print"},
	"media-upper":       {name: "media-upper", cls: clsStyleBody, wrap: true, media: "PRINT"},
	"media-screen":      {name: "media-screen", cls: clsStyleBody, wrap: true, media: "screen"},
	"style-media-print": {name: "style-media-print", cls: clsOwnStyle, media: "print"},
	"style-media-list":  {name: "style-media-list", cls: clsOwnStyle, media: "screen, print"},
	"style-media-upper": {name: "style-media-upper", cls: clsOwnStyle, media: "PRINT"},
	"style-screen":      {name: "style-screen", cls: clsOwnStyle, media: "screen"},
	"link-screen":       {name: "link-screen", cls: clsOwnLink, media: "screen"},
	// media-dependent constructs INSIDE sheets reached through @import (and inside <style media> /
	// <link media> sheets), so that the device media type has to reach the imported sheet:
	// @media blocks in an imported sheet, at depth 1 and 2, from <style> and from <link>; a
	// media list on an @import that is written inside an imported sheet; a media list on the
	// @import crossed with an @media block inside; @media directly in a <link> sheet
	"import-media-print":         {name: "import-media-print", cls: clsStyleHead, chain: 1, inner: "print"},
	"import-media-screen":        {name: "import-media-screen", cls: clsStyleHead, chain: 1, inner: "screen"},
	"import2-print":              {name: "import2-print", cls: clsStyleHead, chain: 2, media: "print"},
	"import2-screen":             {name: "import2-screen", cls: clsStyleHead, chain: 2, media: "screen"},
	"import2-media-print":        {name: "import2-media-print", cls: clsStyleHead, chain: 2, inner: "print"},
	"import2-media-screen":       {name: "import2-media-screen", cls: clsStyleHead, chain: 2, inner: "screen"},
	"link-import-media-print":    {name: "link-import-media-print", cls: clsLinkHead, chain: 1, inner: "print"},
	"link-import-media-screen":   {name: "link-import-media-screen", cls: clsLinkHead, chain: 1, inner: "screen"},
	"link-import2-print":         {name: "link-import2-print", cls: clsLinkHead, chain: 2, media: "print"},
	"link-import2-screen":        {name: "link-import2-screen", cls: clsLinkHead, chain: 2, media: "screen"},
	"import-print-media-print":   {name: "import-print-media-print", cls: clsStyleHead, chain: 1, media: "print", inner: "print"},
	"import-screen-media-screen": {name: "import-screen-media-screen", cls: clsStyleHead, chain: 1, media: "screen", inner: "screen"},
	"import-print-media-screen":  {name: "import-print-media-screen", cls: clsStyleHead, chain: 1, media: "print", inner: "screen"},
	"import-screen-media-print":  {name: "import-screen-media-print", cls: clsStyleHead, chain: 1, media: "screen", inner: "print"},
	"style-screen-media-screen":  {name: "style-screen-media-screen", cls: clsOwnStyle, media: "screen", inner: "screen"},
	"link-screen-media-print":    {name: "link-screen-media-print", cls: clsOwnLink, media: "screen", inner: "print"},
	"link-media-print":           {name: "link-media-print", cls: clsLinkBody, wrap: true, media: "print"},
	"link-media-screen":          {name: "link-media-screen", cls: clsLinkBody, wrap: true, media: "screen"},
	// nested rules live in the body of a <style>; they differ by their selector path
	"nest&":        {name: "nest&", cls: clsStyleBody, shape: "&"},
	"nest&.c":      {name: "nest&.c", cls: clsStyleBody, shape: "&.c"},
	"nest2":        {name: "nest2", cls: clsStyleBody, shape: "&&"},
	"nestrel":      {name: "nestrel", cls: clsStyleBody, shape: "rel"},
	"nomatch":      {name: "nomatch", cls: clsStyleBody},
	"nest-nomatch": {name: "nest-nomatch", cls: clsStyleBody},
	"attr":         {name: "attr", cls: clsAttr},
	"hint":         {name: "hint", cls: clsHint},
	// rules with declarations of their own before, between and after nested rules
	// (d = the carrier's declaration, n = the nested rule holding it, F/N = padding, see kindDef)
	"style-dNF":   {name: "style-dNF", cls: clsStyleBody, post: "NF"},                        // S{P:v; &{top:0} left:0}
	"style-FNd":   {name: "style-FNd", cls: clsStyleBody, pre: "FN"},                         // S{left:0; &{top:0} P:v}
	"style-dN":    {name: "style-dN", cls: clsStyleBody, post: "N"},                          // S{P:v; &{top:0}}
	"style-Nd":    {name: "style-Nd", cls: clsStyleBody, pre: "N"},                           // S{&{top:0} P:v}
	"style-NdN":   {name: "style-NdN", cls: clsStyleBody, pre: "N", post: "N"},               // S{&{top:0} P:v; &{top:0}}
	"style-FNdNF": {name: "style-FNdNF", cls: clsStyleBody, pre: "FN", post: "NF"},           // S{left:0; &{top:0} P:v; &{top:0} left:0}
	"nest&-nF":    {name: "nest&-nF", cls: clsStyleBody, shape: "&", ppost: "F"},             // S{&{P:v} left:0}
	"nest&-FnF":   {name: "nest&-FnF", cls: clsStyleBody, shape: "&", ppre: "F", ppost: "F"}, // S{left:0; &{P:v} left:0}
	"nest&-NnF":   {name: "nest&-NnF", cls: clsStyleBody, shape: "&", ppre: "N", ppost: "F"}, // S{&{top:0} &{P:v} left:0}
	"nest&-dNF":   {name: "nest&-dNF", cls: clsStyleBody, shape: "&", post: "NF"},            // S{&{P:v; &{top:0} left:0}}
	// the same shape in the other sheet kinds
	"ua-dNF":     {name: "ua-dNF", cls: clsUA, post: "NF"},
	"user-dNF":   {name: "user-dNF", cls: clsUser, post: "NF"},
	"link-dNF":   {name: "link-dNF", cls: clsLinkBody, post: "NF"},
	"import-dNF": {name: "import-dNF", cls: clsStyleHead, chain: 1, post: "NF"},
	// nested rules inside @media
	"media-nest&":      {name: "media-nest&", cls: clsStyleBody, wrap: true, media: "print", shape: "&"},
	"media-nest&-nF":   {name: "media-nest&-nF", cls: clsStyleBody, wrap: true, media: "print", shape: "&", ppost: "F"},
	"media-dNF":        {name: "media-dNF", cls: clsStyleBody, wrap: true, media: "print", post: "NF"},
	"media-screen-dNF": {name: "media-screen-dNF", cls: clsStyleBody, wrap: true, media: "screen", post: "NF"},
	// nested rules that are dropped (invalid selector, unsupported pseudo-element) or that style
	// a pseudo-element and not the element: as padding, and as (never applying) carriers
	"style-dX":            {name: "style-dX", cls: clsStyleBody, post: "X"},             // S{P:v; &:bogus{top:0}}
	"style-Xd":            {name: "style-Xd", cls: clsStyleBody, pre: "X"},              // S{&:bogus{top:0} P:v}
	"style-dU":            {name: "style-dU", cls: clsStyleBody, post: "U"},             // S{P:v; &::selection{top:0}}
	"style-Ud":            {name: "style-Ud", cls: clsStyleBody, pre: "U"},              // S{&::selection{top:0} P:v}
	"nest&-Xn":            {name: "nest&-Xn", cls: clsStyleBody, shape: "&", ppre: "X"}, // S{&:bogus{top:0} &{P:v}}
	"nest&-Un":            {name: "nest&-Un", cls: clsStyleBody, shape: "&", ppre: "U"}, // S{&::selection{top:0} &{P:v}}
	"nest-invalid":        {name: "nest-invalid", cls: clsStyleBody, shape: "&:bogus"},  // S{&:bogus{P:v}}
	"nest-unsupported-pe": {name: "nest-unsupported-pe", cls: clsStyleBody, shape: "&::selection"},
	"nest-pseudo-el":      {name: "nest-pseudo-el", cls: clsStyleBody, shape: "&::before"},
}

// inst is one carrier instance: a place where one declaration of the probed property is put.
type inst struct {
	kind  string
	path  []string // selector path, outermost rule first ("T" = probe tag); nil for attr/hint
	imp   bool
	match bool   // reference: the (desugared) selector matches the probe element
	spec  [3]int // reference: specificity of the (desugared) selector
	rel   bool   // nested rule whose selector has no "&" (relative selector)
}

func (in inst) label() string {
	s := in.kind
	if len(in.path) > 0 {
		s += ":" + strings.Join(in.path, ">")
	}
	if in.imp {
		s += "!"
	}
	return s
}

// ruleInst builds a rule carrier of the given kind for a top-level selector.
func ruleInst(kind, sel string, imp bool) inst {
	s := selByText(sel)
	in := inst{kind: kind, imp: imp}
	k, ok := kinds[kind]
	if !ok {
		panic("c03: unknown carrier kind " + kind)
	}
	switch k.shape {
	case "&":
		in.path, in.match, in.spec = []string{sel, "&"}, s.match, s.specIs
	case "&.c":
		in.path, in.match, in.spec = []string{sel, "&.c"}, s.match, addSpec(s.specIs, sp(0, 1, 0))
	case "&&":
		in.path, in.match, in.spec = []string{sel, "&", "&"}, s.match, s.specIs
	case "&:bogus", "&::selection", "&::before":
		// invalid / unsupported / pseudo-element rule: never applies to the probe element
		in.path, in.match, in.spec = []string{sel, k.shape}, false, sp(9, 9, 9)
	case "rel":
		// body { sel {…} }  ==  :is(body) sel  (each member of a list gets the implied "& ")
		in.path, in.match, in.spec, in.rel = []string{"body", sel}, s.match, addSpec(sp(0, 0, 1), s.specTop), true
	default:
		in.path, in.match, in.spec = []string{sel}, s.match, s.specTop
	}
	return in
}

func nestNoMatch(path []string, imp, rel bool) inst {
	return inst{kind: "nest-nomatch", path: path, imp: imp, match: false, spec: sp(9, 9, 9), rel: rel}
}

var bools = []bool{false, true}

// fullSet is the carrier-instance menu of the pair space.
func fullSet() []inst {
	var out []inst
	for _, s := range selsFor("ua") {
		out = append(out, ruleInst("ua", s.text, false))
	}
	for _, k := range []string{"user", "style", "link", "import", "media-print", "nest&", "nest&.c", "nestrel", "nest2"} {
		for _, s := range selsFor(k) {
			for _, imp := range bools {
				out = append(out, ruleInst(k, s.text, imp))
			}
		}
	}
	for _, k := range []string{"import-print", "import2", "link-import", "media-all", "media-list", "media-upper", "style-media-print", "style-media-list", "style-media-upper"} {
		for _, imp := range bools {
			out = append(out, ruleInst(k, ".c", imp))
		}
	}
	out = append(out, inst{kind: "attr"}, inst{kind: "attr", imp: true}, inst{kind: "hint"})
	// rules with declarations of their own before / between / after nested rules, on the
	// selectors of specificity (0,0,1), (1,0,0) and (0,0,0) so that they tie with the plain carriers
	for _, k := range []string{"style-dNF", "style-FNd", "style-dN", "style-Nd", "style-NdN", "style-FNdNF"} {
		for _, s := range []string{"T", "#i", "*"} {
			for _, imp := range bools {
				out = append(out, ruleInst(k, s, imp))
			}
		}
	}
	for _, k := range []string{"nest&-nF", "nest&-FnF", "nest&-NnF", "nest&-dNF"} {
		for _, s := range []string{"T", "*"} {
			for _, imp := range bools {
				out = append(out, ruleInst(k, s, imp))
			}
		}
	}
	out = append(out, ruleInst("ua-dNF", "T", false))
	for _, k := range []string{"user-dNF", "link-dNF", "import-dNF", "media-dNF", "media-nest&-nF"} {
		for _, imp := range bools {
			out = append(out, ruleInst(k, "T", imp))
		}
	}
	for _, s := range []string{"T", ".c"} {
		for _, imp := range bools {
			out = append(out, ruleInst("media-nest&", s, imp))
		}
	}
	out = append(out, ruleInst("media-screen-dNF", "#i.c", true))
	for _, k := range []string{"style-dX", "style-Xd", "style-dU", "style-Ud", "nest-invalid", "nest-unsupported-pe", "nest-pseudo-el"} {
		for _, imp := range bools {
			out = append(out, ruleInst(k, "T", imp))
		}
	}
	out = append(out, ruleInst("nest&-Xn", "T", false), ruleInst("nest&-Un", "T", false))
	// carriers that never apply on the default (print) device: the strongest and the weakest form
	for _, k := range []string{"media-screen", "import-screen", "import-late", "style-screen", "link-screen"} {
		out = append(out, ruleInst(k, "#i.c", true), ruleInst(k, "*", false))
	}
	// media-dependent constructs inside imported sheets: the ones that apply on print tie on
	// specificity with the other ".c" carriers; the ones that apply on screen only, or never, in
	// the strongest and the weakest form like the other screen carriers
	for _, k := range []string{"import-media-print", "import2-print", "import2-media-print", "link-import-media-print", "link-import2-print",
		"import-print-media-print", "link-media-print"} {
		for _, imp := range bools {
			out = append(out, ruleInst(k, ".c", imp))
		}
	}
	for _, k := range []string{"import-media-screen", "import2-screen", "import2-media-screen", "link-import-media-screen", "link-import2-screen",
		"import-screen-media-screen", "import-print-media-screen", "import-screen-media-print", "style-screen-media-screen",
		"link-screen-media-print", "link-media-screen"} {
		out = append(out, ruleInst(k, "#i.c", true), ruleInst(k, "*", false))
	}
	for _, s := range selNo {
		for _, imp := range bools {
			out = append(out, ruleInst("nomatch", s.text, imp))
		}
	}
	for _, imp := range bools {
		out = append(out,
			nestNoMatch([]string{"q", "&"}, imp, false),
			nestNoMatch([]string{"T", "&.z"}, imp, false),
			nestNoMatch([]string{"q", "T"}, imp, true),
			nestNoMatch([]string{"q", "#z,T"}, imp, true),
			nestNoMatch([]string{"q", "&.c,T"}, imp, true)) // a list mixing "&" and a relative member
	}
	return out
}

// reducedSet is the menu of the triple space: four selectors that collide on specificity
// across carriers ((0,0,0), (0,0,1), (0,1,0), (1,0,0)) for the sheet kinds, the full selector
// set for plain <style> rules and "&" nested rules, and one or two instances of every other kind.
func reducedSet() []inst {
	var out []inst
	rs := []string{"T", ".c", "#i", "*"}
	for _, s := range rs {
		out = append(out, ruleInst("ua", s, false))
	}
	for _, k := range []string{"user", "style", "link", "import", "media-print", "nest&"} {
		for _, s := range selS {
			// the whole selector set (multi-match lists included) for plain <style> rules,
			// the core set for "&" nested rules
			keep := k == "style" || (k == "nest&" && selIndex(s.text) < coreSel)
			for _, r := range rs {
				keep = keep || r == s.text
			}
			if !keep {
				continue
			}
			for _, imp := range bools {
				out = append(out, ruleInst(k, s.text, imp))
			}
		}
	}
	for _, imp := range bools {
		out = append(out, ruleInst("nest&.c", "T", imp), ruleInst("nest&.c", "#i", imp),
			ruleInst("nestrel", "T", imp), ruleInst("nestrel", "#z,T", imp), ruleInst("nest2", "T", imp))
	}
	for _, k := range []string{"import-print", "import2", "link-import", "media-all", "media-list", "style-media-print", "style-media-upper"} {
		out = append(out, ruleInst(k, ".c", false))
	}
	out = append(out, inst{kind: "attr"}, inst{kind: "attr", imp: true}, inst{kind: "hint"})
	for _, imp := range bools {
		out = append(out, ruleInst("style-dNF", "T", imp), ruleInst("style-Nd", "T", imp), ruleInst("style-dN", "T", imp),
			ruleInst("nest&-nF", "T", imp))
	}
	out = append(out, ruleInst("style-FNdNF", "*", false), ruleInst("media-nest&", "T", false), ruleInst("media-dNF", "T", true),
		ruleInst("style-dX", "T", false), ruleInst("style-Ud", "T", false), ruleInst("nest-invalid", "T", true), ruleInst("nest-unsupported-pe", "T", true))
	for _, k := range []string{"media-screen", "import-screen", "import-late", "style-screen", "link-screen"} {
		out = append(out, ruleInst(k, "#i.c", true))
	}
	// media-dependent constructs inside imported sheets
	out = append(out, ruleInst("import-media-print", ".c", false), ruleInst("import2-print", ".c", false),
		ruleInst("import-media-screen", "#i.c", true), ruleInst("import2-screen", "#i.c", true),
		ruleInst("link-import-media-screen", "#i.c", true), ruleInst("import-screen-media-screen", "#i.c", true))
	out = append(out, ruleInst("nomatch", "q", true), ruleInst("nomatch", "#z", false),
		nestNoMatch([]string{"q", "&"}, true, false), nestNoMatch([]string{"q", "#z,T"}, true, true))
	return out
}

// ---- properties -----------------------------------------------------------------------------

type propDef struct {
	name   string    // CSS property
	tag    string    // probe element
	values [3]string // CSS text of the values of positions 0,1,2
	canon  [3]string // canonical observed form of these values
	hint   string    // presentational attribute carrying the hint
	hintV  [3]string // attribute value giving values[k]
	open   string    // markup before the probe element
	inner  string    // markup inside / after
	// sheetHint: the hint comes from a rule of the presentational-hints SHEET (html5_ph.css,
	// e.g. p[align=center]); otherwise it is computed from the attribute (findStyleAttributes).
	sheetHint bool
	// hintOnly: only the cases holding a hint carrier (and the empty case) are explored for
	// this property: it is there to vary the hint-sheet rule, the rest of the space does not
	// depend on the property.
	hintOnly bool
}

var props = []propDef{
	{name: "color", tag: "font", values: [3]string{"#010203", "#040506", "#070809"}, canon: [3]string{"#010203", "#040506", "#070809"},
		hint: "color", hintV: [3]string{"#010203", "#040506", "#070809"}, open: "<body>", inner: "x</font>"},
	{name: "text-align", tag: "p", values: [3]string{"right", "center", "justify"}, canon: [3]string{"right", "center", "justify"},
		hint: "align", hintV: [3]string{"right", "center", "justify"}, open: "<body>", inner: "x</p>", sheetHint: true},
	{name: "width", tag: "table", values: [3]string{"11px", "12px", "13px"}, canon: [3]string{"11px", "12px", "13px"},
		hint: "width", hintV: [3]string{"11", "12", "13"}, open: "<body>", inner: "<tr><td>x</td></tr></table>"},
	{name: "background-color", tag: "td", values: [3]string{"#010203", "#040506", "#070809"}, canon: [3]string{"#010203", "#040506", "#070809"},
		hint: "bgcolor", hintV: [3]string{"#010203", "#040506", "#070809"}, open: "<body><table><tr>", inner: "x</td></tr></table>"},
	// hints given by rules of the hint sheet: ol[type=a], td[valign=top], br[clear=left], table[align=left]…
	{name: "list-style-type", tag: "ol", values: [3]string{"lower-alpha", "upper-alpha", "lower-roman"}, canon: [3]string{"lower-alpha", "upper-alpha", "lower-roman"},
		hint: "type", hintV: [3]string{"a", "A", "i"}, open: "<body>", inner: "<li>x</li></ol>", sheetHint: true, hintOnly: true},
	{name: "vertical-align", tag: "td", values: [3]string{"top", "middle", "bottom"}, canon: [3]string{"top", "middle", "bottom"},
		hint: "valign", hintV: [3]string{"top", "middle", "bottom"}, open: "<body><table><tr>", inner: "x</td></tr></table>", sheetHint: true, hintOnly: true},
	{name: "clear", tag: "br", values: [3]string{"left", "right", "both"}, canon: [3]string{"left", "right", "both"},
		hint: "clear", hintV: [3]string{"left", "right", "all"}, open: "<body>", inner: "", sheetHint: true, hintOnly: true},
}

// ---- document structure ---------------------------------------------------------------------

type decl struct {
	idx int // position of the carrier in the case
	imp bool
}

// node is a style rule; its items are declarations and nested rules in source order.
type node struct {
	sel   string
	items []any // decl | *node | pad
}

// pad is an item that declares nothing of the probed property: 'F' a declaration of another
// property (left:0), 'N' a nested rule holding one (&{top:0}). Neither takes part in the cascade
// of the probed property; they shape the declaration block around the carriers.
type pad byte

func appendPads(items *[]any, p string) {
	for i := 0; i < len(p); i++ {
		*items = append(*items, pad(p[i]))
	}
}

type importB struct {
	media string
	url   string
	sheet *sheetB
}

type mediaB struct {
	query string
	items []any // *node
}

type filler struct{} // q{top:0}: a valid style rule that declares nothing of interest

// sheetB is a style sheet: @import rules at its head, then items.
type sheetB struct {
	imports []importB
	items   []any // *node | *mediaB | importB (an @import in invalid position) | filler
}

type elemB struct {
	link  bool
	media string // media attribute ("" = none)
	url   string // for links
	sheet *sheetB
}

type docB struct {
	prop   *propDef
	ua     *sheetB
	users  []*sheetB
	elems  []*elemB
	attr   []decl
	hint   int // carrier index of the hint, -1 none
	nfiles int
	insts  []inst
}

type variant int

const (
	varShare variant = iota // carriers share a container whenever the container kind allows it
	varSplit                // every carrier gets a container of its own
	varMerge                // like share, and adjacent carriers whose selector paths have a common prefix share the rule (and the @media block)
)

var variantName = []string{"share", "split", "merge"}

func (d *docB) newURL() string {
	d.nfiles++
	return fmt.Sprintf("f%d.css", d.nfiles)
}

// addRule puts a declaration at the end of the selector path inside items, with the padding
// of its kind around it (pre/post in the innermost rule, ppre/ppost in its parent around the
// innermost rule).
func addRule(items *[]any, path []string, pd pads, dc decl, merge bool) {
	cur := items
	var n, parent *node
	for li, s := range path {
		parent = n
		if li == len(path)-1 && parent != nil {
			appendPads(cur, pd.ppre)
		}
		n = nil
		if merge && len(*cur) > 0 {
			if last, ok := (*cur)[len(*cur)-1].(*node); ok && last.sel == s {
				n = last
			}
		}
		if n == nil {
			n = &node{sel: s}
			*cur = append(*cur, n)
		}
		cur = &n.items
	}
	appendPads(&n.items, pd.pre)
	n.items = append(n.items, dc)
	appendPads(&n.items, pd.post)
	if parent != nil {
		appendPads(&parent.items, pd.ppost)
	}
}

// build lays the carriers out in list order.
func build(p *propDef, insts []inst, v variant) *docB {
	d := &docB{prop: p, ua: &sheetB{}, hint: -1, insts: insts}
	merge := v == varMerge
	split := v == varSplit
	lastElem := func() *elemB {
		if len(d.elems) == 0 || split {
			return nil
		}
		return d.elems[len(d.elems)-1]
	}
	for idx, in := range insts {
		k := kinds[in.kind]
		dc := decl{idx: idx, imp: in.imp}
		one := &sheetB{} // the sheet holding just this rule (imported sheets, own elements)
		pd := k.pads()
		if len(in.path) > 0 {
			if k.inner != "" {
				mb := &mediaB{query: k.inner}
				addRule(&mb.items, in.path, pd, dc, false)
				one.items = append(one.items, mb)
			} else {
				addRule(&one.items, in.path, pd, dc, false)
			}
		}
		switch k.cls {
		case clsUA:
			addRule(&d.ua.items, in.path, pd, dc, merge)
		case clsUser:
			if len(d.users) == 0 || split {
				d.users = append(d.users, &sheetB{})
			}
			addRule(&d.users[len(d.users)-1].items, in.path, pd, dc, merge)
		case clsAttr:
			d.attr = append(d.attr, dc)
		case clsHint:
			d.hint = idx
		case clsOwnStyle:
			d.elems = append(d.elems, &elemB{media: k.media, sheet: one})
		case clsOwnLink:
			d.elems = append(d.elems, &elemB{link: true, media: k.media, url: d.newURL(), sheet: one})
		case clsStyleBody, clsLinkBody:
			link := k.cls == clsLinkBody
			e := lastElem()
			if e == nil || e.link != link || e.media != "" {
				e = &elemB{link: link, sheet: &sheetB{}}
				if link {
					e.url = d.newURL()
				}
				d.elems = append(d.elems, e)
			}
			switch {
			case k.late:
				if len(e.sheet.items) == 0 {
					e.sheet.items = append(e.sheet.items, filler{})
				}
				e.sheet.items = append(e.sheet.items, importB{url: d.newURL(), sheet: one})
			case k.wrap:
				var mb *mediaB
				if merge && len(e.sheet.items) > 0 {
					if last, ok := e.sheet.items[len(e.sheet.items)-1].(*mediaB); ok && last.query == k.media {
						mb = last
					}
				}
				if mb == nil {
					mb = &mediaB{query: k.media}
					e.sheet.items = append(e.sheet.items, mb)
				}
				addRule(&mb.items, in.path, pd, dc, merge)
			default:
				addRule(&e.sheet.items, in.path, pd, dc, merge)
			}
		case clsStyleHead, clsLinkHead:
			link := k.cls == clsLinkHead
			e := lastElem()
			if e == nil || e.link != link || e.media != "" || len(e.sheet.items) > 0 {
				e = &elemB{link: link, sheet: &sheetB{}}
				if link {
					e.url = d.newURL()
				}
				d.elems = append(d.elems, e)
			}
			imp := importB{media: k.media, url: d.newURL(), sheet: one}
			if k.chain == 2 {
				imp = importB{url: d.newURL(), sheet: &sheetB{imports: []importB{imp}}}
			}
			e.sheet.imports = append(e.sheet.imports, imp)
		}
	}
	return d
}

// ---- serialization (the text given to the implementation) ------------------------------------

const baseURL = "http://h/"

func (d *docB) declText(dc decl) string {
	s := d.prop.name + ":" + d.prop.values[dc.idx]
	if dc.imp {
		s += " !important"
	}
	return s
}

func (d *docB) nodeText(sb *strings.Builder, n *node) {
	sb.WriteString(strings.ReplaceAll(n.sel, "T", d.prop.tag))
	sb.WriteString("{")
	for _, it := range n.items {
		switch it := it.(type) {
		case decl:
			sb.WriteString(d.declText(it))
			sb.WriteString(";")
		case *node:
			d.nodeText(sb, it)
		case pad:
			switch it {
			case 'F':
				sb.WriteString("left:0;")
			case 'N':
				sb.WriteString("&{top:0}")
			case 'X':
				sb.WriteString("&:bogus{top:0}")
			case 'U':
				sb.WriteString("&::selection{top:0}")
			}
		}
	}
	sb.WriteString("}")
}

func importText(im importB) string {
	s := `@import "` + im.url + `"`
	if im.media != "" {
		s += " " + im.media
	}
	return s + ";"
}

// sheetText serializes a sheet and registers the sheets it imports in files.
func (d *docB) sheetText(sh *sheetB, files map[string]string) string {
	var sb strings.Builder
	for _, im := range sh.imports {
		sb.WriteString(importText(im))
		files[baseURL+im.url] = d.sheetText(im.sheet, files)
	}
	for _, it := range sh.items {
		switch it := it.(type) {
		case *node:
			d.nodeText(&sb, it)
		case *mediaB:
			sb.WriteString("@media " + it.query + "{")
			for _, r := range it.items {
				d.nodeText(&sb, r.(*node))
			}
			sb.WriteString("}")
		case importB:
			sb.WriteString(importText(it))
			files[baseURL+it.url] = d.sheetText(it.sheet, files)
		case filler:
			sb.WriteString("q{top:0}")
		}
	}
	return sb.String()
}

// texts is the serialized form of a case.
type texts struct {
	html  string
	ua    string
	users []string
	files map[string]string
}

func (d *docB) serialize() texts {
	t := texts{files: map[string]string{}}
	t.ua = d.sheetText(d.ua, t.files)
	for _, u := range d.users {
		t.users = append(t.users, d.sheetText(u, t.files))
	}
	var sb strings.Builder
	for _, e := range d.elems {
		media := ""
		if e.media != "" {
			media = ` media="` + e.media + `"`
		}
		if e.link {
			t.files[baseURL+e.url] = d.sheetText(e.sheet, t.files)
			sb.WriteString(`<link rel=stylesheet href="` + baseURL + e.url + `"` + media + `>`)
		} else {
			sb.WriteString("<style" + media + ">" + d.sheetText(e.sheet, t.files) + "</style>")
		}
	}
	sb.WriteString(d.prop.open)
	sb.WriteString("<" + d.prop.tag + " id=i class=c")
	if len(d.attr) > 0 {
		var l []string
		for _, dc := range d.attr {
			l = append(l, d.declText(dc))
		}
		sb.WriteString(` style="` + strings.Join(l, ";") + `"`)
	}
	if d.hint >= 0 {
		sb.WriteString(" " + d.prop.hint + `="` + d.prop.hintV[d.hint] + `"`)
	}
	sb.WriteString(">" + d.prop.inner)
	t.html = sb.String()
	return t
}

func (t texts) key() string {
	var sb strings.Builder
	sb.WriteString(t.html + "\x00" + t.ua)
	for _, u := range t.users {
		sb.WriteString("\x01" + u)
	}
	ks := make([]string, 0, len(t.files))
	for k := range t.files {
		ks = append(ks, k)
	}
	sort.Strings(ks)
	for _, k := range ks {
		sb.WriteString("\x02" + k + "=" + t.files[k])
	}
	return sb.String()
}

func (t texts) String() string {
	var sb strings.Builder
	sb.WriteString("html=" + t.html)
	if t.ua != "" {
		sb.WriteString(" || ua-sheet=" + t.ua)
	}
	for _, u := range t.users {
		sb.WriteString(" || user-sheet=" + u)
	}
	ks := make([]string, 0, len(t.files))
	for k := range t.files {
		ks = append(ks, k)
	}
	sort.Strings(ks)
	for _, k := range ks {
		sb.WriteString(" || " + k + "=" + t.files[k])
	}
	return sb.String()
}

// ---- reference ------------------------------------------------------------------------------

// rec is what the cascade needs to know about one declaration.
type rec struct {
	applies bool
	level   int // 1 UA, 2 user, 3 author, 4 author !important, 5 user !important
	attr    bool
	spec    [3]int
	ord     [2]int // order of appearance under the two readings of CSS Nesting (see evaluate)
}

// mediaMatches evaluates a comma separated list of media types (ASCII case-insensitive).
func mediaMatches(q, device string) bool {
	if strings.TrimSpace(q) == "" {
		return true
	}
	for _, m := range strings.Split(q, ",") {
		m = strings.ToLower(strings.TrimSpace(m))
		if m == "all" || m == device {
			return true
		}
	}
	return false
}

func level(origin string, imp bool) int {
	switch {
	case origin == "ua":
		return 1
	case origin == "user" && !imp:
		return 2
	case origin == "author" && !imp:
		return 3
	case origin == "author":
		return 4
	}
	return 5
}

// evaluate walks the document structure and fills one rec per carrier.
//
// Order of appearance (Cascade 4 §6.4.? "Order of Appearance"): document order of the sheets,
// an imported sheet being ordered at the place of its @import rule; inside a rule with nested
// rules, reading 0 (CSS Nesting 2024: nested declarations rules) keeps plain source order,
// reading 1 (CSS Nesting 2023) treats the declarations of a rule as if they all came before
// its nested rules. Both agree unless a declaration follows a nested rule.
// Presentational hints come before every other author declaration.
func (d *docB) evaluate(hints bool, device string) []rec {
	recs := make([]rec, len(d.insts))
	for reading := 0; reading < 2; reading++ {
		n := 0
		var walkNode func(nd *node, origin string, on bool)
		walkNode = func(nd *node, origin string, on bool) {
			visit := func(it any) {
				switch it := it.(type) {
				case decl:
					n++
					in := d.insts[it.idx]
					r := &recs[it.idx]
					r.applies = on && in.match
					r.level = level(origin, it.imp)
					r.spec = in.spec
					r.ord[reading] = n
				case *node:
					walkNode(it, origin, on)
				}
			}
			if reading == 0 {
				for _, it := range nd.items {
					visit(it)
				}
				return
			}
			for _, it := range nd.items {
				if _, ok := it.(decl); ok {
					visit(it)
				}
			}
			for _, it := range nd.items {
				if _, ok := it.(*node); ok {
					visit(it)
				}
			}
		}
		var walkSheet func(sh *sheetB, origin string, on bool)
		walkSheet = func(sh *sheetB, origin string, on bool) {
			for _, im := range sh.imports {
				walkSheet(im.sheet, origin, on && mediaMatches(im.media, device))
			}
			for _, it := range sh.items {
				switch it := it.(type) {
				case *node:
					walkNode(it, origin, on)
				case *mediaB:
					for _, r := range it.items {
						walkNode(r.(*node), origin, on && mediaMatches(it.query, device))
					}
				case importB:
					walkSheet(it.sheet, origin, false) // @import after a style rule is invalid
				}
			}
		}
		walkSheet(d.ua, "ua", true)
		for _, u := range d.users {
			walkSheet(u, "user", true) // user sheets are prepared for the print medium; they hold no media rules
		}
		if d.hint >= 0 {
			n++
			recs[d.hint] = rec{applies: hints, level: 3, spec: sp(0, 0, 0), ord: recs[d.hint].ord}
			recs[d.hint].ord[reading] = n
		}
		for _, e := range d.elems {
			walkSheet(e.sheet, "author", mediaMatches(e.media, device))
		}
		for _, dc := range d.attr {
			n++
			r := &recs[dc.idx]
			r.applies, r.level, r.attr = true, level("author", dc.imp), true
			r.ord[reading] = n
		}
	}
	return recs
}

// beats reports whether declaration b wins over declaration a (Cascade 4 §6.1: origin and
// importance, [context, element-attached styles], specificity, order of appearance).
func beats(a, b rec, reading int) bool {
	if a.level != b.level {
		return b.level > a.level
	}
	if a.attr != b.attr {
		return b.attr
	}
	if a.spec != b.spec {
		for i := 0; i < 3; i++ {
			if a.spec[i] != b.spec[i] {
				return b.spec[i] > a.spec[i]
			}
		}
	}
	return b.ord[reading] > a.ord[reading]
}

// step names the first cascade criterion that separates two declarations.
func step(a, b rec) string {
	switch {
	case a.level != b.level:
		return "origin-importance"
	case a.attr != b.attr:
		return "style-attribute-outranks-selectors"
	case a.spec != b.spec:
		return "specificity"
	}
	return "order-of-appearance"
}

// winner returns the index of the winning declaration, -1 when none applies.
func winner(recs []rec, reading int) int {
	w := -1
	for i, r := range recs {
		if !r.applies {
			continue
		}
		if w < 0 || beats(recs[w], r, reading) {
			w = i
		}
	}
	return w
}

// ---- feature tags (computed from the input and the reference only) ---------------------------

func (d *docB) tags(recs []rec, hints bool, device string, v variant) []string {
	set := map[string]bool{
		"prop:" + d.prop.name: true, "device:" + device: true, "var:" + variantName[v]: true,
		fmt.Sprintf("n:%d", len(d.insts)): true,
	}
	if hints {
		set["hints:on"] = true
	} else {
		set["hints:off"] = true
	}
	if d.hint >= 0 {
		if d.prop.sheetHint {
			set["hint:sheet-rule"] = true
		} else {
			set["hint:computed-from-attribute"] = true
		}
	}
	for i, in := range d.insts {
		set["kind:"+in.kind] = true
		if in.rel && strings.Contains(in.path[len(in.path)-1], ",") {
			set["nested-relative-selector-list"] = true
		}
		k := kinds[in.kind]
		if k.cls == clsOwnStyle || k.cls == clsOwnLink {
			if k.media != strings.ToLower(k.media) {
				set["media-attr-uppercase"] = true
			}
		}
		if !recs[i].applies {
			set["has-non-applying"] = true
		}
	}
	for i := range recs {
		for j := i + 1; j < len(recs); j++ {
			a, b := recs[i], recs[j]
			if !a.applies || !b.applies {
				continue
			}
			set["step:"+step(a, b)] = true
			if a.level == b.level && a.attr != b.attr {
				other := a
				if a.attr {
					other = b
				}
				if other.spec[0] >= 1 {
					set["style-attr-vs-id-selector"] = true
				}
			}
		}
	}
	// a declaration of a rule followed, in the same rule, by a nested rule holding a declaration
	// of the same weight: order of appearance alone decides, and the nested one is later.
	var scan func(nd *node)
	var declsOf func(nd *node, out *[]int)
	declsOf = func(nd *node, out *[]int) {
		for _, it := range nd.items {
			switch it := it.(type) {
			case decl:
				*out = append(*out, it.idx)
			case *node:
				declsOf(it, out)
			}
		}
	}
	scan = func(nd *node) {
		var own []int
		// shape of the block: 'd' a declaration (of any property), 'n' a nested rule
		shape := ""
		for _, it := range nd.items {
			c := "d"
			switch it := it.(type) {
			case *node:
				c = "n"
			case pad:
				if it != 'F' {
					c = "n"
				}
			}
			if !strings.HasSuffix(shape, c) {
				shape += c
			}
		}
		if strings.Contains(shape, "dnd") {
			set["decls-before-and-after-nested-rule"] = true
		}
		if strings.Contains(shape, "ndn") {
			set["decl-between-nested-rules"] = true
		}
		for _, it := range nd.items {
			switch it := it.(type) {
			case decl:
				own = append(own, it.idx)
			case *node:
				var sub []int
				declsOf(it, &sub)
				for _, o := range own {
					for _, s := range sub {
						a, b := recs[o], recs[s]
						if a.applies && b.applies && a.level == b.level && a.spec == b.spec {
							set["nested-rule-vs-earlier-parent-decl"] = true
						}
					}
				}
				scan(it)
			}
		}
	}
	// a top-level rule holding, at any depth, a nested rule with an invalid selector, and an
	// applying declaration; a nested rule for an unsupported pseudo-element followed, in the same
	// top-level rule, by an applying declaration
	scanTop := func(top *node) {
		hasX, seenU, anyApplies, appliesAfterU := false, false, false, false
		var walk func(nd *node)
		walk = func(nd *node) {
			if strings.Contains(nd.sel, ":bogus") {
				hasX = true
			}
			if strings.Contains(nd.sel, "::selection") {
				seenU = true
			}
			for _, it := range nd.items {
				switch it := it.(type) {
				case decl:
					if recs[it.idx].applies {
						anyApplies = true
						if seenU {
							appliesAfterU = true
						}
					}
				case pad:
					if it == 'X' {
						hasX = true
					}
					if it == 'U' {
						seenU = true
					}
				case *node:
					walk(it)
				}
			}
		}
		walk(top)
		if hasX && anyApplies {
			set["decl-in-rule-with-invalid-nested-selector"] = true
		}
		if appliesAfterU {
			set["decl-after-nested-unsupported-pseudo-element"] = true
		}
	}
	var scanSheet func(sh *sheetB)
	hasInvalid := func(top *node) bool {
		found := false
		var walk func(nd *node)
		walk = func(nd *node) {
			if strings.Contains(nd.sel, ":bogus") {
				found = true
			}
			for _, it := range nd.items {
				switch it := it.(type) {
				case pad:
					if it == 'X' {
						found = true
					}
				case *node:
					walk(it)
				}
			}
		}
		walk(top)
		return found
	}
	// onlyDropped: the rule has no declaration of its own, all its nested rules are dropped
	// ones and at least one of them is dropped for its unsupported pseudo-element
	onlyDropped := func(top *node) bool {
		nU := 0
		for _, it := range top.items {
			switch it := it.(type) {
			case pad:
				switch it {
				case 'U':
					nU++
				case 'X':
				default:
					return false
				}
			case *node:
				switch {
				case strings.Contains(it.sel, "::selection"):
					nU++
				case strings.Contains(it.sel, ":bogus"):
				default:
					return false
				}
			default:
				return false
			}
		}
		return nU > 0
	}
	scanSheet = func(sh *sheetB) {
		for _, im := range sh.imports {
			scanSheet(im.sheet)
		}
		for i, it := range sh.items {
			switch it.(type) {
			case importB:
				// an @import preceded only by style rules that are valid (and so make the
				// @import invalid) but contribute no entry of their own: rules that hold nothing
				// but dropped nested rules
				allNothing, allOnlyDropped := i > 0, i > 0
				for _, prev := range sh.items[:i] {
					nd, ok := prev.(*node)
					if !ok || !(hasInvalid(nd) || onlyDropped(nd)) {
						allNothing = false
					}
					if !ok || !onlyDropped(nd) {
						allOnlyDropped = false
					}
				}
				switch {
				case allOnlyDropped:
					set["import-after-rule-of-only-unsupported-pseudo-element-rules"] = true
				case allNothing:
					set["import-after-rule-with-invalid-nested-selector"] = true
				}
			}
			switch it := it.(type) {
			case *node:
				scan(it)
				scanTop(it)
			case *mediaB:
				for _, r := range it.items {
					scanTop(r.(*node))
					for _, sub := range r.(*node).items {
						switch sub := sub.(type) {
						case *node:
							set["nested-rule-in-media"] = true
						case pad:
							if sub != 'F' {
								set["nested-rule-in-media"] = true
							}
						}
					}
					scan(r.(*node))
				}
			case importB:
				scanSheet(it.sheet)
			}
		}
	}
	scanSheet(d.ua)
	for _, u := range d.users {
		scanSheet(u)
	}
	for _, e := range d.elems {
		scanSheet(e.sheet)
	}
	// media-dependent constructs inside a sheet reached through @import (depth >= 1): the device
	// media type has to be handed down to the imported sheet for them to be evaluated correctly
	var scanImported func(sh *sheetB, depth int)
	scanImported = func(sh *sheetB, depth int) {
		for _, im := range sh.imports {
			if depth >= 1 && im.media != "" {
				set["import-media-inside-imported-sheet"] = true
			}
			scanImported(im.sheet, depth+1)
		}
		for _, it := range sh.items {
			switch it := it.(type) {
			case *mediaB:
				if depth >= 1 {
					set["media-block-inside-imported-sheet"] = true
				}
			case importB:
				scanImported(it.sheet, depth+1)
			}
		}
	}
	for _, e := range d.elems {
		scanImported(e.sheet, 0)
	}
	out := make([]string, 0, len(set))
	for k := range set {
		out = append(out, k)
	}
	sort.Strings(out)
	return out
}

// ---- reference self-test (specification examples) --------------------------------------------

// selfTest runs the comparator on hand-written cases taken from the specifications.
func selfTest() error {
	p := &props[0]
	type tc struct {
		name  string
		insts []inst
		v     variant
		hints bool
		want  [2]int
		dev   string // "" = print
	}
	st := func(sel string, imp bool) inst { return ruleInst("style", sel, imp) }
	cases := []tc{
		{"later rule of equal specificity wins", []inst{st("T", false), st("T", false)}, varShare, true, [2]int{1, 1}, ""},
		{"higher specificity wins whatever the order", []inst{st("#i", false), st("T.c", false)}, varShare, true, [2]int{0, 0}, ""},
		{"!important author beats normal author", []inst{st("T", true), st("#i", false)}, varShare, true, [2]int{0, 0}, ""},
		{"user !important beats author !important", []inst{ruleInst("user", "*", true), st("#i.c", true)}, varShare, true, [2]int{0, 0}, ""},
		{"author normal beats user normal", []inst{st("*", false), ruleInst("user", "#i.c", false)}, varShare, true, [2]int{0, 0}, ""},
		{"user beats user agent", []inst{ruleInst("user", "*", false), ruleInst("ua", "#i.c", false)}, varShare, true, [2]int{0, 0}, ""},
		{"style attribute beats an id selector", []inst{{kind: "attr"}, st("#i", false)}, varShare, true, [2]int{0, 0}, ""},
		{"!important rule beats a normal style attribute", []inst{{kind: "attr"}, st("*", true)}, varShare, true, [2]int{1, 1}, ""},
		{"hint loses to the universal selector", []inst{{kind: "hint"}, st("*", false)}, varShare, true, [2]int{1, 1}, ""},
		{"hint beats user and user-agent rules", []inst{{kind: "hint"}, ruleInst("user", "#i", false), ruleInst("ua", "#i", false)}, varShare, true, [2]int{0, 0}, ""},
		{"hint ignored when hints are off", []inst{{kind: "hint"}, ruleInst("ua", "*", false)}, varShare, false, [2]int{1, 1}, ""},
		{"@media screen does not apply on print", []inst{ruleInst("media-screen", "#i.c", true), st("*", false)}, varShare, true, [2]int{1, 1}, ""},
		{"imported sheet is ordered at its @import", []inst{ruleInst("import", "T", false), st("T", false)}, varShare, true, [2]int{1, 1}, ""},
		{"nested rule after a declaration wins the tie (CSS Nesting)", []inst{st("T", false), ruleInst("nest&", "T", false)}, varMerge, true, [2]int{1, 1}, ""},
		{"declaration after a nested rule: the two drafts differ", []inst{ruleInst("nest&", "T", false), st("T", false)}, varMerge, true, [2]int{1, 0}, ""},
		{"& has the specificity of :is(parent list)", []inst{ruleInst("nest&", "#z,T", false), st(".c", false)}, varShare, true, [2]int{0, 0}, ""},
		{"a list weighs as its most specific matching member, wherever it is", []inst{st("T,#i", false), st(".c", false)}, varShare, true, [2]int{0, 0}, ""},
		{"a list weighs as its most specific matching member (2)", []inst{st("*,T.c", false), st(".c", false)}, varShare, true, [2]int{0, 0}, ""},
		{"non-matching members of a list do not count", []inst{st("T,#z,.c", false), st("T.c", false)}, varShare, true, [2]int{1, 1}, ""},
		{"a declaration before a nested rule and padding stays a candidate", []inst{ruleInst("style-dNF", "T", true), st("#i", false)}, varShare, true, [2]int{0, 0}, ""},
		{"padding between the parent declaration and a later one: the two drafts agree", []inst{ruleInst("style-dN", "T", false), st("T", false)}, varMerge, true, [2]int{1, 1}, ""},
		{"nested rule inside @media print applies", []inst{ruleInst("media-nest&", "T", false), st("*", false)}, varShare, true, [2]int{0, 0}, ""},
		{"hint of the hint sheet loses to * and beats the user sheet", []inst{{kind: "hint"}, st("*", false), ruleInst("user", "#i", false)}, varShare, true, [2]int{1, 1}, ""},
		{"an invalid nested rule does not take its parent with it", []inst{ruleInst("style-dX", "T", false), ruleInst("nest-invalid", "#i", true), ruleInst("ua", "#i", false)}, varMerge, true, [2]int{0, 0}, ""},
		{"a pseudo-element nested rule does not style the element", []inst{ruleInst("nest-pseudo-el", "T", true), ruleInst("style-Ud", "*", false)}, varShare, true, [2]int{1, 1}, ""},
		{"relative nested selector adds the parent", []inst{ruleInst("nestrel", "T", false), st("T", false)}, varShare, true, [2]int{0, 0}, ""},
		// Media Queries / Cascade 4 §2 (@import conditions): the medium of the document decides everywhere, also inside imported sheets
		{"@media screen applies on screen", []inst{ruleInst("media-screen", "*", false)}, varShare, true, [2]int{0, 0}, "screen"},
		{"@media print in an imported sheet does not apply on screen", []inst{ruleInst("import-media-print", ".c", true), st("*", false)}, varShare, true, [2]int{1, 1}, "screen"},
		{"@media screen in an imported sheet applies on screen, ordered at its @import", []inst{ruleInst("import-media-screen", "*", false), st("*", false), ruleInst("import2-media-screen", "#i.c", true)}, varShare, true, [2]int{2, 2}, "screen"},
		{"@media screen in an imported sheet does not apply on print", []inst{ruleInst("import-media-screen", "#i.c", true)}, varShare, true, [2]int{-1, -1}, ""},
		{"@import print inside an imported sheet does not apply on screen", []inst{st("*", false), ruleInst("import2-print", ".c", true)}, varShare, true, [2]int{0, 0}, "screen"},
		{"@import screen holding @media print never applies", []inst{ruleInst("import-screen-media-print", "#i.c", true), ruleInst("link-import2-screen", "*", false)}, varShare, true, [2]int{1, 1}, "screen"},
		{"@import screen holding @media print never applies (print)", []inst{ruleInst("import-screen-media-print", "#i.c", true), ruleInst("link-import2-screen", "*", false)}, varShare, true, [2]int{-1, -1}, ""},
	}
	for _, c := range cases {
		d := build(p, c.insts, c.v)
		dev := c.dev
		if dev == "" {
			dev = "print"
		}
		recs := d.evaluate(c.hints, dev)
		for r := 0; r < 2; r++ {
			if got := winner(recs, r); got != c.want[r] {
				return fmt.Errorf("reference self-test %q: reading %d: winner %d, want %d", c.name, r, got, c.want[r])
			}
		}
	}
	return nil
}
