// Package c13: table cells form a consistent grid.
//
// Deviation-bounded exhaustive enumeration of small tables (rows x cells, colspan/rowspan
// symbols incl. rowspan=0, an overflowing colspan and absent cells, row groups, caption,
// col/colgroup, contents, width / table-layout / border-spacing / border-collapse values, the
// direction of the table, a percentage cell padding, sized columns that nearly fill the table,
// a table laid out at a negative y),
// each laid out by the real pipeline (render.Layout); the relational invariants of the
// property statement are evaluated on every laid-out table against a reference slot model
// (HTML "forming a table" / CSS 2.1 §17.5).
package c13

import (
	"fmt"
	"os"
	"sort"
	"strings"

	bo "github.com/benoitkugler/webrender/html/boxes"

	"verif/internal/engine"
	"verif/internal/render"
)

// ---- enumeration ---------------------------------------------------------------------------

type structure struct {
	r, c int
	span []uint8
}

// structures returns every assignment of span symbols to the r*c cells with at most k
// non-default symbols, fewest deviations first.
func structures(r, c, k int, menu []uint8) []structure {
	n := r * c
	var out []structure
	cur := make([]uint8, n)
	var rec func(pos, left int)
	for level := 0; level <= k && level <= n; level++ {
		rec = func(pos, left int) {
			if left == 0 {
				out = append(out, structure{r, c, append([]uint8(nil), cur...)})
				return
			}
			for p := pos; p <= n-left; p++ {
				for _, s := range menu {
					cur[p] = s
					rec(p+1, left-1)
				}
				cur[p] = 0
			}
		}
		rec(0, level)
	}
	return out
}

type dv struct{ dim, val uint8 }

// devSets returns every set of exactly `level` deviations over the given dimensions
// (at most one per dimension).
func devSets(dims []int, level int) [][]dv {
	var out [][]dv
	var cur []dv
	var rec func(i, left int)
	rec = func(i, left int) {
		if left == 0 {
			out = append(out, append([]dv(nil), cur...))
			return
		}
		for ; i <= len(dims)-left; i++ {
			for v := 1; v < len(dimValues[dims[i]]); v++ {
				cur = append(cur, dv{uint8(dims[i]), uint8(v)})
				rec(i+1, left-1)
				cur = cur[:len(cur)-1]
			}
		}
	}
	rec(0, level)
	return out
}

type fullDim struct {
	dim  int
	vals []uint8
}

// family = structures x full product of some dimensions x deviation sets over other dimensions.
type family struct {
	name    string
	structs []structure
	full    []fullDim
	devs    [][]dv
	nFull   int64
	n       int64
	desc    string
}

func (f *family) finish() {
	f.nFull = 1
	for _, fd := range f.full {
		f.nFull *= int64(len(fd.vals))
	}
	if len(f.devs) == 0 {
		f.devs = [][]dv{nil}
	}
	f.n = int64(len(f.structs)) * f.nFull * int64(len(f.devs))
}

// at decodes the case with the family-local index i: structure slowest, then the deviation
// set, then the fully crossed dimensions.
func (f *family) at(i int64) *doc {
	per := f.nFull * int64(len(f.devs))
	s := f.structs[i/per]
	rem := i % per
	ds := f.devs[rem/f.nFull]
	fi := rem % f.nFull
	d := &doc{r: s.r, c: s.c, span: s.span}
	for k := len(f.full) - 1; k >= 0; k-- {
		fd := f.full[k]
		d.opt[fd.dim] = fd.vals[fi%int64(len(fd.vals))]
		fi /= int64(len(fd.vals))
	}
	for _, x := range ds {
		d.opt[x.dim] = x.val
	}
	return d
}

type check struct {
	fams  []*family
	total int64
	batch int64
	order []unitRef // unit -> batch of one family
}

// unitRef is one unit: the batch number `local` of family `fam`.
type unitRef struct {
	fam   int32
	local int32
}

func gcd(a, b int64) int64 {
	for b != 0 {
		a, b = b, a%b
	}
	return a
}

// schedule orders the units so that a run cut by its deadline has explored the same fraction of
// every family, and inside a family an evenly spread subset of its batches: the families advance
// in proportion to their sizes, and the j-th unit of a family is its batch j*stride mod n, stride
// being the integer next to n/golden ratio that is coprime with n (a permutation of the batches
// whose every prefix is spread over the whole family: structures of every shape and every
// number of deviations are reached within the first few per cent of the run).
func (c *check) schedule() {
	type item struct {
		key float64
		ref unitRef
	}
	var items []item
	for fi, f := range c.fams {
		n := (f.n + c.batch - 1) / c.batch
		stride := int64(float64(n) * 0.6180339887)
		if stride < 1 {
			stride = 1
		}
		for gcd(stride, n) != 1 {
			stride++
		}
		for j := int64(0); j < n; j++ {
			items = append(items, item{(float64(j) + 0.5) / float64(n), unitRef{int32(fi), int32(j * stride % n)}})
		}
	}
	sort.SliceStable(items, func(a, b int) bool { return items[a].key < items[b].key })
	c.order = make([]unitRef, len(items))
	for i, it := range items {
		c.order[i] = it.ref
	}
}

// span returns the family and the family-local case range of unit u.
func (c *check) span(u int64) (*family, int64, int64) {
	r := c.order[u]
	f := c.fams[r.fam]
	lo, hi := int64(r.local)*c.batch, (int64(r.local)+1)*c.batch
	if hi > f.n {
		hi = f.n
	}
	return f, lo, hi
}

func init() { engine.Register(&check{}) }

func (c *check) ID() string { return "C13" }

var allSyms = []uint8{1, 2, 3, 4, 5, 6}

func shapes(maxR, maxC int) [][2]int {
	var out [][2]int
	for r := 1; r <= maxR; r++ {
		for cc := 1; cc <= maxC; cc++ {
			out = append(out, [2]int{r, cc})
		}
	}
	return out
}

func structSet(sh [][2]int, k int) []structure { return structMenu(sh, k, allSyms) }

func structMenu(sh [][2]int, k int, menu []uint8) []structure {
	var out []structure
	for _, s := range sh {
		out = append(out, structures(s[0], s[1], k, menu)...)
	}
	return out
}

// withRowSpan keeps the structures in which a cell spans rows.
func withRowSpan(in []structure) []structure {
	var out []structure
	for _, s := range in {
		for _, v := range s.span {
			if sym := spanMenu[v]; !sym.absent && sym.rs != 1 {
				out = append(out, s)
				break
			}
		}
	}
	return out
}

func levels(dims []int, from, to int) [][]dv {
	var out [][]dv
	for l := from; l <= to; l++ {
		out = append(out, devSets(dims, l)...)
	}
	return out
}

func (c *check) Init(tier string, seed int64) engine.Space {
	if err := refSelfTest(); err != nil {
		panic("c13: reference self-test failed: " + err.Error())
	}
	c.fams = nil
	c.batch = 32
	core := []fullDim{{dWidth, []uint8{0, 1, 2, 3}}, {dLayout, []uint8{0, 1}}}
	coreSp := append(append([]fullDim(nil), core...), fullDim{dSpacing, []uint8{0, 2}})
	otherDims := []int{dSpacing, dBorder, dSection, dCaption, dCols, dContent, dCellW, dContainer, dDir, dOffset}
	// single deviations also include the vertical options and the split over pages
	singleDims := append(append([]int(nil), otherDims...), dPageH, dRowH, dVAlign, dCellH)
	// ---- tables split over pages (page height of one or two lines), pages of different geometry
	allGeom := fullDim{dPageGeom, []uint8{0, 1, 2, 3}}
	widths := fullDim{dWidth, []uint8{0, 1, 2, 3}}
	layouts := fullDim{dLayout, []uint8{0, 1}}
	spacings := fullDim{dSpacing, []uint8{0, 2}}
	splitFull := []fullDim{{dPageH, []uint8{1}}, allGeom, widths, layouts, spacings}
	split25Full := []fullDim{{dPageH, []uint8{2}}, {dPageGeom, []uint8{1, 3}}, widths, layouts, spacings}
	// one more deviation on a split table: the options that change what a fragment is made of
	// (repeated header/footer groups, collapsed borders, caption, columns, lines per cell, heights)
	splitDevDims := []int{dBorder, dSection, dCaption, dCols, dContent, dCellW, dRowH, dCellH}
	splitDevFull := []fullDim{{dPageH, []uint8{1, 2}}, {dPageGeom, []uint8{1}}, {dWidth, []uint8{0, 3}}}
	spanLite := []uint8{1, 2, 4, 6} // colspan, rowspan, rowspan=0, absent
	// ---- heights: rows with a specified height x tall cells x cells spanning rows
	rowSpans := []uint8{2, 3, 4}
	// ---- split tables with row groups and cells spanning rows: the header and footer groups are
	// repeated on every page, around body rows that a page break may separate
	splitSpanFull := []fullDim{{dSection, []uint8{1, 2, 3, 4, 5}}, {dPageH, []uint8{1, 2}}, {dContent, []uint8{0, 8, 9}}, spacings, {dCellH, []uint8{0, 1}}}
	heightFull := []fullDim{{dRowH, []uint8{0, 1, 2, 3}}, {dContent, []uint8{0, 8, 9}}, spacings, {dVAlign, []uint8{0, 2}}}
	// a few hand-picked structures on which pairs of option deviations are crossed in the quick tier
	pairStructs := []structure{
		{2, 2, []uint8{0, 0, 0, 0}},
		{2, 2, []uint8{1, 0, 0, 0}},
		{2, 2, []uint8{2, 0, 0, 0}},
		{2, 2, []uint8{5, 0, 0, 0}},
		{2, 2, []uint8{0, 4, 0, 6}},
	}
	// ---- right-to-left tables: column 0 is the rightmost one; crossed with the spacing (columns in
	// which no cell originates take none) and every span symbol
	rtlFull := []fullDim{{dDir, []uint8{1}}, widths, layouts, spacings}
	// ---- fixed layout, two sized columns (48% each) that nearly fill the specified width: what is
	// left for the unsized columns is less than the spacing between the columns
	fillFull := []fullDim{{dCols, []uint8{6}}, {dLayout, []uint8{1}}, {dWidth, []uint8{1, 2, 3}}, {dSpacing, []uint8{0, 1, 2}}, {dDir, []uint8{0, 1}}}
	tieDims := []fullDim{{dWidth, []uint8{0, 1, 2, 3}}, {dSpacing, []uint8{0, 1}}, {dContent, []uint8{0, 1, 2, 3, 4, 5, 6, 7}}, {dCellW, []uint8{0, 1, 2, 3, 4}}}
	if tier == "thorough" {
		sh33 := shapes(3, 3)
		sh4 := [][2]int{{4, 1}, {4, 2}, {4, 3}}
		small := [][2]int{{1, 1}, {1, 2}, {2, 1}, {1, 3}, {3, 1}, {2, 2}}
		mid := [][2]int{{1, 2}, {2, 1}, {1, 3}, {3, 1}, {2, 2}, {2, 3}, {3, 2}}
		tieT := append(append([]fullDim(nil), tieDims...), fullDim{dLayout, []uint8{0, 1}})
		tieT[1] = fullDim{dSpacing, []uint8{0, 1, 2}}
		c.fams = []*family{
			{name: "tables <=3x3, <=3 span symbols x width x layout x spacing{0,2px 4px}", structs: structSet(sh33, 3), full: coreSp},
			{name: "4-row tables, <=2 span symbols x width x layout x spacing{0,2px 4px}", structs: structSet(sh4, 2), full: coreSp},
			{name: "all shapes, <=1 span symbol x width x layout x 1 option deviation", structs: structSet(append(sh33, sh4...), 1), full: core, devs: levels(singleDims, 1, 1)},
			{name: "tables of <=4 cells, <=1 span symbol x width x layout x 2 option deviations", structs: structSet(small, 1), full: core, devs: levels(otherDims, 2, 2)},
			{name: "two column-spanning cells (2x2, 2x3, 3x2) x width x layout x spacing x content x cell width (ties between width guesses)", structs: twoColspans([][2]int{{2, 2}, {2, 3}, {3, 2}}, false), full: tieT},
			{name: "tables of <=6 cells, exactly 2 span symbols x width x layout x 1 deviation of content / cell width", structs: onlyLevel(structSet(mid, 2), 2), full: core, devs: levels([]int{dContent, dCellW}, 1, 1)},
			{name: "split over pages of one line: tables of <=6 cells with <=2 span symbols, 3x3, 4x1, 4x2 with <=1, x page geometry x width x layout x spacing{0,2px 4px}", structs: append(structSet(mid, 2), structSet([][2]int{{3, 3}, {4, 1}, {4, 2}}, 1)...), full: splitFull},
			{name: "split over pages of two lines: 3x1, 3x2, 4x1 with <=2 span symbols, 3x3, 4x2 with <=1, x page geometry x width x layout x spacing{0,2px 4px}", structs: append(structSet([][2]int{{3, 1}, {3, 2}, {4, 1}}, 2), structSet([][2]int{{3, 3}, {4, 2}}, 1)...),
				full: []fullDim{{dPageH, []uint8{2}}, allGeom, widths, layouts, spacings}},
			{name: "split over pages of one or two lines: 2x2, 2x3, 3x1, 3x2, 4x1 with <=1 span symbol x page geometry{first margin, first wider} x width{auto,100%} x layout x 1 option deviation", structs: structSet([][2]int{{2, 2}, {2, 3}, {3, 1}, {3, 2}, {4, 1}}, 1),
				full: []fullDim{{dPageH, []uint8{1, 2}}, {dPageGeom, []uint8{1, 3}}, {dWidth, []uint8{0, 3}}, layouts}, devs: levels(append([]int{dSpacing, dVAlign}, splitDevDims...), 1, 1)},
			{name: "split over pages of one or two lines, first page with a margin: 8 structures x width{auto,100%} x 2 option deviations", structs: append(append([]structure(nil), pairStructs...), structure{3, 1, []uint8{0, 2, 0}}, structure{3, 2, []uint8{2, 0, 0, 0, 0, 0}}, structure{3, 2, []uint8{0, 0, 0, 2, 0, 0}}),
				full: splitDevFull, devs: levels(append([]int{dSpacing}, splitDevDims...), 2, 2)},
			{name: "heights: tables of >=2 rows with a cell spanning rows (<=6 cells, 4x1, 4x2 with <=2 row-spanning symbols, 3x3 with 1) x row height x tall content x spacing{0,2px 4px} x vertical-align", structs: withRowSpan(append(structMenu([][2]int{{2, 1}, {2, 2}, {3, 1}, {2, 3}, {3, 2}, {4, 1}, {4, 2}}, 2, rowSpans), structMenu([][2]int{{3, 3}}, 1, rowSpans)...)),
				full: []fullDim{{dRowH, []uint8{0, 1, 2, 3, 4}}, {dContent, []uint8{0, 8, 9}}, spacings, {dVAlign, []uint8{0, 1, 2, 3}}}},
			{name: "heights: tables with one cell spanning rows x cell height x vertical-align x tall content x row height{auto,all 15px}", structs: withRowSpan(structMenu([][2]int{{2, 1}, {2, 2}, {3, 1}, {2, 3}, {3, 2}, {4, 1}, {4, 2}}, 1, rowSpans)),
				full: []fullDim{{dCellH, []uint8{1, 2}}, {dVAlign, []uint8{0, 1, 2, 3}}, {dContent, []uint8{0, 8, 9}}, {dRowH, []uint8{0, 3}}}},
			{name: "heights: 2x2, 2x3, 3x1, 3x2 with <=2 span symbols of any kind, one spanning rows x row height{auto,last 5px,all 15px} x content{rot0,tall multi-row} x spacing{0,2px 4px}", structs: withRowSpan(structSet([][2]int{{2, 2}, {2, 3}, {3, 1}, {3, 2}}, 2)),
				full: []fullDim{{dRowH, []uint8{0, 1, 3}}, {dContent, []uint8{0, 8}}, spacings}},
			{name: "split over pages of one or two lines, row groups: 3x1, 3x2, 4x1 with <=2 row-spanning symbols, 4x2 with 1, x section x content{rot0,tall} x spacing{0,2px 4px} x cell height{auto,first 30px}", structs: withRowSpan(append(structMenu([][2]int{{3, 1}, {3, 2}, {4, 1}}, 2, rowSpans), structMenu([][2]int{{4, 2}}, 1, rowSpans)...)), full: splitSpanFull},
			{name: "right-to-left: tables <=3x3 with <=2 span symbols, 4-row tables with <=1, x width x layout x spacing{0,2px 4px}", structs: append(structSet(sh33, 2), structSet(sh4, 1)...), full: rtlFull},
			{name: "fixed layout, two columns of 48% and unsized ones: tables <=3x3 with <=2 span symbols x width{50px,150px,100%} x spacing x direction", structs: structSet(sh33, 2), full: fillFull},
		}
	} else {
		upto6 := [][2]int{{1, 1}, {1, 2}, {2, 1}, {1, 3}, {3, 1}, {2, 2}, {2, 3}, {3, 2}}
		c.fams = []*family{
			{name: "tables of <=6 cells with <=2 span symbols, 3x3 with <=1, x width x layout x spacing{0,2px 4px}", structs: append(structSet(upto6, 2), structSet([][2]int{{3, 3}}, 1)...), full: coreSp},
			{name: "tables of <=6 cells, <=1 span symbol x width x layout x 1 option deviation", structs: structSet(upto6, 1), full: core, devs: levels(singleDims, 1, 1)},
			{name: "3 structures x width x layout x 2 option deviations", structs: pairStructs[:3], full: core, devs: levels(otherDims, 2, 2)},
			{name: "two column-spanning cells in different rows (2x2, 3x2) x width x spacing{0,2px} x content x cell width (ties between width guesses)", structs: twoColspans([][2]int{{2, 2}, {3, 2}}, true), full: tieDims},
			{name: "split over pages of one line: tables of <=6 cells in <=3 rows, <=1 span symbol x page geometry x width x layout x spacing{0,2px 4px}", structs: structSet([][2]int{{1, 2}, {2, 1}, {2, 2}, {3, 1}, {3, 2}}, 1), full: splitFull},
			{name: "split over pages of two lines: 3-row tables, <=1 span symbol x page geometry{first margin, first wider} x width x layout x spacing{0,2px 4px}", structs: structSet([][2]int{{3, 1}, {3, 2}}, 1), full: split25Full},
			{name: "split over pages of one or two lines, first page with a margin: 2x2, 3x1, 3x2 with <=1 span symbol of {colspan, rowspan, rowspan=0, absent} x width{auto,100%} x 1 option deviation", structs: structMenu([][2]int{{2, 2}, {3, 1}, {3, 2}}, 1, spanLite), full: splitDevFull, devs: levels(splitDevDims, 1, 1)},
			{name: "heights: tables with a cell spanning rows (2x1, 2x2, 3x1 with <=2 row-spanning symbols, 3x2, 4x1, 4x2 with 1) x row height x tall content x spacing{0,2px 4px} x vertical-align{baseline,middle}", structs: withRowSpan(append(structMenu([][2]int{{2, 1}, {2, 2}, {3, 1}}, 2, rowSpans), structMenu([][2]int{{3, 2}, {4, 1}, {4, 2}}, 1, rowSpans)...)), full: heightFull},
			{name: "split over pages of one or two lines, row groups: 3x1, 3x2 with one cell spanning rows (rowspan 2 or 0) x section x content{rot0,tall} x spacing{0,2px 4px} x cell height{auto,first 30px}", structs: withRowSpan(structMenu([][2]int{{3, 1}, {3, 2}}, 1, []uint8{2, 4})), full: splitSpanFull},
			{name: "right-to-left: tables of <=6 cells with <=1 span symbol x width x layout x spacing{0,2px 4px}", structs: structSet(upto6, 1), full: rtlFull},
			{name: "fixed layout, two columns of 48% and unsized ones: 1x3, 2x2, 2x3 with <=1 span symbol x width{50px,150px,100%} x spacing x direction", structs: structSet([][2]int{{1, 3}, {2, 2}, {2, 3}}, 1), full: fillFull},
		}
	}
	if only := os.Getenv("C13_ONLY"); only != "" { // development aid: explore some families only
		var keep []*family
		for i, f := range c.fams {
			if strings.Contains(","+only+",", fmt.Sprintf(",%d,", i)) {
				keep = append(keep, f)
			}
		}
		c.fams = keep
	}
	if names := os.Getenv("C13_DEVS"); names != "" { // development aid: keep only the deviation sets that touch one of the named dimensions ("content+" = the tall contents)
		for _, f := range c.fams {
			var keep [][]dv
			for _, set := range f.devs {
				for _, x := range set {
					n := dimNames[x.dim]
					if strings.Contains(","+names+",", ","+n+",") || (n == "content" && x.val >= 8 && strings.Contains(","+names+",", ",content+,")) {
						keep = append(keep, set)
						break
					}
				}
			}
			if len(f.devs) > 0 {
				f.devs = keep
				if len(keep) == 0 {
					f.structs = nil
				}
			}
		}
	}
	c.total = 0
	var fb []map[string]any
	for _, f := range c.fams {
		f.finish()
		c.total += f.n
		fb = append(fb, map[string]any{"family": f.name, "structures": len(f.structs), "crossed": f.nFull, "deviation_sets": len(f.devs), "cases": f.n})
	}
	c.schedule()
	units := int64(len(c.order))
	dims := map[string]any{}
	for i, n := range dimNames {
		dims[n] = dimValues[i]
	}
	return engine.Space{
		Units: units, Chunk: 4, Level: "model_checking", CaseCPUs: 10,
		Rule: "deviation-bounded product enumeration: every table of the listed families (structure = rows x cells with at most k non-default span symbols; options = full product of the crossed dimensions times every set of option deviations of the stated size), index-addressable; the units (batches of one family) are scheduled so that all families advance together and every prefix of a family is spread evenly over it; each table is laid out by the real pipeline and every clause of the statement evaluated on it, on every page that holds a fragment of the table when it is split over pages. A case is non-trivial when at least two cells were laid out on one page (so that the relational clauses compare something)",
		Bounds: map[string]any{
			"span_symbols(colspan,rowspan)": []string{"1,1", "2,1", "1,2", "2,2", "1,0", "5,1", "absent"},
			"option_dimensions":             dims, "families": fb, "cases_total": c.total, "cases_per_unit": c.batch,
			"page": "container width x page height (1000px: one page; 15px / 25px: the table is split), font 10px/1 Ahem",
		},
		Assumptions: []string{
			"no nested tables; a right-to-left table (direction:rtl on the table) is checked as the mirror image of the left-to-right one: column 0 is the rightmost column",
			"a table laid out at a negative y (margin-top:-100px, one page): clause position-independent compares its used widths and heights (table, columns, rows) with those of the same table laid out at y=0 (the statement's row height 'after rowspan resolution' is a function of the table alone); not crossed with the split over pages, where the room left on the page legitimately differs",
			"tables split over pages (page height 15px / 25px): every fragment is checked as a laid-out table, its rows identified by the id of their <tr>; a header or footer group, a row or the caption that the pagination drops is not a matter of this property; the bottom edge of a cell whose spanned rows continue on the next page is not checked (the statement does not say how such a cell is fragmented; counted as spans-cut-by-a-page-break), it must still not overlap the cells of disjoint slots",
			"page geometry: the first page is a right page; the containing block of the table on page p is computed from the @page rules (only its width matters: width:100%)",
			"cell text is Ahem 10px, so min-content widths are exact multiples of 10px",
			"slot assignment reference is HTML's 'forming a table' algorithm (only the first slot of a cell is tested for occupancy); tables in which it puts two cells on one slot are explored and tagged slot-collision, the overlap clause only looks at cells on disjoint slots (the collision itself is property C09)",
			"columns/rows in which no cell originates may or may not receive border-spacing (CSS 2.1 vs CSS Tables 3 track merging): both are accepted by the adjacency clauses; the fill clause is stated on the outermost column edges (CSS 2.1 §17.6.1)",
			"cells beyond the column count of a fixed-layout table may be dropped (CSS 2.1 §17.5.2.1)",
		},
	}
}

// twoColspans: every structure of the shapes with exactly two non-default cells, both
// column-spanning ((2,1) or (5,1)); diffRows keeps only pairs in different rows.
func twoColspans(sh [][2]int, diffRows bool) []structure {
	var out []structure
	for _, s := range sh {
		for _, st := range structures(s[0], s[1], 2, []uint8{1, 5}) {
			var pos []int
			for i, v := range st.span {
				if v != 0 {
					pos = append(pos, i)
				}
			}
			if len(pos) != 2 || (diffRows && pos[0]/s[1] == pos[1]/s[1]) {
				continue
			}
			out = append(out, st)
		}
	}
	return out
}

func onlyLevel(s []structure, k int) []structure {
	var out []structure
	for _, x := range s {
		n := 0
		for _, v := range x.span {
			if v != 0 {
				n++
			}
		}
		if n == k {
			out = append(out, x)
		}
	}
	return out
}

func (c *check) caseAt(i int64) (*family, *doc) {
	for _, f := range c.fams {
		if i < f.n {
			return f, f.at(i)
		}
		i -= f.n
	}
	return nil, nil
}

func (c *check) Run(u int64, ctx *engine.Ctx) {
	f, lo, hi := c.span(u)
	for i := lo; i < hi; i++ {
		c.runCase(f.at(i), ctx)
	}
}

func (c *check) runCase(d *doc, ctx *engine.Ctx) {
	g := d.grid()
	feats := d.features(g)
	html := d.html()
	desc := d.code() + " | " + html[strings.Index(html, "</style>")+8:]
	ctx.Trans(int64(d.deviations()))
	var out outcome
	failed := map[string]bool{}
	rp := reporter{
		fail: func(clause, detail string) {
			if failed[clause] {
				return
			}
			failed[clause] = true
			dump(clause, feats, d.code(), detail)
			ctx.Fail(engine.Failure{Clause: clause, Features: feats, Case: desc, Detail: detail})
		},
		count: func(name string, n int64) { ctx.Count(name, n) },
	}
	noTable := false
	ok := ctx.GuardFail(desc, feats, func() {
		bound := 8
		if d.paginated() {
			bound = 40 // one line per page: at most rows x lines pages, plus pages the caption takes
		}
		pages, err := render.Layout(render.Options{HTML: html, Engine: "pango", PageBound: bound})
		if err != nil || len(pages) == 0 {
			noTable = true
			return
		}
		if !d.paginated() {
			t := findTable(pages[0])
			if t == nil {
				noTable = true
				return
			}
			out = verify(d, g, t, 0, nil, rp)
			if d.opt[dOffset] != 0 {
				// the same table laid out at y=0: same used widths and heights
				base := *d
				base.opt[dOffset] = 0
				rp.count("tables-compared-with-their-layout-at-y=0", 1)
				bp, err := render.Layout(render.Options{HTML: base.html(), Engine: "pango", PageBound: bound})
				var bt *bo.TableBox
				if err == nil && len(bp) > 0 {
					bt = findTable(bp[0])
				}
				if bt == nil {
					rp.fail("position-independent", "the same table without the negative margin gives no table box")
					return
				}
				silent := reporter{fail: func(string, string) {}, count: func(string, int64) {}}
				if ref := verify(&base, g, bt, 0, nil, silent); ref.key != out.key {
					rp.fail("position-independent", fmt.Sprintf("laid out at y=%g: %s; the same table laid out at y=%g: %s (W H = used width and height of the table, C = column widths, R = row heights)", float64(t.PositionY), out.key, float64(bt.PositionY), ref.key))
				}
			}
			return
		}
		// the table is split: every fragment is a laid-out table
		var key strings.Builder
		frags := 0
		tables := make([]*bo.TableBox, len(pages)+1)
		for p, pg := range pages {
			tables[p] = findTable(pg)
		}
		repeated := map[int]bool{}
		for _, r := range g.rows {
			repeated[r.src] = r.repeated
		}
		for p := range pages {
			t := tables[p]
			if t == nil {
				continue
			}
			frags++
			// rows of a body group that the next page continues: split by the page break
			cont := map[int]bool{}
			if next := tables[p+1]; next != nil {
				for _, a := range fragmentRows(t) {
					for _, b := range fragmentRows(next) {
						if a == b && a >= 0 && !repeated[a] {
							cont[a] = true
							rp.count("rows-split-by-a-page-break", 1)
						}
					}
				}
			}
			o := verify(d, g, t, p, cont, rp)
			fmt.Fprintf(&key, "p%d %s | ", p, o.key)
			out.nontrivial = out.nontrivial || o.nontrivial
		}
		out.key = key.String()
		rp.count("pages-of-split-tables", int64(len(pages)))
		if frags >= 2 {
			rp.count("tables-split-over-pages", 1)
		}
		if frags == 0 {
			noTable = true
		}
	})
	switch {
	case !ok:
		ctx.Case(true, "panic")
	case noTable:
		ctx.Fail(engine.Failure{Clause: "structure", Features: feats, Case: desc, Detail: "no table box on the first page (on any page, when the table is split)"})
		ctx.Case(false, "no-table")
	default:
		ctx.Case(out.nontrivial, out.key)
	}
}

// FeaturesOf recomputes the feature tags of a case from its description (used by the master
// for cases that killed their worker).
func (c *check) FeaturesOf(desc string) []string {
	code := desc
	if i := strings.Index(desc, " | "); i >= 0 {
		code = desc[:i]
	}
	d, ok := parseCode(code)
	if !ok {
		return nil
	}
	return d.features(d.grid())
}

func (c *check) Describe(u int64) any {
	if u < 0 || u >= int64(len(c.order)) {
		return nil
	}
	f, lo, hi := c.span(u)
	d0, d1 := f.at(lo), f.at(hi-1)
	h := d0.html()
	return map[string]any{"family": f.name, "cases": hi - lo, "first_code": d0.code(), "first": h[strings.Index(h, "</style>")+8:], "last_code": d1.code(),
		"code_format": fmt.Sprintf("RxC:span symbol per cell:%s", strings.Join(dimNames[:], ","))}
}
