package c13

import (
	"fmt"
	"strconv"
	"strings"
)

// ---- the document model ------------------------------------------------------------------

// span symbols of one cell: (colspan, rowspan) or "absent" (no <td> emitted: ragged and empty rows).
type spanSym struct {
	cs, rs int
	absent bool
}

var spanMenu = []spanSym{
	{1, 1, false}, // default
	{2, 1, false},
	{1, 2, false},
	{2, 2, false},
	{1, 0, false}, // rowspan=0: to the end of the row group
	{5, 1, false}, // overflowing colspan
	{0, 0, true},  // absent
}

// option dimensions; value 0 is the default of every dimension.
const (
	dWidth = iota
	dLayout
	dSpacing
	dBorder
	dSection
	dCaption
	dCols
	dContent
	dCellW
	dContainer
	dPageH
	dPageGeom
	dRowH
	dVAlign
	dCellH
	dDir
	dOffset
	nDims
)

var dimNames = [nDims]string{"width", "layout", "spacing", "border", "section", "caption", "cols", "content", "cellw", "container", "pageh", "pagegeom", "rowh", "valign", "cellh", "dir", "offset"}

var dimValues = [nDims][]string{
	dWidth:     {"auto", "50px", "150px", "100%"},
	dLayout:    {"auto", "fixed"},
	dSpacing:   {"0", "2px", "2px 4px"},
	dBorder:    {"separate-b0", "separate-b1", "collapse-b0", "collapse-b1", "collapse-b1-first3", "separate-pad", "separate-first-cell-pad-left-30%"},
	dSection:   {"plain", "thead", "tfoot", "tfoot-first", "thead+tfoot", "two-tbody"},
	dCaption:   {"none", "top", "bottom"},
	dCols:      {"none", "col-w30", "col-span2-w20", "colgroup-span2-w40", "colgroup-col-col50%", "five-cols", "col-col-w48%"},
	dContent:   {"rot0", "rot1", "rot2", "rot3", "all-empty", "all-long", "empty-short-short-empty-letter", "alt-short-empty", "tall-multirow", "tall-even"},
	dCellW:     {"auto", "first-30px", "first-50%", "last-30px", "last-50%"},
	dContainer: {"200", "100"},
	// page height: 1000px keeps the table on one page; 15px holds one text line (every table of
	// two rows is split, and so is every cell of two lines), 25px two lines
	dPageH: {"1000px", "15px", "25px"},
	// horizontal geometry of the pages (only observable when the table is split): the first page
	// has a left margin; left and right pages have mirrored margins; the first page is wider
	dPageGeom: {"same", "first-margin-left-20", "mirrored-margins-30-10", "first-page-wider-100"},
	// specified height on <tr>
	dRowH: {"auto", "last-5px", "last-25px", "all-15px", "first-25px"},
	// vertical-align of every cell
	dVAlign: {"baseline", "top", "middle", "bottom"},
	// specified height on one <td>
	dCellH: {"auto", "first-30px", "last-30px"},
	// direction of the table: in a right-to-left table column 0 is the rightmost one
	dDir: {"ltr", "rtl"},
	// where the table is laid out: a negative top margin puts it above the top of the page (at a
	// negative y); the geometry of a table must not depend on where it is
	dOffset: {"none", "margin-top:-100px"},
}

type doc struct {
	r, c int
	span []uint8 // row-major, index into spanMenu
	opt  [nDims]uint8
}

// code is the compact, parseable identification of a case.
func (d *doc) code() string {
	var sb strings.Builder
	fmt.Fprintf(&sb, "%dx%d:", d.r, d.c)
	for _, s := range d.span {
		sb.WriteByte('0' + s)
	}
	sb.WriteByte(':')
	for _, o := range d.opt {
		sb.WriteByte('0' + o)
	}
	return sb.String()
}

func parseCode(code string) (*doc, bool) {
	p := strings.Split(code, ":")
	if len(p) != 3 {
		return nil, false
	}
	rc := strings.Split(p[0], "x")
	if len(rc) != 2 {
		return nil, false
	}
	r, e1 := strconv.Atoi(rc[0])
	c, e2 := strconv.Atoi(rc[1])
	// codes written before a dimension was added are shorter: the missing options are the defaults
	if e1 != nil || e2 != nil || r < 1 || c < 1 || len(p[1]) != r*c || len(p[2]) > nDims {
		return nil, false
	}
	d := &doc{r: r, c: c, span: make([]uint8, r*c)}
	for i := range d.span {
		v := p[1][i] - '0'
		if int(v) >= len(spanMenu) {
			return nil, false
		}
		d.span[i] = v
	}
	for i := range p[2] {
		v := p[2][i] - '0'
		if int(v) >= len(dimValues[i]) {
			return nil, false
		}
		d.opt[i] = v
	}
	return d, true
}

// deviations = number of non-default choices (edges of the deviation lattice ending here).
func (d *doc) deviations() int {
	n := 0
	for _, s := range d.span {
		if s != 0 {
			n++
		}
	}
	for _, o := range d.opt {
		if o != 0 {
			n++
		}
	}
	return n
}

// ---- derived input facts -------------------------------------------------------------------

func (d *doc) collapse() bool    { b := d.opt[dBorder]; return b >= 2 && b <= 4 }
func (d *doc) rtl() bool         { return d.opt[dDir] == 1 }
func (d *doc) pageW() float64    { return [...]float64{200, 100}[d.opt[dContainer]] }
func (d *doc) paginated() bool   { return d.opt[dPageH] != 0 }
func (d *doc) pageGeom() uint8   { return d.opt[dPageGeom] }
func (d *doc) pageHeight() int   { return [...]int{1000, 15, 25}[d.opt[dPageH]] }
func (d *doc) geomMatters() bool { return d.paginated() && d.opt[dPageGeom] != 0 }

// containerW is the width of the page area of page p (0-based): the containing block of the
// table, computed from the @page rules of the input.
func (d *doc) containerW(p int) float64 {
	w := d.pageW()
	switch d.opt[dPageGeom] {
	case 1:
		if p == 0 {
			return w - 20
		}
	case 2:
		return w - 40
	case 3:
		if p == 0 {
			return w + 100
		}
	}
	return w
}

// pageRules gives the @page rules of the document.
func (d *doc) pageRules() string {
	s := fmt.Sprintf("@page{size:%gpx %dpx;margin:0}", d.pageW(), d.pageHeight())
	switch d.opt[dPageGeom] {
	case 1:
		s += " @page :first{margin-left:20px}"
	case 2:
		s += " @page :right{margin-left:30px;margin-right:10px} @page :left{margin-left:10px;margin-right:30px}"
	case 3:
		s += fmt.Sprintf(" @page :first{size:%gpx %dpx}", d.pageW()+100, d.pageHeight())
	}
	return s
}

// spacing returns the effective (horizontal, vertical) border spacing.
func (d *doc) spacing() (hs, vs float64) {
	if d.collapse() {
		return 0, 0
	}
	switch d.opt[dSpacing] {
	case 1:
		return 2, 2
	case 2:
		return 2, 4
	}
	return 0, 0
}

// specifiedWidth returns the width the author asked for (px) on page p, 0 when auto.
func (d *doc) specifiedWidth(p int) float64 {
	switch d.opt[dWidth] {
	case 1:
		return 50
	case 2:
		return 150
	case 3:
		return d.containerW(p)
	}
	return 0
}

// fixedEffective: the fixed algorithm applies only when the width is not auto (CSS 2.1 §17.5.2).
func (d *doc) fixedEffective() bool { return d.opt[dLayout] == 1 && d.opt[dWidth] != 0 }

// tall: the content of cell k is a column of lines separated by <br> (its height does not depend
// on the width it gets).
func (d *doc) tall(k int) int {
	switch d.opt[dContent] {
	case 8: // the cells that span rows are 4 lines high: higher than two or three rows of one line
		if sym := spanMenu[d.span[k]]; !sym.absent && sym.rs != 1 {
			return 4
		}
	case 9: // every other cell is 3 lines high
		if k%2 == 0 {
			return 3
		}
	}
	return 0
}

// content of cell k (source order index among all r*c positions): words.
func (d *doc) words(k int) []string {
	l := string(rune('a' + k%26))
	short, long, two := []string{l + l}, []string{strings.Repeat(l, 6)}, []string{l + l, l + l + l}
	var rot = [][]string{short, two, nil, long}
	if n := d.tall(k); n > 0 {
		out := make([]string, n)
		for i := range out {
			out[i] = l + l
		}
		return out
	}
	switch c := int(d.opt[dContent]); c {
	case 8:
		return rot[k%4]
	case 9:
		return short
	case 4:
		return nil
	case 5:
		return long
	case 6: // empty, short, short, empty, one letter, ... (forces ties between the width guesses)
		switch k % 5 {
		case 0, 3:
			return nil
		case 4:
			return []string{l}
		}
		return short
	case 7: // short, empty, empty, short, ...
		if k%4 == 0 || k%4 == 3 {
			return short
		}
		return nil
	default:
		return rot[(k+c)%4]
	}
}

func longestWord(w []string) int {
	m := 0
	for _, s := range w {
		if len(s) > m {
			m = len(s)
		}
	}
	return m
}

// ---- reference grid (HTML "forming a table" / CSS 2.1 §17.5) -----------------------------

type refCell struct {
	k        int // source position (row*c + col)
	srcRow   int
	cs, rs   int // colspan as specified (>=1); rowspan resolved and clipped to the row group
	gx, gy   int // slot of origin; gy counts rows in LAID-OUT order (header, bodies, footer)
	words    []string
	collides bool // shares a slot with another cell (table model error, property C09)
	dropped  bool // beyond the columns of a fixed-layout table (CSS 2.1 §17.5.2.1: may not be rendered)
	ecs      int  // colspan clipped to the columns of a fixed-layout table
}

type refRow struct {
	src      int
	cells    []*refCell
	repeated bool // row of the header or footer group, which every page of a split table repeats
}

type refGroup struct {
	kind string // thead|tbody|tfoot|implicit
	rows []*refRow
}

type refGrid struct {
	groups    []*refGroup // laid-out order
	rows      []*refRow   // laid-out order
	cells     []*refCell
	width     int    // number of columns the cells need (max gx+cs)
	ncols     int    // expected number of columns (fixed layout: max(col elements, first row))
	origin    []bool // column (< ncols) has an originating, rendered cell
	collision bool
	emptyRow  bool // a row without any originating cell
}

// sourceGroups gives the row groups in SOURCE order with the source row indices they contain.
func (d *doc) sourceGroups() []*refGroup {
	mk := func(kind string, lo, hi int) *refGroup {
		g := &refGroup{kind: kind}
		for i := lo; i < hi; i++ {
			g.rows = append(g.rows, &refRow{src: i})
		}
		return g
	}
	r := d.r
	switch d.opt[dSection] {
	case 1: // thead
		if r == 1 {
			return []*refGroup{mk("thead", 0, 1)}
		}
		return []*refGroup{mk("thead", 0, 1), mk("tbody", 1, r)}
	case 2: // tfoot after the body
		if r == 1 {
			return []*refGroup{mk("tfoot", 0, 1)}
		}
		return []*refGroup{mk("tbody", 0, r-1), mk("tfoot", r-1, r)}
	case 3: // tfoot written first in the source
		if r == 1 {
			return []*refGroup{mk("tfoot", 0, 1)}
		}
		return []*refGroup{mk("tfoot", 0, 1), mk("tbody", 1, r)}
	case 4: // both
		switch {
		case r == 1:
			return []*refGroup{mk("thead", 0, 1)}
		case r == 2:
			return []*refGroup{mk("thead", 0, 1), mk("tfoot", 1, 2)}
		}
		return []*refGroup{mk("thead", 0, 1), mk("tbody", 1, r-1), mk("tfoot", r-1, r)}
	case 5: // two bodies
		if r == 1 {
			return []*refGroup{mk("tbody", 0, 1)}
		}
		return []*refGroup{mk("tbody", 0, 1), mk("tbody", 1, r)}
	}
	return []*refGroup{mk("implicit", 0, r)}
}

// grid computes the reference slot assignment.
func (d *doc) grid() *refGrid {
	src := d.sourceGroups()
	g := &refGrid{}
	// CSS 2.1 §17.2: the first header group goes first, the first footer group last.
	var header, footer *refGroup
	var bodies []*refGroup
	for _, gr := range src {
		switch {
		case gr.kind == "thead" && header == nil:
			header = gr
		case gr.kind == "tfoot" && footer == nil:
			footer = gr
		default:
			bodies = append(bodies, gr)
		}
	}
	for _, gr := range []*refGroup{header, footer} {
		if gr != nil {
			for _, r := range gr.rows {
				r.repeated = true
			}
		}
	}
	if header != nil {
		g.groups = append(g.groups, header)
	}
	g.groups = append(g.groups, bodies...)
	if footer != nil {
		g.groups = append(g.groups, footer)
	}
	gy0 := 0
	for _, gr := range g.groups {
		n := len(gr.rows)
		start := len(g.cells)
		occ := make([]map[int]int, n) // per row of the group: slot x -> number of cells on it
		for i := range occ {
			occ[i] = map[int]int{}
		}
		for y, row := range gr.rows {
			x := 0
			for col := 0; col < d.c; col++ {
				k := row.src*d.c + col
				sym := spanMenu[d.span[k]]
				if sym.absent {
					continue
				}
				// HTML: advance while the slot (x, y) already has a cell assigned
				for occ[y][x] > 0 {
					x++
				}
				rs := sym.rs
				if rs == 0 || rs > n-y {
					rs = n - y
				}
				cell := &refCell{k: k, srcRow: row.src, cs: sym.cs, rs: rs, gx: x, gy: gy0 + y, words: d.words(k)}
				for yy := y; yy < y+rs; yy++ {
					for xx := x; xx < x+sym.cs; xx++ {
						occ[yy][xx]++
					}
				}
				row.cells = append(row.cells, cell)
				g.cells = append(g.cells, cell)
				x += sym.cs
				if x > g.width {
					g.width = x
				}
			}
			if len(row.cells) == 0 {
				g.emptyRow = true
			}
			g.rows = append(g.rows, row)
		}
		// collisions (two cells on one slot: a table model error, the subject of C09)
		for _, c := range g.cells[start:] {
			for yy := c.gy - gy0; yy < c.gy-gy0+c.rs; yy++ {
				for xx := c.gx; xx < c.gx+c.cs; xx++ {
					if occ[yy][xx] > 1 {
						c.collides = true
						g.collision = true
					}
				}
			}
		}
		gy0 += n
	}
	g.ncols = g.width
	if d.fixedEffective() {
		// CSS 2.1 §17.5.2.1: the number of columns is the greater of the number of column
		// elements and the number of columns of the first row
		g.ncols = [...]int{0, 1, 2, 2, 2, 5, 2}[d.opt[dCols]]
		if len(g.rows) > 0 {
			n := 0
			for _, c := range g.rows[0].cells {
				n += c.cs
			}
			if n > g.ncols {
				g.ncols = n
			}
		}
	}
	g.origin = make([]bool, g.ncols)
	for _, c := range g.cells {
		c.ecs = c.cs
		if c.gx >= g.ncols {
			c.dropped = true
			continue
		}
		if c.gx+c.ecs > g.ncols {
			c.ecs = g.ncols - c.gx
		}
		g.origin[c.gx] = true
	}
	return g
}

// ---- HTML ------------------------------------------------------------------------------------

func (d *doc) cellWidthStyle(k, first, last int) string {
	w := ""
	switch d.opt[dCellW] {
	case 1:
		if k == first {
			w = "width:30px"
		}
	case 2:
		if k == first {
			w = "width:50%"
		}
	case 3:
		if k == last {
			w = "width:30px"
		}
	case 4:
		if k == last {
			w = "width:50%"
		}
	}
	if h := d.opt[dCellH]; (h == 1 && k == first) || (h == 2 && k == last) {
		if w != "" {
			w += ";"
		}
		w += "height:30px"
	}
	return w
}

// rowHeight is the height specified on source row i (px), 0 when auto.
func (d *doc) rowHeight(i int) float64 {
	switch d.opt[dRowH] {
	case 1:
		if i == d.r-1 {
			return 5
		}
	case 2:
		if i == d.r-1 {
			return 25
		}
	case 3:
		return 15
	case 4:
		if i == 0 {
			return 25
		}
	}
	return 0
}

func (d *doc) html() string {
	var sb strings.Builder
	sb.WriteString(`<style>` + d.pageRules() + ` html,body{margin:0;font-family:ahem;font-size:10px;line-height:1} `)
	switch d.opt[dBorder] {
	case 0:
		sb.WriteString(`td{padding:0}`)
	case 1:
		sb.WriteString(`td{padding:0;border:1px solid}`)
	case 2:
		sb.WriteString(`table{border-collapse:collapse} td{padding:0}`)
	case 3:
		sb.WriteString(`table{border-collapse:collapse} td{padding:0;border:1px solid}`)
	case 4:
		sb.WriteString(`table{border-collapse:collapse} td{padding:0;border:1px solid} tr:first-child>td:first-child{border-width:3px}`)
	case 5:
		sb.WriteString(`td{padding:1px 3px}`)
	case 6: // a percentage padding refers to the width of the table, which depends on the columns
		sb.WriteString(`td{padding:0} tr:first-child>td:first-child{padding-left:30%}`)
	}
	if v := d.opt[dVAlign]; v != 0 {
		sb.WriteString(` td{vertical-align:` + dimValues[dVAlign][v] + `}`)
	}
	sb.WriteString(`</style>`)
	fmt.Fprintf(&sb, `<table style="border-spacing:%s`, dimValues[dSpacing][d.opt[dSpacing]])
	if d.opt[dLayout] == 1 {
		sb.WriteString(`;table-layout:fixed`)
	}
	if d.opt[dWidth] != 0 {
		fmt.Fprintf(&sb, `;width:%s`, dimValues[dWidth][d.opt[dWidth]])
	}
	if d.rtl() {
		sb.WriteString(`;direction:rtl`)
	}
	if d.opt[dOffset] == 1 {
		sb.WriteString(`;margin-top:-100px`)
	}
	sb.WriteString(`">`)
	switch d.opt[dCaption] {
	case 1:
		sb.WriteString(`<caption>zzzzzzzz zz</caption>`)
	case 2:
		sb.WriteString(`<caption style="caption-side:bottom">zzzzzzzz zz</caption>`)
	}
	switch d.opt[dCols] {
	case 1:
		sb.WriteString(`<col style="width:30px">`)
	case 2:
		sb.WriteString(`<col span=2 style="width:20px">`)
	case 3:
		sb.WriteString(`<colgroup span=2 style="width:40px"></colgroup>`)
	case 4:
		sb.WriteString(`<colgroup><col><col style="width:50%"></colgroup>`)
	case 5:
		sb.WriteString(`<col><col><col><col><col>`)
	case 6: // two sized columns that nearly fill the table: what is left for the other columns is less than the spacing
		sb.WriteString(`<col style="width:48%"><col style="width:48%">`)
	}
	// first / last present cell (source order)
	first, last := -1, -1
	for k, s := range d.span {
		if !spanMenu[s].absent {
			if first < 0 {
				first = k
			}
			last = k
		}
	}
	for _, gr := range d.sourceGroups() {
		if gr.kind != "implicit" {
			sb.WriteString("<" + gr.kind + ">")
		}
		for _, row := range gr.rows {
			fmt.Fprintf(&sb, "<tr id=r%d", row.src)
			if h := d.rowHeight(row.src); h > 0 {
				fmt.Fprintf(&sb, ` style="height:%gpx"`, h)
			}
			sb.WriteString(">")
			for col := 0; col < d.c; col++ {
				k := row.src*d.c + col
				sym := spanMenu[d.span[k]]
				if sym.absent {
					continue
				}
				sb.WriteString("<td")
				if sym.cs != 1 {
					fmt.Fprintf(&sb, " colspan=%d", sym.cs)
				}
				if sym.rs != 1 {
					fmt.Fprintf(&sb, " rowspan=%d", sym.rs)
				}
				if st := d.cellWidthStyle(k, first, last); st != "" {
					fmt.Fprintf(&sb, ` style="%s"`, st)
				}
				sb.WriteString(">")
				if d.tall(k) > 0 {
					sb.WriteString(strings.Join(d.words(k), "<br>"))
				} else {
					sb.WriteString(strings.Join(d.words(k), " "))
				}
				sb.WriteString("</td>")
			}
			sb.WriteString("</tr>")
		}
		if gr.kind != "implicit" {
			sb.WriteString("</" + gr.kind + ">")
		}
	}
	sb.WriteString("</table>")
	return sb.String()
}

// ---- feature tags (computed from the input alone) -----------------------------------------------

func (d *doc) features(g *refGrid) []string {
	set := map[string]bool{}
	hs, vs := d.spacing()
	for _, s := range d.span {
		sym := spanMenu[s]
		switch {
		case sym.absent:
			set["absent-cell"] = true
		default:
			if sym.cs == 2 {
				set["colspan"] = true
			}
			if sym.cs == 5 {
				set["colspan"] = true
				set["colspan-5"] = true
			}
			if sym.rs == 2 {
				set["rowspan"] = true
			}
			if sym.rs == 0 {
				set["rowspan-0"] = true
			}
		}
	}
	if g.collision {
		set["slot-collision"] = true
	}
	if g.emptyRow {
		set["row-without-cells"] = true
	}
	for _, o := range g.origin {
		if !o {
			set["spanned-only-column"] = true
		}
	}
	if len(g.cells) == 0 {
		set["no-cells"] = true
	}
	// a multi-row cell with no content: its own height is 0, smaller than the spacing it spans
	for _, c := range g.cells {
		if c.dropped {
			set["cell-beyond-fixed-columns"] = true
			continue
		}
		if c.ecs < c.cs {
			set["colspan-clipped-by-fixed-columns"] = true
		}
		if c.rs > 1 && len(c.words) == 0 {
			set["empty-multirow-cell"] = true
		}
		if len(c.words) == 0 {
			set["empty-cell"] = true
		}
	}
	// a row in which every cell that ENDS there is a multi-row cell (the row's own bottom is
	// decided by spanning cells only)
	for y := range g.rows {
		ends, single := 0, 0
		for _, c := range g.cells {
			if !c.dropped && c.gy+c.rs-1 == y {
				ends++
				if c.rs == 1 {
					single++
				}
			}
		}
		if ends > 0 && single == 0 {
			set["row-ended-by-spanning-cells-only"] = true
		}
	}
	// two column-spanning cells of different rows whose column ranges overlap without being
	// equal: their min- and max-content contributions are distributed over different column
	// sets, which is what makes the width guesses of the automatic layout inconsistent
	for i, a := range g.cells {
		for _, b := range g.cells[i+1:] {
			if a.dropped || b.dropped || a.gy == b.gy || (a.ecs < 2 && b.ecs < 2) {
				continue
			}
			if a.gx < b.gx+b.ecs && b.gx < a.gx+a.ecs && (a.gx != b.gx || a.ecs != b.ecs) && a.ecs > 1 && b.ecs > 1 {
				set["partially-overlapping-colspans"] = true
			}
		}
	}
	// the cell that carries the width option (first / last present cell in source order)
	var wcell *refCell
	if w := d.opt[dCellW]; w != 0 {
		for _, c := range g.cells { // g.cells is in laid-out order
			if wcell == nil || ((w == 1 || w == 2) && c.k < wcell.k) || ((w == 3 || w == 4) && c.k > wcell.k) {
				wcell = c
			}
		}
		if wcell != nil && wcell.dropped {
			wcell = nil
		}
	}
	wPx := wcell != nil && (d.opt[dCellW] == 1 || d.opt[dCellW] == 3)
	wPct := wcell != nil && (d.opt[dCellW] == 2 || d.opt[dCellW] == 4)
	if wPct && wcell.cs > 1 {
		set["spanning-cell-width-%"] = true
	}
	// columns that cannot absorb excess width in the automatic layout (dbaron / CSS Tables 3):
	// constrained (a px width on the column, its group or a non-spanning cell originating in
	// it) or carrying a percentage
	if g.ncols > 0 {
		rigid := make([]bool, g.ncols)
		mark := func(i int) {
			if i < g.ncols {
				rigid[i] = true
			}
		}
		switch d.opt[dCols] {
		case 1:
			mark(0)
		case 2, 3:
			mark(0)
			mark(1)
		case 4:
			mark(1)
		case 6:
			mark(0)
			mark(1)
		}
		if wPx && wcell.cs == 1 {
			mark(wcell.gx)
		}
		if wPct {
			for x := wcell.gx; x < wcell.gx+wcell.ecs; x++ {
				mark(x)
			}
		}
		all := true
		for _, b := range rigid {
			all = all && b
		}
		if all {
			set["no-flexible-column"] = true
		}
		// a column-spanning cell all of whose columns are rigid: nothing can take the part of
		// its min-content width that exceeds the columns
		for _, c := range g.cells {
			if c.dropped || c.ecs < 2 {
				continue
			}
			allRigid := true
			for x := c.gx; x < c.gx+c.ecs; x++ {
				allRigid = allRigid && rigid[x]
			}
			if allRigid {
				set["span-over-rigid-columns"] = true
			}
		}
	}
	// at least two rows contain a column-spanning cell: their min- and max-content widths are
	// distributed over the columns independently of each other
	{
		rowsWithSpan := map[int]bool{}
		for _, c := range g.cells {
			if !c.dropped && c.ecs > 1 {
				rowsWithSpan[c.gy] = true
			}
		}
		if len(rowsWithSpan) >= 2 {
			set["colspans-in-several-rows"] = true
		}
	}
	// fixed layout: a spanning cell of the first row whose own width is smaller than the widths
	// that column elements give to the columns it spans
	if d.fixedEffective() && wcell != nil && wcell.gy == 0 && wcell.ecs > 1 {
		tw := d.specifiedWidth(0)
		colW := make([]float64, g.ncols)
		switch d.opt[dCols] {
		case 1:
			colW[0] = 30
		case 2:
			colW[0] = 20
			if g.ncols > 1 {
				colW[1] = 20
			}
		case 4:
			if g.ncols > 1 {
				colW[1] = tw / 2
			}
		case 6:
			colW[0] = tw * 0.48
			if g.ncols > 1 {
				colW[1] = tw * 0.48
			}
		}
		cw := 30.0
		if wPct {
			cw = tw / 2
		}
		sum := 0.0
		for x := wcell.gx; x < wcell.gx+wcell.ecs; x++ {
			sum += colW[x]
		}
		if sum > cw-hs*float64(wcell.ecs-1) {
			set["fixed-span-narrower-than-cols"] = true
		}
	}
	if hs > 0 {
		set["h-spacing"] = true
	}
	if vs > 0 {
		set["v-spacing"] = true
	}
	if d.collapse() {
		set["collapse"] = true
	}
	if d.opt[dBorder] == 1 || d.opt[dBorder] == 3 || d.opt[dBorder] == 4 {
		set["cell-border"] = true
	}
	if d.opt[dBorder] == 5 {
		set["cell-padding"] = true
	}
	if d.opt[dBorder] == 6 {
		set["cell-padding-%"] = true
	}
	if d.rtl() {
		set["rtl"] = true
	}
	if d.opt[dOffset] != 0 {
		set["negative-y"] = true // the table is laid out above the top of the page
	}
	if d.opt[dBorder] == 1 || d.opt[dBorder] >= 3 {
		set["cell-decoration"] = true // cells have a non-zero padding or border
	}
	if d.fixedEffective() {
		set["fixed-layout"] = true
	} else {
		set["auto-layout"] = true
	}
	if d.opt[dWidth] != 0 {
		set["table-width"] = true
	}
	if d.opt[dWidth] == 3 {
		set["table-width-%"] = true
	}
	switch d.opt[dCellW] {
	case 1, 3:
		set["cell-width-px"] = true
	case 2, 4:
		set["cell-width-%"] = true
	}
	if d.opt[dCols] != 0 {
		set["col-elements"] = true
	}
	if d.opt[dCols] == 4 || d.opt[dCols] == 6 {
		set["col-width-%"] = true
	}
	if d.opt[dSection] != 0 {
		set["row-groups"] = true
	}
	if d.opt[dCaption] != 0 {
		set["caption"] = true
	}
	if d.paginated() {
		set["page-split"] = true // the page holds one or two lines: the table is split over pages
	}
	if d.geomMatters() {
		set["page-geometry"] = true // the pages differ in left margin and/or width
	}
	if d.opt[dRowH] != 0 {
		set["row-height"] = true
	}
	if d.opt[dCellH] != 0 {
		set["cell-height"] = true
	}
	if d.opt[dVAlign] != 0 {
		set["vertical-align"] = true
	}
	if d.opt[dContent] >= 8 {
		set["tall-content"] = true
	}
	// a cell spanning rows that does not start in the first row of its row group
	hasFooter := len(g.groups) > 0 && g.groups[len(g.groups)-1].kind == "tfoot"
	for _, gr := range g.groups {
		for y, row := range gr.rows {
			for _, c := range row.cells {
				if y > 0 && c.rs > 1 && !c.dropped {
					set["rowspan-below-first-row"] = true
				}
				// a split table that repeats a footer group below body rows spanned by one cell:
				// a page break between those rows puts the footer right below the cut cell
				if c.rs > 1 && !c.dropped && d.paginated() && hasFooter && gr.kind != "tfoot" && gr.kind != "thead" {
					set["split-rowspan-footer"] = true
				}
			}
		}
	}
	out := make([]string, 0, len(set))
	for k := range set {
		out = append(out, k)
	}
	return out
}
