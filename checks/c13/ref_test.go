package c13

import "testing"

func TestReferenceSlotModel(t *testing.T) {
	if err := refSelfTest(); err != nil {
		t.Fatal(err)
	}
}

func TestCodeRoundTrip(t *testing.T) {
	c := &check{}
	c.Init("quick", 0)
	for _, i := range []int64{0, 1, 77, c.total / 2, c.total - 1} {
		_, d := c.caseAt(i)
		d2, ok := parseCode(d.code())
		if !ok || d2.code() != d.code() || d2.html() != d.html() {
			t.Fatalf("case %d: code %s does not round-trip", i, d.code())
		}
	}
}
