package c13

import (
	"fmt"
	"os"
	"sort"
	"strings"
)

// Development aid: with C13_DUMP=<dir> every failure is appended to <dir>/fail.<pid> as
// clause<TAB>sorted features<TAB>case code<TAB>detail, so that disagreement classes can be
// tabulated during triage (the engine only prints the simplest member of each clause).
var dumpFile *os.File

func dump(clause string, feats []string, code, detail string) {
	dir := os.Getenv("C13_DUMP")
	if dir == "" {
		return
	}
	if dumpFile == nil {
		f, err := os.OpenFile(fmt.Sprintf("%s/fail.%d", dir, os.Getpid()), os.O_CREATE|os.O_APPEND|os.O_WRONLY, 0o644)
		if err != nil {
			return
		}
		dumpFile = f
	}
	fs := append([]string(nil), feats...)
	sort.Strings(fs)
	fmt.Fprintf(dumpFile, "%s\t%s\t%s\t%s\n", clause, strings.Join(fs, ","), code, detail)
}
