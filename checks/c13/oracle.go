package c13

import (
	"fmt"
	"math"
	"strings"

	pr "github.com/benoitkugler/webrender/css/properties"
	bo "github.com/benoitkugler/webrender/html/boxes"
)

const eps = 5e-3

func near(a, b float64) bool { return math.Abs(a-b) < eps }

func findTable(b bo.Box) *bo.TableBox {
	if t, ok := b.(*bo.TableBox); ok {
		return t
	}
	for _, c := range b.Box().Children {
		if t := findTable(c); t != nil {
			return t
		}
	}
	return nil
}

func mf(v pr.MaybeFloat) float64 {
	if v == nil || v == pr.AutoF {
		return math.NaN()
	}
	return float64(v.V())
}

// laid-out cell: border box and grid data as reported by the implementation.
type outCell struct {
	ref            *refCell
	x, y, w, h     float64 // border box
	cw, ch         float64 // content box size
	padBorderH     float64 // horizontal padding + border
	gx, cs, rs, gy int     // gy: row of the reference grid
	py             int     // index of its row among the rows of this page
}

type outcome struct {
	key        string
	nontrivial bool
}

type reporter struct {
	fail  func(clause, detail string)
	count func(name string, n int64)
}

// rowID reads the source row index from the id attribute ("rN") of the <tr> a row box comes from.
func rowID(b *bo.BoxFields) int {
	if b.Element == nil {
		return -1
	}
	for _, a := range b.Element.Attr {
		if a.Key == "id" && len(a.Val) > 1 && a.Val[0] == 'r' {
			n := 0
			for _, ch := range a.Val[1:] {
				if ch < '0' || ch > '9' {
					return -1
				}
				n = n*10 + int(ch-'0')
			}
			return n
		}
	}
	return -1
}

// verify evaluates every clause of the property on one laid-out table: the whole table, or the
// fragment of it that page number `page` holds when the table is split over pages (the rows are
// then identified by the <tr> they come from: a fragment starts anywhere, repeats the header and
// footer groups, and its first and last row may be parts of a row split between two pages).
//
// cont holds the source rows of this fragment that are split by the page break: rows (of a body
// group) that continue on the next page.
func verify(d *doc, g *refGrid, t *bo.TableBox, page int, cont map[int]bool, rp reporter) outcome {
	hs, vs := d.spacing()
	cw := t.ColumnWidths
	ncols := len(cw)
	tx := float64(t.ContentBoxX())
	tw := mf(t.Width)
	th := mf(t.Height)
	// A right-to-left table is the mirror image of the left-to-right one: column 0 is the
	// rightmost column and a cell starts at its right edge. Every horizontal coordinate is
	// mirrored about the middle of the table's content box, after which the clauses below (stated
	// for a table whose column 0 is the leftmost one) apply unchanged; the messages of a
	// right-to-left table therefore give mirrored coordinates.
	rtl := d.rtl()
	mirror := func(x, w float64) float64 {
		if rtl {
			return 2*tx + tw - x - w
		}
		return x
	}
	mnote := ""
	if rtl {
		mnote = " [rtl: x mirrored about the table's content box]"
	}

	var key strings.Builder
	fmt.Fprintf(&key, "W%.2f H%.2f C", tw, th)
	for _, w := range cw {
		fmt.Fprintf(&key, "%.2f,", float64(w))
	}

	if len(t.ColumnPositions) != ncols {
		rp.fail("structure", fmt.Sprintf("%d column widths but %d column positions", ncols, len(t.ColumnPositions)))
		return outcome{key.String(), false}
	}
	cp := make([]float64, ncols) // left edge of every column (mirrored in a right-to-left table)
	for i, x := range t.ColumnPositions {
		cp[i] = mirror(float64(x), float64(cw[i]))
	}

	// ---- rows and cells as laid out -------------------------------------------------------
	type outRow struct {
		top, h float64
		ref    int // row of the reference grid (laid-out order)
		grp    int // index of its row group among the groups of this page
	}
	var rows []outRow
	var cells []outCell
	laidOf := map[int]int{} // source row -> row of the reference grid
	for i, r := range g.rows {
		laidOf[r.src] = i
	}
	pageRow := map[int]int{} // row of the reference grid -> index in rows
	for gi, grp := range t.Children {
		for _, r := range grp.Box().Children {
			rb := r.Box()
			py := len(rows)
			y, ok := laidOf[rowID(rb)]
			if !ok {
				rp.fail("structure", fmt.Sprintf("page %d: row box %d does not come from a <tr> of the source", page, py))
				return outcome{key.String(), false}
			}
			if !d.paginated() && y != py {
				rp.fail("structure", fmt.Sprintf("row box %d comes from row %d of the source (laid-out order)", py, y))
				return outcome{key.String(), false}
			}
			if _, dup := pageRow[y]; dup {
				rp.fail("structure", fmt.Sprintf("page %d: row %d is laid out twice", page, y))
				return outcome{key.String(), false}
			}
			pageRow[y] = py
			rows = append(rows, outRow{float64(rb.PositionY), mf(rb.Height), y, gi})
			ref := g.rows[y].cells
			if len(rb.Children) > len(ref) {
				rp.fail("structure", fmt.Sprintf("row %d has %d cells, the source has %d", y, len(rb.Children), len(ref)))
				return outcome{key.String(), false}
			}
			for i, c := range rb.Children {
				f := c.Box()
				cells = append(cells, outCell{
					ref: ref[i],
					x:   mirror(float64(f.BorderBoxX()), float64(f.BorderWidth())), y: float64(f.BorderBoxY()), w: float64(f.BorderWidth()), h: float64(f.BorderHeight()),
					cw: mf(f.Width), ch: mf(f.Height),
					padBorderH: float64(f.PaddingLeft.V() + f.PaddingRight.V() + f.BorderLeftWidth + f.BorderRightWidth),
					gx:         f.GridX, cs: f.Colspan, rs: f.Rowspan, gy: y, py: py,
				})
			}
			// cells of the source that were not laid out: only legitimate beyond the columns of
			// a fixed-layout table (CSS 2.1 §17.5.2.1: "additional columns may not be rendered")
			for _, rc := range ref[len(rb.Children):] {
				rp.count("cells-not-laid-out", 1)
				if rc.gx < ncols || !d.fixedEffective() {
					rp.fail("slot-assignment", fmt.Sprintf("cell %d (slot x=%d,y=%d) was not laid out although the table has %d columns", rc.k, rc.gx, rc.gy, ncols))
				}
			}
		}
	}
	if len(g.cells) == 0 {
		// a table without any cell: rows may vanish, nothing relational to check
		rp.count("tables-without-cells", 1)
		return outcome{key.String(), false}
	}
	if !d.paginated() && len(rows) != len(g.rows) {
		rp.fail("structure", fmt.Sprintf("%d rows laid out, %d in the source", len(rows), len(g.rows)))
		return outcome{key.String(), false}
	}
	if page > 0 {
		rp.count("table-fragments-on-later-pages", 1)
	}
	for _, r := range rows {
		fmt.Fprintf(&key, " R%.2f", r.h)
	}
	// number of columns: every slot of every cell exists; in the fixed layout it is the greater
	// of the number of column elements and of the columns of the first row (CSS 2.1 §17.5.2.1)
	if d.fixedEffective() && ncols != g.ncols {
		rp.fail("slot-assignment", fmt.Sprintf("fixed layout: the table has %d columns, column elements and first row give %d", ncols, g.ncols))
	} else if !d.fixedEffective() && ncols < g.width {
		rp.fail("slot-assignment", fmt.Sprintf("the table has %d columns, its cells occupy %d", ncols, g.width))
	}
	rp.count("tables-laid-out", 1)
	rp.count("cells-laid-out", int64(len(cells)))

	// ---- nothing negative ---------------------------------------------------------------------
	neg := func(what string, v float64) {
		if v < -eps || math.IsNaN(v) {
			rp.fail("nonnegative", fmt.Sprintf("%s = %g", what, v))
		}
	}
	neg("table width", tw)
	neg("table height", th)
	for i, w := range cw {
		neg(fmt.Sprintf("width of column %d", i), float64(w))
	}
	for i, r := range rows {
		neg(fmt.Sprintf("height of row %d", i), r.h)
	}
	for _, c := range cells {
		neg(fmt.Sprintf("border-box width of cell %d", c.ref.k), c.w)
		neg(fmt.Sprintf("border-box height of cell %d", c.ref.k), c.h)
		// the content box is a clause of its own: a column narrower than a cell's padding and
		// border is a different defect from a negative column
		for _, v := range []struct {
			what string
			v    float64
			box  float64
		}{{"width", c.cw, c.w}, {"height", c.ch, c.h}} {
			if v.box < -eps {
				continue // the border box itself is negative: reported above
			}
			if v.v < -eps || math.IsNaN(v.v) {
				rp.fail("nonnegative-content", fmt.Sprintf("content %s of cell %d = %g (border box %g x %g)", v.what, c.ref.k, v.v, c.w, c.h))
			}
		}
	}

	// ---- slots, edges, spans --------------------------------------------------------------------
	for i := range cells {
		c := &cells[i]
		rc := c.ref
		wantCs := rc.cs
		if rc.gx+wantCs > ncols && d.fixedEffective() {
			wantCs = ncols - rc.gx // fixed layout: a span cannot reach beyond the last column
		}
		if c.gx != rc.gx || c.rs != rc.rs || c.cs != wantCs || wantCs < 1 {
			rp.fail("slot-assignment", fmt.Sprintf("cell %d: implementation x=%d colspan=%d rowspan=%d, reference x=%d colspan=%d rowspan=%d (%d columns)",
				rc.k, c.gx, c.cs, c.rs, rc.gx, wantCs, rc.rs, ncols))
			continue
		}
		last := c.gx + c.cs - 1
		if c.gx < 0 || last >= ncols || c.cs < 1 || c.gy+c.rs > len(g.rows) || c.rs < 1 {
			continue // reported above
		}
		if c.cs > 1 {
			rp.count("cells-spanning-columns", 1)
		}
		if c.rs > 1 {
			rp.count("cells-spanning-rows", 1)
		}
		// left edge = left edge of the first column, right edge = right edge of the last one:
		// cells starting (ending) in one column share their left (right) edge and a spanning
		// cell covers its columns and whatever lies between them
		if l := cp[c.gx]; !near(c.x, l) {
			rp.fail("column-edges", fmt.Sprintf("cell %d starts in column %d: left edge %g, column starts at %g%s", rc.k, c.gx, c.x, l, mnote))
		}
		if r := cp[last] + float64(cw[last]); !near(c.x+c.w, r) {
			rp.fail("column-edges", fmt.Sprintf("cell %d ends in column %d: right edge %g, column ends at %g%s", rc.k, last, c.x+c.w, r, mnote))
		}
		// top edge = top of its row; bottom edge = bottom of the last row it spans
		if !near(c.y, rows[c.py].top) {
			rp.fail("row-edges", fmt.Sprintf("cell %d: top edge %g, row %d starts at %g", rc.k, c.y, c.gy, rows[c.py].top))
		}
		// the last row it spans; when the table is split, the last one of them on this page
		lp, cut := c.py, false
		for y := c.gy + 1; y < c.gy+c.rs; y++ {
			if p, ok := pageRow[y]; ok && p == lp+1 && rows[p].grp == rows[c.py].grp {
				lp = p
			} else {
				cut = true
				break
			}
		}
		b := rows[lp].top + rows[lp].h
		switch {
		case cut:
			// a page break between the rows a cell spans. How such a cell is fragmented is not
			// settled by the statement (the implementation leaves it at its own height, neither
			// stretched to the row nor continued on the next page): its bottom edge is not
			// checked; it still takes part in the overlap clause
			rp.count("spans-cut-by-a-page-break", 1)
		case !near(c.y+c.h, b):
			rp.fail("row-edges", fmt.Sprintf("cell %d (rowspan %d): bottom edge %g, row %d ends at %g (cell height %g)", rc.k, c.rs, c.y+c.h, rows[lp].ref, b, c.h))
		}
	}

	// ---- adjacency (separate model: one spacing between neighbours; collapse: none) ----------
	origin := make([]bool, ncols)
	for _, c := range g.cells {
		if c.gx < ncols {
			origin[c.gx] = true
		}
	}
	for i := 1; i < ncols; i++ {
		gap := cp[i] - (cp[i-1] + float64(cw[i-1]))
		switch {
		case origin[i] && origin[i-1]:
			rp.count("adjacent-column-pairs", 1)
			if !near(gap, hs) {
				rp.fail("column-adjacency", fmt.Sprintf("columns %d and %d are %g apart, border-spacing is %g", i-1, i, gap, hs))
			}
		default:
			// a column in which no cell originates: CSS 2.1 spaces it like any other column,
			// CSS Tables 3 merges it with its neighbour; both are accepted
			if !near(gap, hs) && !near(gap, 0) {
				rp.fail("column-adjacency", fmt.Sprintf("columns %d and %d (one without originating cell) are %g apart, border-spacing is %g", i-1, i, gap, hs))
			}
		}
	}
	rowOriginRef := make([]bool, len(g.rows))
	for _, c := range g.cells {
		rowOriginRef[c.gy] = true
	}
	rowOrigin := make([]bool, len(rows))
	for i, r := range rows {
		rowOrigin[i] = rowOriginRef[r.ref]
	}
	for i := 1; i < len(rows); i++ {
		gap := rows[i].top - (rows[i-1].top + rows[i-1].h)
		if cont[g.rows[rows[i-1].ref].src] {
			// the upper row is cut by the page break and what follows it on this page is the
			// repeated footer group: whether the part of a row is followed by the spacing is not
			// settled by the statement (the implementation puts the footer right below it)
			rp.count("rows-below-a-row-split-by-the-page-break", 1)
			if !near(gap, vs) && !near(gap, 0) {
				rp.fail("row-adjacency", fmt.Sprintf("page %d: rows %d (split by the page break) and %d are %g apart, border-spacing is %g", page, rows[i-1].ref, rows[i].ref, gap, vs))
			}
		} else if rowOrigin[i] && rowOrigin[i-1] {
			rp.count("adjacent-row-pairs", 1)
			if !near(gap, vs) {
				rp.fail("row-adjacency", fmt.Sprintf("rows %d and %d are %g apart, border-spacing is %g", rows[i-1].ref, rows[i].ref, gap, vs))
			}
		} else if !near(gap, vs) && !near(gap, 0) {
			rp.fail("row-adjacency", fmt.Sprintf("rows %d and %d (one without cells) are %g apart, border-spacing is %g", rows[i-1].ref, rows[i].ref, gap, vs))
		}
	}

	// ---- the columns and the spacing fill the table -------------------------------------------
	// CSS 2.1 §17.6.1: the cells on the edge of the table are one border-spacing away from the
	// table's padding edge. Stated on the outermost column edges, so that it holds whether or
	// not spacing is counted for columns without originating cells.
	if ncols > 0 {
		rp.count("tables-with-columns", 1)
		if l := cp[0]; !near(l-hs, tx) {
			rp.fail("table-fill", fmt.Sprintf("first column starts at %g, table content box at %g, border-spacing %g%s", l, tx, hs, mnote))
		}
		if r := cp[ncols-1] + float64(cw[ncols-1]); !near(r+hs, tx+tw) {
			sum := 0.0
			for _, w := range cw {
				sum += float64(w)
			}
			rp.fail("table-fill", fmt.Sprintf("last column ends at %g, table content box ends at %g, border-spacing %g (table width %g, %d columns of total width %g)%s", r, tx+tw, hs, tw, ncols, sum, mnote))
		}
	}

	// ---- used width >= specified width -------------------------------------------------------
	if sw := d.specifiedWidth(page); sw > 0 {
		rp.count("tables-with-specified-width", 1)
		// the UA sheet makes tables box-sizing:border-box; comparing the border box is correct
		// for that and implied by the content-box reading
		if bw := float64(t.BorderWidth()); bw < sw-eps {
			rp.fail("width-ge-specified", fmt.Sprintf("table border-box width %g < specified %g", bw, sw))
		}
	}

	// ---- used width >= minimum of the content (automatic layout only) ---------------------------
	if !d.fixedEffective() && !g.collision {
		for _, r := range rows {
			y := r.ref
			need, n := 0.0, 0
			for i := range cells {
				c := &cells[i]
				if c.gy <= y && y < c.gy+c.rs {
					need += float64(longestWord(c.ref.words))*10 + c.padBorderH
					n++
				}
			}
			if n == 0 {
				continue
			}
			need += float64(n+1) * hs
			rp.count("rows-min-content-checked", 1)
			if tw < need-eps {
				rp.fail("width-ge-min-content", fmt.Sprintf("table content width %g < %g needed by the %d cells crossing row %d (longest words + padding/border + spacing)", tw, need, n, y))
			}
		}
	}

	// ---- cells on disjoint slots do not overlap ------------------------------------------------
	for i := range cells {
		for j := i + 1; j < len(cells); j++ {
			a, b := &cells[i], &cells[j]
			if a.cs < 1 || b.cs < 1 {
				continue
			}
			slots := a.gx < b.gx+b.cs && b.gx < a.gx+a.cs && a.gy < b.gy+b.rs && b.gy < a.gy+a.rs
			if slots {
				rp.count("cell-pairs-sharing-a-slot(C09)", 1)
				continue
			}
			rp.count("disjoint-cell-pairs", 1)
			if a.x < b.x+b.w-eps && b.x < a.x+a.w-eps && a.y < b.y+b.h-eps && b.y < a.y+a.h-eps {
				rp.fail("no-overlap", fmt.Sprintf("cells %d [x %g..%g, y %g..%g] and %d [x %g..%g, y %g..%g] occupy disjoint slots but overlap",
					a.ref.k, a.x, a.x+a.w, a.y, a.y+a.h, b.ref.k, b.x, b.x+b.w, b.y, b.y+b.h))
			}
		}
	}
	return outcome{key.String(), len(cells) >= 2}
}

// fragmentRows lists the source rows (ids of the <tr>) of the row boxes of a table fragment.
func fragmentRows(t *bo.TableBox) []int {
	var out []int
	for _, grp := range t.Children {
		for _, r := range grp.Box().Children {
			out = append(out, rowID(r.Box()))
		}
	}
	return out
}
