package c13

import "fmt"

// refSelfTest runs the reference slot model on hand-computed examples (CSS 2.1 §17.5 and
// HTML "forming a table") before anything is explored. A broken reference must not be
// allowed to produce verdicts.
func refSelfTest() error {
	type want struct {
		k, gx, gy, rs int
	}
	cases := []struct {
		code      string
		ncols     int
		collision bool
		cells     []want
	}{
		// <tr><td rowspan=2>a<td>b</tr><tr><td>c<td>d</tr>: the second row starts in column 1
		{"2x2:2000:0000000000", 3, false, []want{{0, 0, 0, 2}, {1, 1, 0, 1}, {2, 1, 1, 1}, {3, 2, 1, 1}}},
		// CSS 2.1 §17.5 erroneous example / DESIGN probe: <tr><td>a<td rowspan=2>b</tr><tr><td colspan=2>c</tr>:
		// only the first slot is tested for occupancy, so c covers the slot held by b
		{"2x2:0216:0000000000", 2, true, []want{{0, 0, 0, 1}, {1, 1, 0, 2}, {2, 0, 1, 1}}},
		// rowspan=0 reaches the end of its row group, not of the table (thead = first row)
		{"3x1:400:0000100000", 1, false, []want{{0, 0, 0, 1}, {1, 0, 1, 1}, {2, 0, 2, 1}}},
		// rowspan=0 in the body of a 3-row table spans 3 rows; following rows shift right
		{"3x2:400000:0000000000", 3, false, []want{{0, 0, 0, 3}, {1, 1, 0, 1}, {2, 1, 1, 1}, {3, 2, 1, 1}, {4, 1, 2, 1}, {5, 2, 2, 1}}},
		// tfoot written first is laid out last: source row 0 becomes grid row 2
		{"3x1:000:0000300000", 1, false, []want{{1, 0, 0, 1}, {2, 0, 1, 1}, {0, 0, 2, 1}}},
		// fixed layout: the first row (1 column) decides; the colspan=5 cell of row 2 is clipped
		{"2x1:05:1100000000", 1, false, []want{{0, 0, 0, 1}, {1, 0, 1, 1}}},
	}
	for _, tc := range cases {
		d, ok := parseCode(tc.code)
		if !ok {
			return fmt.Errorf("bad code %s", tc.code)
		}
		g := d.grid()
		if g.ncols != tc.ncols || g.collision != tc.collision || len(g.cells) != len(tc.cells) {
			return fmt.Errorf("%s: ncols=%d collision=%v cells=%d, want %d %v %d", tc.code, g.ncols, g.collision, len(g.cells), tc.ncols, tc.collision, len(tc.cells))
		}
		for i, w := range tc.cells {
			c := g.cells[i]
			if c.k != w.k || c.gx != w.gx || c.gy != w.gy || c.rs != w.rs {
				return fmt.Errorf("%s: cell #%d = {k:%d x:%d y:%d rs:%d}, want %+v", tc.code, i, c.k, c.gx, c.gy, c.rs, w)
			}
		}
	}
	if d, _ := parseCode("2x1:05:1100000000"); d.grid().cells[1].ecs != 1 {
		return fmt.Errorf("fixed-layout colspan clipping")
	}
	return nil
}
