package c13

import (
	"fmt"
	"os"
	"strings"
	"testing"

	"verif/internal/render"
)

// go test -run TestDbg with C13_CODE="code code ..." prints geometry and failures (dev aid).
func TestDbg(t *testing.T) {
	for _, code := range strings.Fields(os.Getenv("C13_CODE")) {
		d, ok := parseCode(code)
		if !ok {
			t.Fatalf("bad code %s", code)
		}
		g := d.grid()
		html := d.html()
		fmt.Println("==", code, html[strings.Index(html, "</style>")+8:])
		fmt.Println("   features:", d.features(g))
		func() {
			defer func() {
				if r := recover(); r != nil {
					fmt.Println("   PANIC", r)
				}
			}()
			pages, _ := render.Layout(render.Options{HTML: html, Engine: "pango"})
			for pn, pg := range pages {
				tb := findTable(pg)
				if tb == nil {
					fmt.Println("   page", pn, "no table")
					continue
				}
				fmt.Println("   page", pn)
				fmt.Printf("   table x=%v w=%v h=%v cols=%v pos=%v\n", tb.ContentBoxX(), tb.Width, tb.Height, tb.ColumnWidths, tb.ColumnPositions)
				y := 0
				for _, grp := range tb.Children {
					for _, r := range grp.Box().Children {
						fmt.Printf("   row %d(src %d) top=%v h=%v:", y, rowID(r.Box()), r.Box().PositionY, r.Box().Height)
						for _, c := range r.Box().Children {
							f := c.Box()
							fmt.Printf(" [gx=%d cs=%d rs=%d x=%v..%v y=%v..%v]", f.GridX, f.Colspan, f.Rowspan, f.BorderBoxX(), f.BorderBoxX()+f.BorderWidth(), f.BorderBoxY(), f.BorderBoxY()+f.BorderHeight())
						}
						fmt.Println()
						y++
					}
				}
				verify(d, g, tb, pn, nil, reporter{fail: func(c, det string) { fmt.Println("   FAIL", c, ":", det) }, count: func(string, int64) {}})
			}
		}()
	}
}
