package c07

import (
	"fmt"
	"html"
	"sort"
	"strings"

	"github.com/benoitkugler/webrender/css/counters"
	pr "github.com/benoitkugler/webrender/css/properties"
	"github.com/benoitkugler/webrender/html/tree"
	"github.com/benoitkugler/webrender/utils"

	"verif/internal/engine"
)

// ---- declarations through the cascade ------------------------------------------------------
//
// A declaration whose value contains var() is only recorded by the validators ("pending
// substitution"): its tokens are substituted, re-validated and, for shorthands, re-expanded when
// the computed value is REQUESTED (html/tree/style.go cascadeValue, resolveVarSeen,
// validation.Validate / ExpandValidatePending). The cases of the declaration plans that are
// flagged for it are therefore also put into one fixed document, at every place a declaration
// is read from (style attribute, qualified rule, pseudo-element rule, @page, margin rule), and
// every property of every element, of ::before, of the page and of its margin box is requested.
// No fonts, no layout.

const (
	cascadeNever = iota
	cascadeVar   // cases whose value contains "var("
	cascadeAlways
)

// the custom properties the var() menus refer to: --a defined, --c cyclic, --e empty, --u undefined;
// --x is the declaration under test when its name is a custom property (consumed by width and color;
// custom properties themselves are not requested: the library reads them through Variables() only).
const cascadeVars = "--a:5px;--c:var(--c);--e:;"

func cascadeDoc(name, value string) string {
	d := name + ":" + value
	return `<html style="` + cascadeVars + `"><head><style>p,p::before{content:"b";` + d + `}` +
		`@page{` + cascadeVars + d + `;@top-left{content:"t";` + d + `}}</style></head>` +
		`<body><p style="width:var(--x);color:var(--x);` + html.EscapeString(d) + `">x<span>y</span></p></body></html>`
}

var (
	cascadeKeys     []pr.PropKey
	cascadePageType = utils.PageElement{Side: "right", First: true, Index: 0}
)

func allPropKeys() []pr.PropKey {
	if cascadeKeys == nil {
		var names []string
		for n := range pr.PropsFromNames {
			names = append(names, n)
		}
		sort.Strings(names)
		for _, n := range names {
			cascadeKeys = append(cascadeKeys, pr.PropsFromNames[n].Key())
		}
	}
	return cascadeKeys
}

// computeAll runs NewHTML + GetAllComputedStyles (+ the page styles) on doc and requests every
// property of every style; it returns the number of styles and of values obtained.
func computeAll(doc string) (styles, values int, err error) {
	h, err := tree.NewHTML(utils.InputString(doc), "", svgFetcher, "")
	if err != nil {
		return 0, 0, err
	}
	cs := make(counters.CounterStyle)
	var rules []tree.PageRule
	tc := tree.NewTargetCollector()
	sf := tree.GetAllComputedStyles(h, nil, false, nil, cs, &rules, &tc, false, nil)
	sf.SetPageComputedStylesT(cascadePageType, h)
	keys := allPropKeys()
	all := func(st pr.ElementStyle) {
		if st == nil { // no style for that (pseudo-)element
			return
		}
		styles++
		for _, k := range keys {
			if st.Get(k) != nil {
				values++
			}
		}
	}
	it := h.Root.Iter()
	for it.HasNext() {
		e := it.Next()
		all(sf.Get(e, ""))
		if e.Data == "p" {
			all(sf.Get(e, "before"))
		}
	}
	all(sf.Get(cascadePageType, ""))
	all(sf.Get(cascadePageType, "@top-left"))
	return styles, values, nil
}

const cascadeEntry = "tree.GetAllComputedStyles"

func runCascade(ctx *engine.Ctx, name, value string) {
	doc := cascadeDoc(name, value)
	tag := "prop=" + name
	desc := cascadeEntry + "|" + tag + "|" + doc
	feats := []string{cascadeEntry, tag}
	var styles, values int
	var err error
	ok := ctx.GuardFail(desc, feats, func() { styles, values, err = computeAll(doc) })
	ctx.Trans(1)
	if !ok {
		ctx.Case(true, "panic")
		return
	}
	ctx.Count("declarations-through-the-cascade", 1)
	if strings.Contains(value, "!") {
		ctx.Count("declarations-through-the-cascade:with-!", 1)
	}
	if err != nil {
		ctx.Case(false, "cascade-error")
		return
	}
	ctx.Case(true, fmt.Sprint("cascade:", styles, " ", values))
}
