package c07

// SVG: every attribute parser is reached through svg.Parse on a minimal document that carries
// exactly one attribute under test.

func newSVGFam(tier string) *strFam {
	T := func(q, t int) int { return pick(tier, q, t) }
	f := &strFam{nm: "svg"}
	doc := func(body string) string { return svgNS + ">" + body + "</svg>" }

	// path data
	pathAlpha := split("MmLlHhVvCcSsQqTtAaZz01.-+eE, ")
	f.add(sp("path.d", pathAlpha, T(4, 5), "", ""), 8192, svgExec(doc(`<path d="%s"/>`), true))
	f.add(sp("path.d-after-moveto", pathAlpha, T(3, 4), "M1,1", ""), 8192, svgExec(doc(`<path d="%s"/>`), true))
	f.add(sp("path.d-numbers", split("01.-+eE, M"), T(5, 7), "L", ""), 8192, svgExec(doc(`<path d="%s"/>`), true))
	num := []string{"0 ", "1 ", "-1 ", ".5 ", "1e9 ", "1e-9 ", "1e99 ", "180 ", "1", "0", "-", ",", "a"}
	f.add(sp("path.d-arc", num, T(5, 7), "M0 0A", ""), 8192, svgExec(doc(`<path d="%s"/>`), true))
	f.add(sp("path.d-commands", []string{"M0 0", "m1 1", "L1 1", "l1", "H1", "h", "V1", "v-1", "C1 1 2 2 3 3", "c1 1", "S1 1 2 2", "s", "Q1 1 2 2", "q1", "T1 1", "t", "A1 1 0 0 1 2 2", "a1 1 0 1 0 2 2", "Z", "z", " ", "1", "X"}, T(3, 4), "", ""), 8192, svgExec(doc(`<path d="%s"/>`), true))

	// transform lists
	trAlpha := append(split("(),01-. e"), "rotate", "translate", "scale", "skewX", "skewY", "skew", "matrix", "px", "%")
	f.add(sp("transform", trAlpha, T(4, 5), "", ""), 8192, svgExec(doc(`<rect width="1" height="1" transform="%s"/>`), true))
	f.add(sp("transform-arguments", append(split("01-., e)"), "px", "em", "%", "1e99"), T(5, 6), "matrix(", ""), 8192, svgExec(doc(`<rect width="1" height="1" transform="%s"/>`), true))
	f.add(sp("gradientTransform", trAlpha, T(3, 4), "", ""), 8192, svgExec(doc(`<linearGradient id="g" gradientTransform="%s"/>`), true))

	// lists of numbers
	numAlpha := append(split("01-+.eE, "), "px", "%", "1e99", "a")
	f.add(sp("viewBox", numAlpha, T(4, 5), "", ""), 8192, svgExec(svgNS+` viewBox="%s"></svg>`, true))
	f.add(sp("marker.viewBox", numAlpha, T(3, 4), "", ""), 8192, svgExec(doc(`<marker id="m" viewBox="%s"/>`), true))
	f.add(sp("polygon.points", numAlpha, T(4, 5), "", ""), 8192, svgExec(doc(`<polygon points="%s"/>`), true))
	f.add(sp("polyline.points", numAlpha, T(3, 4), "", ""), 8192, svgExec(doc(`<polyline points="%s"/>`), true))
	f.add(sp("text.rotate", numAlpha, T(3, 4), "", ""), 8192, svgExec(doc(`<text rotate="%s">a</text>`), true))

	// lengths, numbers, opacities
	lenAlpha := append(split("01-+.eE% ,"), "px", "em", "ex", "Q", "in", "rem", "pt", "none", "auto", "inherit")
	for _, a := range []struct{ tag, tpl string }{
		{"svg.width", svgNS + ` width="%s"></svg>`},
		{"svg.height", svgNS + ` height="%s"></svg>`},
		{"rect.x", doc(`<rect x="%s"/>`)},
		{"rect.width", doc(`<rect width="%s" height="1"/>`)},
		{"rect.rx", doc(`<rect rx="%s" width="1" height="1"/>`)},
		{"rect.ry", doc(`<rect ry="%s" width="1" height="1"/>`)},
		{"circle.r", doc(`<circle r="%s"/>`)},
		{"ellipse.rx", doc(`<ellipse rx="%s" ry="1"/>`)},
		{"ellipse.cy", doc(`<ellipse cy="%s"/>`)},
		{"line.x1", doc(`<line x1="%s"/>`)},
		{"line.y2", doc(`<line y2="%s"/>`)},
		{"stroke-width", doc(`<rect stroke-width="%s"/>`)},
		{"stroke-dasharray", doc(`<rect stroke-dasharray="%s"/>`)},
		{"stroke-dashoffset", doc(`<rect stroke-dashoffset="%s"/>`)},
		{"stroke-miterlimit", doc(`<rect stroke-miterlimit="%s"/>`)},
		{"font-size", doc(`<g font-size="%s"><rect/></g>`)},
		{"opacity", doc(`<rect opacity="%s"/>`)},
		{"fill-opacity", doc(`<rect fill-opacity="%s"/>`)},
		{"stroke-opacity", doc(`<rect stroke-opacity="%s"/>`)},
		{"text.x", doc(`<text x="%s">a</text>`)},
		{"text.dy", doc(`<text dy="%s">a</text>`)},
		{"tspan.dx", doc(`<text><tspan dx="%s">a</tspan></text>`)},
		{"text.letter-spacing", doc(`<text letter-spacing="%s">a</text>`)},
		{"text.textLength", doc(`<text textLength="%s">a</text>`)},
		{"text.font-weight", doc(`<text font-weight="%s">a</text>`)},
		{"marker.markerWidth", doc(`<marker id="m" markerWidth="%s"/>`)},
		{"marker.refX", doc(`<marker id="m" refX="%s"/>`)},
		{"marker.orient", doc(`<marker id="m" orient="%s"/>`)},
		{"linearGradient.x1", doc(`<linearGradient id="g" x1="%s"/>`)},
		{"radialGradient.r", doc(`<radialGradient id="g" r="%s"/>`)},
		{"radialGradient.fx", doc(`<radialGradient id="g" fx="%s"/>`)},
		{"stop.offset", doc(`<linearGradient id="g"><stop offset="%s"/></linearGradient>`)},
		{"stop.stop-opacity", doc(`<linearGradient id="g"><stop stop-opacity="%s"/></linearGradient>`)},
		{"feOffset.dx", doc(`<filter id="f"><feOffset dx="%s"/></filter>`)},
		{"pattern.width", doc(`<pattern id="p" width="%s"/>`)},
		{"mask.x", doc(`<mask id="k" x="%s"/>`)},
		{"image.width", doc(`<image width="%s"/>`)},
		{"use.x", doc(`<rect id="r"/><use href="#r" x="%s"/>`)},
	} {
		f.add(sp(a.tag, lenAlpha, T(3, 4), "", ""), 8192, svgExec(a.tpl, true))
	}

	// keyword-like attributes
	parAlpha := append(split(" xMYa1"), "xMidYMid", "xMinYMax", "none", "meet", "slice", "xMax")
	for _, a := range []struct{ tag, tpl string }{
		{"svg.preserveAspectRatio", svgNS + ` preserveAspectRatio="%s"></svg>`},
		{"marker.preserveAspectRatio", doc(`<marker id="m" preserveAspectRatio="%s"/>`)},
		{"inner-svg.preserveAspectRatio", doc(`<svg preserveAspectRatio="%s"/>`)},
	} {
		f.add(sp(a.tag, parAlpha, T(4, 5), "", ""), 8192, svgExec(a.tpl, true))
	}

	// paints and colours
	paintAlpha := append(split("#f0g ,)a1"), "none", "currentColor", "red", "url(#g)", "url(", "rgb(", "50%", "inherit", "url(#z)", "'", "context-fill")
	for _, a := range []struct{ tag, tpl string }{
		{"fill", doc(`<linearGradient id="g"/><rect fill="%s"/>`)},
		{"stroke", doc(`<linearGradient id="g"/><rect stroke="%s"/>`)},
		{"stop-color", doc(`<linearGradient id="g"><stop stop-color="%s"/></linearGradient>`)},
		{"color", doc(`<g color="%s"><rect fill="currentColor"/></g>`)},
		{"flood-color", doc(`<filter id="f"><feFlood flood-color="%s"/></filter>`)},
	} {
		f.add(sp(a.tag, paintAlpha, T(3, 4), "", ""), 8192, svgExec(a.tpl, true))
	}

	// URL references
	refAlpha := append(split("#ab:/% '()."), "url(", "url(#a)", "#a", "#b", "data:", "image/svg+xml,", "%zz")
	for _, a := range []struct{ tag, tpl string }{
		{"use.href", doc(`<rect id="a"/><g id="b"><use href="%s"/></g>`)},
		{"use.xlink:href", doc(`<rect id="a"/><g id="b"><use xlink:href="%s"/></g>`)},
		{"linearGradient.href", doc(`<linearGradient id="a" href="#b"/><linearGradient id="b" href="%s"/>`)},
		{"pattern.href", doc(`<pattern id="a" href="%s"/>`)},
		{"tref.href", doc(`<text id="a">t</text><text><tref href="%s"/></text>`)},
		{"textPath.href", doc(`<path id="a" d="M0 0L1 1"/><text><textPath href="%s">t</textPath></text>`)},
		{"image.href", doc(`<image href="%s"/>`)},
		{"filter", doc(`<filter id="a"/><rect filter="%s"/>`)},
		{"clip-path", doc(`<clipPath id="a"><rect/></clipPath><rect clip-path="%s"/>`)},
		{"mask", doc(`<mask id="a"/><rect mask="%s"/>`)},
		{"marker-start", doc(`<marker id="a"/><path d="M0 0L1 1" marker-start="%s"/>`)},
	} {
		// small units: these spaces contain self references and 2-cycles (#a, #b), and the engine gives up
		// on a unit after 200 dead workers; the graphs proper are in the svg-references family
		f.add(sp(a.tag, refAlpha, T(3, 4), "", ""), 32, svgExec(a.tpl, true))
	}

	// style attribute and <style> element
	styleAlpha := append(split(":; /,a1-{}()\\'"), "font", "fill", "normal", "10px", "red", "!important", "bold", "inherit")
	f.add(sp("style", styleAlpha, T(3, 4), "", ""), 8192, svgExec(doc(`<rect style="%s"/>`), true))
	fontAlpha := append(split("/,a01 -"), "normal", "bold", "italic", "10px", "50%", "'s'", "1.5", "small-caps", "inherit", "condensed", "caption", "!important")
	f.add(sp("style-font", fontAlpha, T(4, 5), "font:", ""), 8192, svgExec(doc(`<rect style="%s"/>`), true))
	sheetAlpha := append(split("{};:, *>()'"), "a", ".a", "#b", "rect", "fill:red", "font:", "normal", "10px a", "@import", "url(", "!important", "/*", "*/", "x:y", "data:text/css,")
	f.add(sp("style-element", sheetAlpha, T(3, 4), "", ""), 8192, svgExec(doc(`<style>%s</style><rect class="a" id="b"/>`), true))
	f.add(sp("style-element-type", []string{"text/css", "", "a", " ", "TEXT/CSS", "text/css;"}, 2, "", ""), 64, svgExec(doc(`<style type="%s">rect{fill:red}</style><rect/>`), true))
	return f
}
