package c07

import (
	"fmt"
	"sort"
	"strconv"
	"strings"

	"github.com/benoitkugler/webrender/svg"

	"verif/internal/engine"
	"verif/internal/rec"
)

// ---- SVG reference graphs -----------------------------------------------------------------
//
// The string spaces of the svg family explore the SYNTAX of one reference value. This family
// explores the TOPOLOGY: n <= 3 definitions with the ids a, b, c; every definition is one of
// the element kinds that can be referred to, and carries at most one reference (a functional
// graph) written with one of the attributes that name another element, placed on the element
// itself, on a child shape or on a child <use>. The target is a, b, c or the undefined id zz.
// Every function {a,b,c} -> {nothing, a, b, c, zz} is enumerated: self loops, 2-cycles,
// 3-cycles, chains into a cycle, chains that end, dangling references. The document then uses
// every definition in the way its kind is used (fill, clip-path, mask, marker, filter, <use>),
// so that a cycle is entered from outside.
//
// gradient/pattern href and <use> are followed by svg.Parse; clip-path, mask, marker-* and
// paint references are followed when the image is drawn: the parsed image is drawn (no text,
// no fonts) on the recording backend.

type refKind struct {
	tag   string // element name
	attrs string // fixed attributes
	body  string // fixed content
	entry string // how the document uses a definition of this kind; %s = id
}

var refKinds = []refKind{
	{"linearGradient", ``, `<stop offset="0" stop-color="red"/><stop offset="1" stop-color="blue"/>`, `<path d="M0 0L4 4L8 0" fill="url(#%s)"/>`},
	{"radialGradient", ``, `<stop offset="0" stop-color="red"/><stop offset="1" stop-color="blue"/>`, `<path d="M0 0L4 4L8 0" stroke="url(#%s)"/>`},
	{"pattern", ` width="4" height="4" patternUnits="userSpaceOnUse"`, `<rect width="2" height="2"/>`, `<rect width="8" height="8" fill="url(#%s)"/>`},
	{"clipPath", ``, `<rect width="4" height="4"/>`, `<rect width="8" height="8" clip-path="url(#%s)"/>`},
	{"mask", ``, `<rect width="4" height="4" fill="white"/>`, `<rect width="8" height="8" mask="url(#%s)"/>`},
	{"marker", ` markerWidth="2" markerHeight="2"`, `<path d="M0 0L2 1L0 2z"/>`, `<path d="M1 1L5 5L9 1" stroke="black" marker="url(#%s)"/>`},
	{"g", ``, `<rect width="3" height="3"/>`, `<use href="#%s"/>`},
	{"symbol", ``, `<rect width="3" height="3"/>`, `<use xlink:href="#%s" width="4" height="4"/>`},
	{"path", ` d="M0 0L4 4L8 0"`, ``, `<use href="#%s"/>`},
	{"filter", ``, `<feOffset dx="1"/>`, `<rect width="8" height="8" filter="url(#%s)"/>`},
}

// where the reference is written
const (
	onSelf  = iota // attribute of the definition itself
	onChild        // attribute of a child shape
	onUse          // href of a child <use>
)

type refEdge struct {
	place int
	attr  string
}

func (e refEdge) String() string {
	return [...]string{"self", "child", "use"}[e.place] + "." + e.attr
}

var refAttrs = []string{"href", "xlink:href", "clip-path", "mask", "marker", "marker-start", "marker-mid", "marker-end", "fill", "stroke", "filter"}

// every (placement, attribute)
func allRefEdges() (out []refEdge) {
	for _, a := range refAttrs {
		out = append(out, refEdge{onSelf, a})
	}
	for _, a := range refAttrs[2:] {
		out = append(out, refEdge{onChild, a})
	}
	out = append(out, refEdge{onUse, "href"}, refEdge{onUse, "xlink:href"})
	return out
}

// the references that the implementation follows for each kind (read from svg/tree.go
// inheritDefs, svg/elements.go resolveUse, svg/svg.go drawNode/drawMarkers, svg/paint.go)
var naturalEdges = map[string][]refEdge{
	"linearGradient": {{onSelf, "href"}, {onSelf, "xlink:href"}},
	"radialGradient": {{onSelf, "href"}, {onSelf, "xlink:href"}},
	"pattern":        {{onSelf, "href"}, {onSelf, "xlink:href"}, {onChild, "fill"}, {onUse, "href"}},
	"clipPath":       {{onSelf, "clip-path"}, {onChild, "clip-path"}, {onUse, "href"}},
	"mask":           {{onSelf, "mask"}, {onChild, "mask"}, {onChild, "fill"}, {onUse, "href"}},
	"marker":         {{onChild, "marker-start"}, {onChild, "marker-mid"}, {onChild, "marker-end"}, {onChild, "marker"}, {onUse, "href"}},
	"g":              {{onUse, "href"}, {onUse, "xlink:href"}, {onChild, "fill"}, {onChild, "stroke"}, {onSelf, "clip-path"}, {onSelf, "mask"}, {onSelf, "filter"}},
	"symbol":         {{onUse, "href"}, {onChild, "clip-path"}},
	"path":           {{onSelf, "fill"}, {onSelf, "stroke"}, {onSelf, "clip-path"}, {onSelf, "mask"}, {onSelf, "marker-end"}, {onSelf, "marker"}, {onSelf, "filter"}},
	"filter":         nil,
}

// two per kind: the menu of the largest graphs of the quick tier
var coreEdges = map[string][]refEdge{
	"linearGradient": {{onSelf, "href"}, {onSelf, "xlink:href"}},
	"radialGradient": {{onSelf, "href"}},
	"pattern":        {{onSelf, "href"}, {onChild, "fill"}},
	"clipPath":       {{onSelf, "clip-path"}, {onChild, "clip-path"}},
	"mask":           {{onSelf, "mask"}, {onChild, "mask"}},
	"marker":         {{onChild, "marker-start"}, {onChild, "marker"}},
	"g":              {{onUse, "href"}, {onChild, "fill"}},
	"symbol":         {{onUse, "href"}},
	"path":           {{onSelf, "fill"}, {onSelf, "clip-path"}, {onSelf, "marker-end"}},
	"filter":         nil,
}

var refIDs = []string{"a", "b", "c"}

const refDangling = "zz"

// refNode is one definition: its kind, and its reference (edge < 0: none).
type refNode struct {
	kind   int
	edge   refEdge
	target int // index into refIDs, len(refIDs) = dangling; -1 = no reference
}

type refBlock struct {
	name    string
	n       int
	options []refNode // the choices of one definition
	count   int64
	start   int64
}

type refFam struct {
	blocks []refBlock
	total  int64
	batch  int64
}

func refOptions(menu func(kind string) []refEdge, n int, dangling bool) (out []refNode) {
	for k, kd := range refKinds {
		out = append(out, refNode{kind: k, target: -1})
		for _, e := range menu(kd.tag) {
			for t := 0; t < n; t++ {
				out = append(out, refNode{kind: k, edge: e, target: t})
			}
			if dangling {
				out = append(out, refNode{kind: k, edge: e, target: len(refIDs)})
			}
		}
	}
	return out
}

func newRefFam(tier string) *refFam {
	f := &refFam{batch: 16} // small units: under a defect that kills the worker on every cycle, a unit costs one worker per cyclic graph
	all := allRefEdges()
	full := func(string) []refEdge { return all }
	natural := func(k string) []refEdge { return naturalEdges[k] }
	core := func(k string) []refEdge { return coreEdges[k] }
	add := func(name string, n int, opts []refNode) {
		b := refBlock{name: name, n: n, options: opts, count: 1, start: f.total}
		for i := 0; i < n; i++ {
			b.count *= int64(len(opts))
		}
		f.total += b.count
		f.blocks = append(f.blocks, b)
	}
	add("1 definition, every kind x every reference attribute and placement", 1, refOptions(full, 1, true))
	add("2 definitions, every kind x every reference attribute and placement", 2, refOptions(full, 2, true))
	if tier == "thorough" {
		add("3 definitions, the references the implementation follows for each kind", 3, refOptions(natural, 3, true))
	} else {
		add("3 definitions, two references per kind, no dangling target", 3, refOptions(core, 3, false))
	}
	return f
}

func (f *refFam) name() string  { return "svg-references" }
func (f *refFam) nunits() int64 { return (f.total + f.batch - 1) / f.batch }

func (f *refFam) decode(i int64) []refNode {
	k := len(f.blocks) - 1
	for k > 0 && f.blocks[k].start > i {
		k--
	}
	b := &f.blocks[k]
	i -= b.start
	nodes := make([]refNode, b.n)
	m := int64(len(b.options))
	for j := b.n - 1; j >= 0; j-- { // the first definition is the most significant digit
		nodes[j] = b.options[i%m]
		i /= m
	}
	return nodes
}

func refID(t int) string {
	if t >= len(refIDs) {
		return refDangling
	}
	return refIDs[t]
}

func refValue(attr, id string) string {
	if attr == "href" || attr == "xlink:href" {
		return "#" + id
	}
	return "url(#" + id + ")"
}

// refDoc writes the document of a graph, its label (graph in a readable form) and its tags.
func refDoc(nodes []refNode) (doc, label string, tags []string) {
	var defs, uses, lb strings.Builder
	kinds := map[string]bool{}
	via := map[string]bool{}
	for i, nd := range nodes {
		kd := refKinds[nd.kind]
		kinds[kd.tag] = true
		self, child := "", ""
		if nd.target >= 0 {
			v := refValue(nd.edge.attr, refID(nd.target))
			switch nd.edge.place {
			case onSelf:
				self = " " + nd.edge.attr + `="` + v + `"`
			case onChild:
				child = `<path d="M0 0L2 2L4 0" ` + nd.edge.attr + `="` + v + `"/>`
			case onUse:
				child = `<use ` + nd.edge.attr + `="` + v + `"/>`
			}
			via[nd.edge.String()] = true
			fmt.Fprintf(&lb, "%s:%s -%s-> %s; ", refIDs[i], kd.tag, nd.edge, refID(nd.target))
		} else {
			fmt.Fprintf(&lb, "%s:%s; ", refIDs[i], kd.tag)
		}
		fmt.Fprintf(&defs, `<%s id="%s"%s%s>%s%s</%s>`, kd.tag, refIDs[i], kd.attrs, self, kd.body, child, kd.tag)
		fmt.Fprintf(&uses, kd.entry, refIDs[i])
	}
	doc = svgNS + ` width="10" height="10"><defs>` + defs.String() + `</defs>` + uses.String() + `</svg>`
	tags = append(tags, "graph="+refShape(nodes))
	sorted := func(prefix string, m map[string]bool) {
		var l []string
		for k := range m {
			l = append(l, prefix+k)
		}
		sort.Strings(l)
		tags = append(tags, l...)
	}
	sorted("via=", via)
	sorted("kind=", kinds)
	return doc, strings.TrimSuffix(lb.String(), "; "), tags
}

// refShape names the topology: the length of the longest cycle (0: none), whether a chain
// leads into it, whether a reference dangles.
func refShape(nodes []refNode) string {
	n := len(nodes)
	cyc, chain, dangling := 0, false, false
	onCycle := make([]bool, n)
	for s := 0; s < n; s++ {
		// walk from s until the walk stops or repeats
		seen := map[int]int{}
		x, step := s, 0
		for x >= 0 && x < n {
			if at, ok := seen[x]; ok {
				if l := step - at; l > cyc {
					cyc = l
				}
				if x == s {
					onCycle[s] = true
				}
				break
			}
			seen[x] = step
			step++
			x = nodes[x].target
		}
		if x >= n {
			dangling = true
		}
	}
	for s := 0; s < n; s++ {
		if t := nodes[s].target; !onCycle[s] && t >= 0 && t < n {
			// s is outside every cycle: does its walk reach one?
			x := s
			for i := 0; i <= n && x >= 0 && x < n; i++ {
				if onCycle[x] {
					chain = true
				}
				x = nodes[x].target
			}
		}
	}
	switch {
	case cyc == 0 && dangling:
		return "acyclic+dangling"
	case cyc == 0:
		return "acyclic"
	}
	s := strconv.Itoa(cyc) + "-cycle"
	if cyc == 1 {
		s = "self-loop"
	}
	if chain {
		s = "chain-into-" + s
	}
	return s
}

func (f *refFam) run(u int64, ctx *engine.Ctx) {
	lo := u * f.batch
	hi := lo + f.batch
	if hi > f.total {
		hi = f.total
	}
	for i := lo; i < hi; i++ {
		nodes := f.decode(i)
		doc, label, tags := refDoc(nodes)
		tag := strings.Join(tags, "+")
		input := label + " in " + doc
		var img *svg.SVGImage
		call(ctx, "svg.Parse", tag, input, func() (string, bool, string, string) {
			var err error
			img, err = svg.Parse(strings.NewReader(doc), "", svgImageLoader, svgFetcher)
			switch {
			case err != nil && img != nil:
				return "both", true, "result-xor-error", "svg.Parse returned an image AND an error: " + err.Error()
			case err == nil && img == nil:
				return "neither", true, "result-xor-error", "svg.Parse returned neither an image nor an error"
			case err != nil:
				img = nil
				return "error", false, "", ""
			}
			return "ok", true, "", ""
		})
		ctx.Trans(int64(len(nodes)))
		if img == nil {
			continue
		}
		call(ctx, "svg.SVGImage.Draw", tag, input, func() (string, bool, string, string) {
			d := rec.New()
			img.Draw(d.AddPage(0, 0, 10, 10), 10, 10, nil)
			n := 0
			if len(d.Pages) > 0 {
				n = len(rec.Flat(d.Pages[0].Events))
			}
			return "drawn:" + strconv.Itoa(n), n > 0, "", ""
		})
		ctx.Count("svg-reference-graphs-drawn", 1)
	}
}

func (f *refFam) describe(u int64) any {
	lo := u * f.batch
	if lo >= f.total {
		lo = f.total - 1
	}
	_, label, _ := refDoc(f.decode(lo))
	return map[string]any{"family": "svg-references", "first_graph": label, "documents": f.batch}
}

func (f *refFam) bounds() any {
	m := map[string]any{}
	for _, b := range f.blocks {
		m[b.name] = map[string]any{"definitions": b.n, "choices_per_definition": len(b.options), "graphs": b.count}
	}
	var kinds, edges []string
	for _, k := range refKinds {
		kinds = append(kinds, k.tag)
	}
	for _, e := range allRefEdges() {
		edges = append(edges, e.String())
	}
	m["kinds"] = kinds
	m["references"] = edges
	m["targets"] = "a, b, c (the definitions) and the undefined id zz; every definition is also used by the document"
	m["graphs_total"] = f.total
	return m
}
