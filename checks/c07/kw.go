package c07

// Per-property keyword tables, read as DATA from the source of css/validation.
//
// The validators keep their keywords in switch statements and small maps, not in one exported
// table. To give every property an alphabet with one symbol per branch of ITS validator, the
// source files of the package are parsed (go/parser only, no type checking) and, for every
// top-level function and variable, the string literals it mentions and the top-level
// identifiers it refers to are collected. The keywords of a property are the identifier-like
// literals reachable from its validator function (tables `validators`, `validatorsError`,
// `expanders`, `fontFaceDescriptors`, `counterStyleDescriptors`), without crossing the generic
// dispatchers (which would reach every validator).
//
// Nothing of this is used as an oracle: it only widens the alphabet. When the source cannot be
// read, the check still runs with the common menu and says so in its assumptions.

import (
	"go/ast"
	"go/parser"
	"go/token"
	"os"
	"path/filepath"
	"regexp"
	"runtime/debug"
	"sort"
	"strconv"
	"strings"
)

type symInfo struct {
	lits   []string
	idents []string // every identifier mentioned
	calls  []string // identifiers in call position
	isFunc bool
}

type kwTable struct {
	syms    map[string]*symInfo
	entries map[string][]string // table name -> key (Go selector name such as PColor, or string key) -> function idents
	tables  map[string]map[string][]string
	err     string
}

func repoDir() string {
	if d := os.Getenv("VERIF_REPO"); d != "" {
		return d
	}
	if bi, ok := debug.ReadBuildInfo(); ok {
		for _, d := range bi.Deps {
			if d.Path == "github.com/benoitkugler/webrender" && d.Replace != nil && d.Replace.Path != "" {
				return d.Replace.Path
			}
		}
	}
	return "/repo"
}

// dispatchers and tables that must not be crossed when computing a closure.
var kwStop = map[string]bool{
	"validators": true, "validatorsError": true, "expanders": true, "allValidators": true,
	"validateNonShorthand": true, "ValidateKnown": true, "Validate": true, "ExpandValidatePending": true,
	"PreprocessDeclarations": true, "PreprocessDeclarationsPrelude": true, "preprocessDescriptors": true,
	"fontFaceDescriptors": true, "counterStyleDescriptors": true, "notPrintMedia": true,
	"proprietary": true, "unstable": true,
	// unit tables: units are in the common menu, one per family
	"LENGTHUNITS": true, "AngleUnits": true, "RESOLUTIONTODPPX": true, "ANGLETORADIANS": true, "attrFallbacks": true,
}

var kwTablesWanted = map[string]bool{
	"validators": true, "validatorsError": true, "expanders": true, "borderExpanders": true,
	"fontFaceDescriptors": true, "counterStyleDescriptors": true,
}

func collect(n ast.Node, into *symInfo) {
	if n == nil {
		return
	}
	ast.Inspect(n, func(x ast.Node) bool {
		switch v := x.(type) {
		case *ast.BasicLit:
			if v.Kind == token.STRING {
				if s, err := strconv.Unquote(v.Value); err == nil {
					into.lits = append(into.lits, s)
				}
			}
		case *ast.Ident:
			into.idents = append(into.idents, v.Name)
		case *ast.CallExpr:
			if id, ok := v.Fun.(*ast.Ident); ok {
				into.calls = append(into.calls, id.Name)
			}
		case *ast.SelectorExpr:
			// constants of the keywords package: kw.FlexStart -> "flex-start"
			if x, ok := v.X.(*ast.Ident); ok && x.Name == "kw" {
				into.lits = append(into.lits, goNameToCSS("K"+v.Sel.Name))
			}
		}
		return true
	})
}

func loadKwTable() (t *kwTable) {
	t = &kwTable{syms: map[string]*symInfo{}, tables: map[string]map[string][]string{}}
	defer func() {
		if r := recover(); r != nil {
			t.err = "panic while reading the validators' source"
		}
	}()
	dir := filepath.Join(repoDir(), "css", "validation")
	fset := token.NewFileSet()
	pkgs, err := parser.ParseDir(fset, dir, func(fi os.FileInfo) bool { return !strings.HasSuffix(fi.Name(), "_test.go") }, 0)
	if err != nil || len(pkgs) == 0 {
		t.err = "cannot parse " + dir
		return t
	}
	var files []*ast.File
	for _, p := range pkgs {
		var names []string
		for n := range p.Files {
			names = append(names, n)
		}
		sort.Strings(names)
		for _, n := range names {
			files = append(files, p.Files[n])
		}
	}
	for _, f := range files {
		for _, d := range f.Decls {
			switch d := d.(type) {
			case *ast.FuncDecl:
				si := &symInfo{isFunc: true}
				collect(d.Body, si)
				if old := t.syms[d.Name.Name]; old != nil { // method with the same name as a function
					si.lits = append(si.lits, old.lits...)
					si.idents = append(si.idents, old.idents...)
					si.calls = append(si.calls, old.calls...)
				}
				t.syms[d.Name.Name] = si
			case *ast.GenDecl:
				for _, sp := range d.Specs {
					vs, ok := sp.(*ast.ValueSpec)
					if !ok {
						continue
					}
					for i, name := range vs.Names {
						si := &symInfo{}
						if len(vs.Values) == len(vs.Names) {
							collect(vs.Values[i], si)
							if kwTablesWanted[name.Name] {
								t.readTable(name.Name, vs.Values[i])
							}
						} else {
							for _, v := range vs.Values {
								collect(v, si)
							}
						}
						t.syms[name.Name] = si
					}
				}
			}
		}
	}
	return t
}

// readTable reads a composite literal `{ key: value, ... }` whose keys are pr.PXxx selectors or
// string literals; it records the identifiers of each value (or, for an array without keys, the
// index as key).
func (t *kwTable) readTable(name string, v ast.Expr) {
	cl, ok := v.(*ast.CompositeLit)
	if !ok {
		return
	}
	m := map[string][]string{}
	for i, el := range cl.Elts {
		key := strconv.Itoa(i)
		val := ast.Expr(el)
		if kv, ok := el.(*ast.KeyValueExpr); ok {
			val = kv.Value
			switch k := kv.Key.(type) {
			case *ast.SelectorExpr:
				key = k.Sel.Name
			case *ast.BasicLit:
				if s, err := strconv.Unquote(k.Value); err == nil {
					key = s
				}
			}
		}
		si := &symInfo{}
		collect(val, si)
		m[key] = si.idents
	}
	t.tables[name] = m
}

var kwRe = regexp.MustCompile(`^-?[a-zA-Z][a-zA-Z0-9-]*$`)

// closure returns the sorted identifier-like literals reachable from the given symbols.
func (t *kwTable) closure(roots []string, skipLit map[string]bool) []string {
	seen := map[string]bool{}
	lits := map[string]bool{}
	queue := append([]string(nil), roots...)
	for len(queue) > 0 {
		s := queue[0]
		queue = queue[1:]
		if seen[s] || kwStop[s] {
			continue
		}
		seen[s] = true
		si := t.syms[s]
		if si == nil {
			continue
		}
		for _, l := range si.lits {
			if len(l) <= 32 && kwRe.MatchString(l) && !skipLit[l] {
				lits[l] = true
			}
		}
		// functions are followed when called; variables (keyword tables) when mentioned. Inside a
		// variable initializer (a table of functions) every mention counts.
		for _, id := range si.calls {
			if !seen[id] && t.syms[id] != nil {
				queue = append(queue, id)
			}
		}
		for _, id := range si.idents {
			if tg := t.syms[id]; tg != nil && !seen[id] && (!tg.isFunc || !si.isFunc) {
				queue = append(queue, id)
			}
		}
	}
	out := make([]string, 0, len(lits))
	for l := range lits {
		out = append(out, l)
	}
	sort.Strings(out)
	return out
}

// goNameToCSS turns PBorderTopColor / SBorderTop into border-top-color / border-top.
func goNameToCSS(n string) string {
	if len(n) < 2 {
		return ""
	}
	n = n[1:]
	var sb strings.Builder
	for i, r := range n {
		if r >= 'A' && r <= 'Z' {
			if i > 0 {
				sb.WriteByte('-')
			}
			sb.WriteRune(r + ('a' - 'A'))
		} else {
			sb.WriteRune(r)
		}
	}
	return sb.String()
}
