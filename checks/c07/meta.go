package c07

import (
	"fmt"
	"sort"
	"strings"
	"time"

	"github.com/benoitkugler/webrender/html/tree"
	"github.com/benoitkugler/webrender/utils"

	"verif/internal/engine"
)

// ---- long digit runs ----------------------------------------------------------------------
//
// Every reader of a numeric field converts a run of digits somewhere (strconv.Atoi, ParseFloat,
// a hand-written loop, a regular expression group). The runs below sit on the boundaries of
// the integer types such a conversion can use.

const (
	maxInt64 = "9223372036854775807"
	minInt64 = "9223372036854775808" // MaxInt64+1: the first value Atoi refuses (its negation is MinInt64)
	two64    = "18446744073709551616"
)

var digitRuns = []string{
	strings.Repeat("9", 10), // above int32 and uint32
	"2147483647", "2147483648", "4294967296",
	strings.Repeat("9", 18), // the longest run of nines an int64 holds
	maxInt64, minInt64,
	strings.Repeat("9", 19), // 19 digits above MaxInt64
	"18446744073709551615", two64,
	strings.Repeat("9", 20), strings.Repeat("9", 21),
	strings.Repeat("9", 40),
	strings.Repeat("0", 19) + "2", // long, but a small value
}

// the shapes in which a reader meets a number; N is replaced by each run
var numberShapes = []string{"N", "-N", "+N", " N", "N ", "N.5", "1.N", ".N", "Npx", "N%", "1eN", "1e-N", "NeN", "#N", "N,N"}

func longNumberValues() (out []string) {
	for _, sh := range numberShapes {
		for _, r := range digitRuns {
			out = append(out, strings.ReplaceAll(sh, "N", r))
		}
	}
	return out
}

// ---- W3C dates (<meta name=dcterms.created|dcterms.modified content=...>) --------------------
//
// YYYY[-MM[-DD[Thh:mm[:ss[.s+]](Z|+hh:mm)]]] (utils/html.go parseW3cDate, read by
// GetHtmlMetadata). A date is a sequence of segments, each a separator followed by a numeric
// field. A case takes one of the valid forms and replaces 1, 2 (thorough: 3) of its segments
// by an alternative: the field at both ends of its range, just outside it, one digit short,
// one digit long, empty, not a number, each long digit run; or the separator missing / wrong.

type dateSeg struct {
	name, sep, digits string
	fields            []string // alternatives for the digits (the separator is kept)
	seps              []string // alternatives for the separator (the digits are kept)
}

var dateSegs = []dateSeg{
	{"prefix", "", "", []string{" ", "\n\t", "x", "0", "-"}, nil},
	{"year", "", "2011", []string{"0000", "9999", "1", "201", "20111"}, nil},
	{"month", "-", "04", []string{"01", "12", "00", "13", "4", "004"}, []string{"", "/", "--"}},
	{"day", "-", "21", []string{"01", "31", "00", "32", "2", "021"}, []string{"", "/"}},
	{"hour", "T", "23", []string{"00", "24", "2", "023"}, []string{"", " ", "t"}},
	{"minute", ":", "00", []string{"59", "60", "0", "000"}, []string{"", "."}},
	{"second", ":", "00", []string{"59", "60", "0", "000"}, []string{"", "."}},
	{"fraction", ".", "45", []string{"0", "4", "450000000", "4500000001"}, []string{"", ",", ":"}},
	{"Z", "Z", "", []string{"0", "Z"}, []string{"", "z", " Z"}},
	{"tzHour", "+", "01", []string{"00", "23", "24", "1", "001"}, []string{"", "-", " "}},
	{"tzMinute", ":", "00", []string{"59", "60", "0", "000"}, []string{"", "."}},
	{"suffix", "", "", []string{" ", "\n", "x", "0", "Z"}, nil},
}

var dateOther = []string{"", "a", "١٢", "-1"}

// the valid forms, as lists of segment indices
var dateForms = [][]int{
	{0, 1, 11},
	{0, 1, 2, 11},
	{0, 1, 2, 3, 11},
	{0, 1, 2, 3, 4, 5, 8, 11},
	{0, 1, 2, 3, 4, 5, 6, 8, 11},
	{0, 1, 2, 3, 4, 5, 6, 7, 8, 11},
	{0, 1, 2, 3, 4, 5, 9, 10, 11},
	{0, 1, 2, 3, 4, 5, 6, 9, 10, 11},
	{0, 1, 2, 3, 4, 5, 6, 7, 9, 10, 11},
}

var dateMetaNames = []string{"dcterms.created", "dcterms.modified"}

// alternatives of one segment: whole replacement texts
func (s dateSeg) alts() (out []string) {
	for _, f := range s.fields {
		out = append(out, s.sep+f)
	}
	if s.name != "prefix" && s.name != "suffix" && s.name != "Z" {
		for _, f := range dateOther {
			out = append(out, s.sep+f)
		}
		for _, r := range digitRuns {
			out = append(out, s.sep+r)
		}
	} else {
		out = append(out, s.sep+strings.Repeat("9", 19), s.sep+strings.Repeat("9", 20))
	}
	for _, sp := range s.seps {
		out = append(out, sp+s.digits)
	}
	return out
}

type dateBlock struct {
	meta  int
	form  int
	devs  []int // positions (in the form) of the deviating segments
	count int64
	start int64
}

type metaFam struct {
	alts   [][]string // per segment
	blocks []dateBlock
	total  int64
	batch  int64
	maxDev int
}

func newMetaFam(tier string) *metaFam {
	f := &metaFam{batch: 4096, maxDev: pick(tier, 2, 3)}
	for _, s := range dateSegs {
		f.alts = append(f.alts, s.alts())
	}
	for m := range dateMetaNames {
		for fi, form := range dateForms {
			var rec func(from int, devs []int)
			rec = func(from int, devs []int) {
				b := dateBlock{meta: m, form: fi, devs: append([]int(nil), devs...), count: 1, start: f.total}
				for _, p := range devs {
					b.count *= int64(len(f.alts[form[p]]))
				}
				f.total += b.count
				f.blocks = append(f.blocks, b)
				if len(devs) == f.maxDev {
					return
				}
				for p := from; p < len(form); p++ {
					rec(p+1, append(devs, p))
				}
			}
			rec(0, nil)
		}
	}
	// shortest first: blocks ordered by the number of deviations
	sort.SliceStable(f.blocks, func(i, j int) bool { return len(f.blocks[i].devs) < len(f.blocks[j].devs) })
	f.total = 0
	for i := range f.blocks {
		f.blocks[i].start = f.total
		f.total += f.blocks[i].count
	}
	return f
}

func (f *metaFam) name() string  { return "html-metadata" }
func (f *metaFam) nunits() int64 { return (f.total + f.batch - 1) / f.batch }

// at returns the meta name, the date string and the names of the deviating segments of case i.
func (f *metaFam) at(i int64) (meta, date string, devs []string) {
	k := sort.Search(len(f.blocks), func(k int) bool { return f.blocks[k].start > i }) - 1
	b := &f.blocks[k]
	i -= b.start
	form := dateForms[b.form]
	repl := map[int]string{}
	for j := len(b.devs) - 1; j >= 0; j-- {
		a := f.alts[form[b.devs[j]]]
		repl[b.devs[j]] = a[i%int64(len(a))]
		i /= int64(len(a))
	}
	var sb strings.Builder
	for p, s := range form {
		if r, ok := repl[p]; ok {
			sb.WriteString(r)
			devs = append(devs, dateSegs[s].name)
		} else {
			sb.WriteString(dateSegs[s].sep + dateSegs[s].digits)
		}
	}
	return dateMetaNames[b.meta], sb.String(), devs
}

func metaDoc(name, content string) string {
	return `<html><head><meta name="` + name + `" content="` + strings.NewReplacer("&", "&amp;", "\"", "&quot;").Replace(content) + `"></head><body>x</body></html>`
}

func metadataKey(m utils.DocumentMetadata) string {
	t := func(x time.Time) string {
		if x.IsZero() {
			return "-"
		}
		return x.Format(time.RFC3339Nano)
	}
	return fmt.Sprintf("created=%s modified=%s authors=%d keywords=%d attachments=%d", t(m.Created), t(m.Modified), len(m.Authors), len(m.Keywords), len(m.Attachments))
}

func (f *metaFam) run(u int64, ctx *engine.Ctx) {
	lo := u * f.batch
	hi := lo + f.batch
	if hi > f.total {
		hi = f.total
	}
	for i := lo; i < hi; i++ {
		name, date, devs := f.at(i)
		doc := metaDoc(name, date)
		call(ctx, "utils.GetHtmlMetadata", "meta="+name, date, func() (string, bool, string, string) {
			h, err := tree.NewHTML(utils.InputString(doc), "", svgFetcher, "")
			if err != nil {
				return "error", false, "", ""
			}
			m := h.GetMetadata()
			accepted := !m.Created.IsZero() || !m.Modified.IsZero()
			return metadataKey(m), accepted, "", ""
		})
		ctx.Trans(int64(len(devs)))
	}
}

func (f *metaFam) describe(u int64) any {
	lo := u * f.batch
	if lo >= f.total {
		lo = f.total - 1
	}
	name, date, devs := f.at(lo)
	return map[string]any{"family": "html-metadata", "first_case": metaDoc(name, date), "deviating_segments": devs, "documents": f.batch}
}

func (f *metaFam) bounds() any {
	segs := map[string]any{}
	for i, s := range dateSegs {
		segs[s.name] = map[string]any{"valid": s.sep + s.digits, "alternatives": f.alts[i]}
	}
	var forms []string
	for _, form := range dateForms {
		var sb strings.Builder
		for _, s := range form {
			sb.WriteString(dateSegs[s].sep + dateSegs[s].digits)
		}
		forms = append(forms, sb.String())
	}
	return map[string]any{"meta_names": dateMetaNames, "valid_forms": forms, "segments": segs, "deviating_segments_per_date": f.maxDev, "documents": f.total, "digit_runs": digitRuns}
}
