package c07

import "strings"

// Menus of var() nestings and of comments around `!important` (declaration plans "1v", "2v-*",
// "important"). Built by rule, not by hand: HasVar / resolveVarSeen (css/validation/utils.go,
// html/tree/style.go) branch on (a) the kind of the FIRST argument of a var() – custom property
// name, other identifier, number, string, url, function, nothing –, (b) whether a well formed
// var() occurs deeper (in the first argument, in the fallback, in another function), (c) whether
// the variable is defined, undefined or cyclic; parseDeclaration (css/parser/parser.go) branches
// on comment / white space / `!` / `important` / other tokens and keeps an index into the value.

var (
	// well formed var(): defined, undefined, cyclic variable
	varInner = []string{"var(--a)", "var(--u)", "var(--c)"}
	// first arguments that are not a custom property name, one per token kind
	varBadFirst = []string{"a", "1", "\"s\"", "url(x)", "calc(1px)"}
)

// varLevel1: one function around the atoms.
func varLevel1() (out []string) {
	out = append(out, varInner...)
	for _, m := range varBadFirst {
		out = append(out, "var("+m+")")
	}
	for _, m := range append(append([]string{}, varBadFirst...), "") {
		for _, i := range varInner {
			out = append(out, "var("+m+", "+i+")")
		}
	}
	for _, i := range varInner {
		out = append(out, "calc("+i+")", "min("+i+", 1px)")
	}
	for _, i := range varInner {
		out = append(out, "var(--a, "+i+")", "var(--u, "+i+")")
	}
	// the variable that is defined and empty
	out = append(out, "var(--e)", "var(--e, var(--a))")
	return out
}

// varWrap: every way the code meets x one level further down: as the first argument of a var(),
// with a fallback after it, as the fallback of a malformed / an undefined var(), in a function.
func varWrap(l []string) (out []string) {
	for _, x := range l {
		out = append(out, "var("+x+")", "var("+x+", 1px)", "var(1, "+x+")", "var(--u, "+x+")", "calc("+x+")", "calc("+x+" + 1px)")
	}
	return out
}

func hasVarText(s string) bool { return strings.Contains(strings.ToLower(s), "var(") }

// varBasic: the var() forms of the core and extended menus.
func varBasic() (out []string) {
	for _, s := range append(append([]string{}, menuCore...), menuExt...) {
		if hasVarText(s) {
			out = append(out, s)
		}
	}
	return out
}

// varMenu: the menu of plan "1v": levels 1 and 2 (thorough: 3).
func varMenu(tier string) []string {
	l1 := varLevel1()
	l2 := varWrap(l1)
	out := append(append(varBasic(), l1...), l2...)
	if tier == "thorough" {
		out = append(out, varWrap(l2)...)
	}
	return uniq(out)
}

// varSmall: the forms that are paired with a neighbour (plans "2v-first", "2v-second"): the basic
// ones, one malformed var() per kind of first argument around a well formed one, the function and
// fallback positions, and two forms of level 2.
var varSmallExtra = []string{
	"var(a)", "var(1, var(--a))", "var(\"s\", var(--a))", "var(url(x), var(--a))", "var(calc(1px), var(--a))", "var(, var(--a))",
	"calc(var(--a))", "min(var(--a), 1px)", "var(--u, var(--a))", "var(--a, var(--c))",
	"var(calc(var(--a)))", "var(min(var(--a), 1px))",
}

func varSmall() []string { return uniq(append(varBasic(), varSmallExtra...)) }

// the neighbours of the var() forms (quick; thorough: these and menuNeighbours)
var menuVarNeighbours = []string{",", "/", "10px", "red", "a", "url(a)"}

// commentSeqs: every sequence of 0..n tokens over {comment, value token}.
func commentSeqs(n int) []string {
	out := []string{""}
	prev := []string{""}
	for k := 1; k <= n; k++ {
		var next []string
		for _, s := range prev {
			next = append(next, s+"/**/", s+"1px ")
		}
		out = append(out, next...)
		prev = next
	}
	return out
}

// the end of the value: nothing, `!important` in its shapes (white space and comments may stand
// between `!` and `important` and after it)
var menuImportant = []string{"!important", "!important /**/", "! /**/ important", ""}
