package c07

import (
	"fmt"
	"os"
	"sort"
	"strings"

	pa "github.com/benoitkugler/webrender/css/parser"
	pr "github.com/benoitkugler/webrender/css/properties"
	"github.com/benoitkugler/webrender/css/validation"
	"github.com/benoitkugler/webrender/html/tree"
	"github.com/benoitkugler/webrender/utils"

	"verif/internal/engine"
)

// ---- the validator family ---------------------------------------------------------------
//
// A "target" is a declaration name (property, shorthand, alias, custom property, unknown name)
// or a descriptor name of @font-face / @counter-style. For each target a list of "plans" is
// enumerated; a plan is a product of menus (one per token position). A unit is one plan of one
// target, or – for plans of 3 and more positions – one plan with its first token fixed.

const (
	kindDecl = iota
	kindFontFace
	kindCounterStyle
)

type target struct {
	kind int
	name string
	own  []string // the target's own keywords (read from the validators' source)
}

type plan struct {
	name    string
	menus   [][]string
	cascade int // cascadeNever / cascadeVar / cascadeAlways: declarations also go through the cascade (cascade.go)
}

type declUnit struct {
	target int
	plan   int
	first  int // -1: whole plan
}

type declFam struct {
	targets []target
	plans   [][]plan // per target
	units   []declUnit
	kwErr   string
	tier    string
	nOwn    int
	gaps    []string
}

func (f *declFam) name() string { return "declarations" }

func uniq(l []string) []string {
	seen := map[string]bool{}
	var out []string
	for _, s := range l {
		if !seen[s] {
			seen[s] = true
			out = append(out, s)
		}
	}
	return out
}

func capList(l []string, n int) []string {
	if len(l) > n {
		return l[:n]
	}
	return l
}

// longhandsOf returns the long-hand names a shorthand expands to (through `inherit`).
func longhandsOf(name string) (out []string) {
	defer func() {
		if recover() != nil {
			out = nil
		}
	}()
	for _, d := range validation.PreprocessDeclarations("", pa.ParseBlocksContentsString(name+":inherit")) {
		out = append(out, d.Name.KnownProp.String())
	}
	return out
}

func newDeclFam(tier string) *declFam {
	f := &declFam{tier: tier}
	kt := loadKwTable()
	f.kwErr = kt.err

	skip := map[string]bool{}
	for u := range validation.LENGTHUNITS {
		skip[u] = true
	}
	for u := range validation.AngleUnits {
		skip[u] = true
	}
	for u := range validation.RESOLUTIONTODPPX {
		skip[u] = true
	}
	for _, s := range menuCore {
		skip[s] = true
	}

	// --- function roots per CSS name, from the dispatch tables
	roots := map[string][]string{}
	for _, tb := range []string{"validators", "validatorsError"} {
		for key, ids := range kt.tables[tb] {
			n := goNameToCSS(key)
			if _, ok := pr.PropsFromNames[n]; !ok {
				f.gaps = append(f.gaps, tb+"["+key+"]")
				continue
			}
			roots[n] = append(roots[n], ids...)
		}
	}
	roots["color"] = append(roots["color"], "color")
	shRoots := map[string][]string{}
	for key, ids := range kt.tables["expanders"] {
		n := goNameToCSS(key)
		if pr.NewShortand(n) == 0 {
			f.gaps = append(f.gaps, "expanders["+key+"]")
			continue
		}
		shRoots[n] = ids
	}
	// keyword tables that live in the properties package (exported maps, read as data)
	extra := map[string][]string{}
	for k := range pr.FontSizeKeywords {
		extra["font-size"] = append(extra["font-size"], k)
	}
	for k := range pr.PageSizes {
		extra["size"] = append(extra["size"], k)
	}
	ownLong := map[string][]string{}
	ownOf := func(n string) []string {
		if o, ok := ownLong[n]; ok {
			return o
		}
		o := kt.closure(roots[n], skip)
		o = uniq(append(o, extra[n]...))
		sort.Strings(o)
		ownLong[n] = o
		return o
	}

	// --- declaration names
	var names []string
	for n := range pr.PropsFromNames {
		names = append(names, n)
	}
	sort.Strings(names)
	var shorthands []string
	for sh := pr.Shortand(1); sh.String() != ""; sh++ {
		shorthands = append(shorthands, sh.String())
	}
	for _, n := range names {
		f.targets = append(f.targets, target{kind: kindDecl, name: n, own: ownOf(n)})
	}
	for _, n := range shorthands {
		own := kt.closure(shRoots[n], skip)
		for _, l := range longhandsOf(n) {
			own = append(own, ownOf(l)...)
		}
		own = uniq(own)
		sort.Strings(own)
		f.targets = append(f.targets, target{kind: kindDecl, name: n, own: own})
	}
	// legacy aliases, prefixes, custom property, unknown and not-for-print names, case variants
	alias := func(n, like string) {
		var own []string
		for _, t := range f.targets {
			if t.name == like {
				own = t.own
			}
		}
		f.targets = append(f.targets, target{kind: kindDecl, name: n, own: own})
	}
	alias("-weasy-anchor", "anchor")
	alias("-weasy-link", "link")
	alias("-weasy-lang", "lang")
	alias("-weasy-hyphens", "hyphens")
	alias("-weasy-bookmark-label", "bookmark-label")
	alias("-weasy-string-set", "string-set")
	alias("-weasy-size", "size")
	alias("-weasy-column-count", "column-count")
	alias("-weasy-color", "color")
	alias("-weasy-unknown", "")
	alias("-moz-x", "")
	alias("--x", "")
	alias("--", "")
	alias("unknown", "")
	alias("cursor", "")
	alias("COLOR", "color")
	alias("Font", "font")
	alias("BORDER-RADIUS", "border-radius")
	alias("overflow", "")
	alias("gap", "")
	alias("inset", "")
	alias("place-items", "")

	// --- descriptors
	for _, tb := range []struct {
		table string
		kind  int
		extra []string
	}{
		{"fontFaceDescriptors", kindFontFace, []string{"font-display", "unknown", "FONT-FAMILY", "unicode-range"}},
		{"counterStyleDescriptors", kindCounterStyle, []string{"speak-as", "unknown", "SYSTEM"}},
	} {
		var keys []string
		for k := range kt.tables[tb.table] {
			keys = append(keys, k)
		}
		if len(keys) == 0 { // source not readable: the documented descriptor names
			if tb.kind == kindFontFace {
				keys = []string{"font-family", "src", "font-style", "font-weight", "font-stretch", "font-feature-settings", "font-variant"}
			} else {
				keys = []string{"system", "negative", "prefix", "suffix", "range", "pad", "fallback", "symbols", "additive-symbols"}
			}
		}
		sort.Strings(keys)
		for _, k := range keys {
			own := kt.closure(kt.tables[tb.table][k], skip)
			if k == "font-variant" {
				own = append(own, ownOfTarget(f.targets, "font-variant")...)
				own = uniq(own)
				sort.Strings(own)
			}
			f.targets = append(f.targets, target{kind: tb.kind, name: k, own: own})
		}
		for _, k := range tb.extra {
			f.targets = append(f.targets, target{kind: tb.kind, name: k})
		}
	}

	sort.Strings(f.gaps)

	// --- plans
	vAll, vSmall := varMenu(tier), varSmall()
	vNb := menuVarNeighbours
	cSeqs := commentSeqs(pick(tier, 4, 5))
	if tier == "thorough" {
		vNb = uniq(append(append([]string{}, menuVarNeighbours...), menuNeighbours...))
	}
	for ti := range f.targets {
		t := &f.targets[ti]
		f.nOwn += len(t.own)
		ownIdents := uniq(append(append([]string{}, menuOwnExtra[strings.ToLower(strings.TrimPrefix(t.name, "-weasy-"))]...), t.own...))
		var ownFuncs []string
		for _, k := range t.own {
			ownFuncs = append(ownFuncs, k+"()")
		}
		full := uniq(append(append([]string{}, menuCore...), ownIdents...))
		ext := uniq(append(append([]string{}, menuExt...), ownFuncs...))
		nb := menuNeighbours
		c3 := uniq(append(append([]string{}, menuCore3...), capList(ownIdents, 24)...))
		var ps []plan
		ps = append(ps, plan{name: "1", menus: [][]string{full}})
		ps = append(ps, plan{name: "2", menus: [][]string{full, full}})
		ps = append(ps, plan{name: "1x", menus: [][]string{ext}})
		if tier == "thorough" {
			all := uniq(append(append([]string{}, full...), ext...))
			ps = append(ps, plan{name: "2x-first", menus: [][]string{ext, all}})
			ps = append(ps, plan{name: "2x-second", menus: [][]string{full, ext}})
			ps = append(ps, plan{name: "3", menus: [][]string{full, full, full}})
			c4 := uniq(append(append([]string{}, menuCore4...), capList(ownIdents, 12)...))
			ps = append(ps, plan{name: "4", menus: [][]string{c4, c4, c4, c4}})
		} else {
			ps = append(ps, plan{name: "2x-first", menus: [][]string{ext, nb}})
			ps = append(ps, plan{name: "2x-second", menus: [][]string{nb, ext}})
			ps = append(ps, plan{name: "3", menus: [][]string{c3, c3, c3}})
		}
		// var() nestings, alone and beside a neighbour; comments in the value before `!important`.
		// Declarations of these plans are also computed (cascade.go); descriptors have no cascade.
		ps = append(ps, plan{name: "1v", menus: [][]string{vAll}, cascade: cascadeVar})
		ps = append(ps, plan{name: "2v-first", menus: [][]string{vSmall, vNb}, cascade: cascadeVar})
		ps = append(ps, plan{name: "2v-second", menus: [][]string{vNb, vSmall}, cascade: cascadeVar})
		ps = append(ps, plan{name: "important", menus: [][]string{cSeqs, menuImportant}, cascade: cascadeAlways})
		if os.Getenv("C07_SUB") != "" {
			var keep []plan
			for _, p := range ps {
				if subWanted(p.name) {
					keep = append(keep, p)
				}
			}
			ps = keep
		}
		f.plans = append(f.plans, ps)
		for pi, p := range ps {
			if len(p.menus) >= 3 || planSize(p) > 6000 {
				for i := range p.menus[0] {
					f.units = append(f.units, declUnit{ti, pi, i})
				}
			} else {
				f.units = append(f.units, declUnit{ti, pi, -1})
			}
		}
	}
	return f
}

func ownOfTarget(ts []target, name string) []string {
	for _, t := range ts {
		if t.name == name {
			return t.own
		}
	}
	return nil
}

func pick3(tier string, q, t []string) []string {
	if tier == "thorough" {
		return t
	}
	return q
}

func planSize(p plan) int64 {
	n := int64(1)
	for _, m := range p.menus {
		n *= int64(len(m))
	}
	return n
}

func (f *declFam) nunits() int64 { return int64(len(f.units)) }

func (f *declFam) total() (cases int64) {
	for ti := range f.targets {
		for _, p := range f.plans[ti] {
			cases += planSize(p)
		}
	}
	return
}

func (f *declFam) describe(u int64) any {
	du := f.units[u]
	t := f.targets[du.target]
	p := f.plans[du.target][du.plan]
	m := map[string]any{"family": "declarations", "name": t.name, "kind": []string{"declaration", "@font-face descriptor", "@counter-style descriptor"}[t.kind],
		"plan": p.name, "positions": len(p.menus), "cases": planSize(p)}
	if du.first >= 0 {
		m["first_token"] = p.menus[0][du.first]
		m["cases"] = planSize(p) / int64(len(p.menus[0]))
	}
	return m
}

func (f *declFam) bounds() any {
	sizes := map[string]int64{}
	for ti := range f.targets {
		for _, p := range f.plans[ti] {
			sizes[p.name] += planSize(p)
		}
	}
	var names []string
	for _, t := range f.targets {
		names = append(names, t.name)
	}
	return map[string]any{
		"names": len(f.targets), "name_list": names, "core_menu": menuCore, "extended_menu_size": len(menuExt), "neighbours": menuNeighbours,
		"own_keywords_total": f.nOwn, "own_keywords_source": "string literals reachable from each validator in css/validation/*.go (go/parser)",
		"cases_per_plan": sizes, "cases": f.total(), "unmapped_table_keys": f.gaps,
		"var_menu (plan 1v)": map[string]any{"size": len(varMenu(f.tier)), "well_formed": varInner, "first_arguments_that_are_no_custom_property": varBadFirst,
			"level1": varLevel1(), "level_n+1": "var(x) | var(x, 1px) | var(1, x) | var(--u, x) | calc(x) | calc(x + 1px) for x of level n", "levels": pick(f.tier, 2, 3)},
		"var_menu_with_neighbour (plans 2v-first, 2v-second)": map[string]any{"var_forms": varSmall(), "neighbours": pick3(f.tier, menuVarNeighbours, uniq(append(append([]string{}, menuVarNeighbours...), menuNeighbours...)))},
		"important_plan": map[string]any{"value": "every sequence of 0.." + fmt.Sprint(pick(f.tier, 4, 5)) + " tokens over {/**/, 1px}", "end": menuImportant},
		"cascade": map[string]any{"plans": "1v, 2v-first, 2v-second (values containing var() ), important (all)", "document": cascadeDoc("NAME", "VALUE"),
			"requested": "every property of html, head, style, body, p, span, p::before, the first right page and its @top-left box"},
	}
}

var entryOfKind = []string{"validation.PreprocessDeclarations", "validation.PreprocessFontFaceDescriptors", "validation.PreprocessCounterStyleDescriptors"}

func (f *declFam) run(u int64, ctx *engine.Ctx) {
	du := f.units[u]
	t := &f.targets[du.target]
	p := f.plans[du.target][du.plan]
	idx := make([]int, len(p.menus))
	lo, hi := 0, len(p.menus[0])
	if du.first >= 0 {
		lo, hi = du.first, du.first+1
	}
	feats := []string{entryOfKind[t.kind], "prop=" + t.name}
	var sb strings.Builder
	for i0 := lo; i0 < hi; i0++ {
		idx[0] = i0
		for k := 1; k < len(idx); k++ {
			idx[k] = 0
		}
		for {
			sb.Reset()
			for k, i := range idx {
				if k > 0 {
					sb.WriteByte(' ')
				}
				sb.WriteString(p.menus[k][i])
			}
			f.one(ctx, t, feats, sb.String(), p.cascade)
			ctx.Trans(int64(len(idx)))
			// next
			k := len(idx) - 1
			for k >= 1 {
				idx[k]++
				if idx[k] < len(p.menus[k]) {
					break
				}
				idx[k] = 0
				k--
			}
			if k < 1 {
				break
			}
		}
	}
}

func (f *declFam) one(ctx *engine.Ctx, t *target, feats []string, value string, cascade int) {
	switch t.kind {
	case kindDecl:
		desc := feats[0] + "|" + feats[1] + "|" + value
		var out string
		bad := ""
		ok := ctx.GuardFail(desc, feats, func() {
			decls := validation.PreprocessDeclarations("http://x/", pa.ParseBlocksContentsString(t.name+":"+value))
			var ob strings.Builder
			for _, d := range decls {
				if d.Value == nil {
					bad = "declaration " + d.Name.String() + " returned with a nil value"
				}
				if d.Name.KnownProp == 0 && d.Name.Var == "" {
					bad = "declaration returned without a name"
				}
				fmt.Fprintf(&ob, "%d,", d.Name.KnownProp)
			}
			out = ob.String()
		})
		// the document route is an entry point of its own (style attribute, <style> sheet, @page):
		// it is taken whatever the validators did with the declaration
		if cascade == cascadeAlways || (cascade == cascadeVar && hasVarText(value)) {
			defer runCascade(ctx, t.name, value)
		}
		if !ok {
			ctx.Case(true, "panic")
			return
		}
		ctx.Case(out != "", out)
		if out != "" {
			ctx.Count("declarations-accepted", 1)
		} else {
			ctx.Count("declarations-ignored", 1)
		}
		if bad != "" {
			ctx.Fail(engine.Failure{Clause: "result-xor-ignored", Features: feats, Case: desc, Detail: bad})
		}
	case kindFontFace:
		desc := feats[0] + "|" + feats[1] + "|" + value
		var out string
		ok := ctx.GuardFail(desc, feats, func() {
			d := validation.PreprocessFontFaceDescriptors("http://x/", pa.ParseBlocksContentsString(t.name+":"+value))
			out = fmt.Sprintf("%d %q %q %v %q %d %d", len(d.Src), d.FontFamily, d.FontStyle, d.FontWeight, d.FontStretch, len(d.FontFeatureSettings), len(d.FontVariant))
		})
		ctx.Case(ok && out != `0 "" "" {0 } "" 0 0`, "ff:"+out)
		if ok {
			ctx.Count("font-face-descriptors", 1)
		}
		f.sheet(ctx, "tree.NewCSSDefault(@font-face)", feats[1], "@font-face{font-family:x;src:url(a);"+t.name+":"+value+"}")
	case kindCounterStyle:
		desc := feats[0] + "|" + feats[1] + "|" + value
		var out string
		ok := ctx.GuardFail(desc, feats, func() {
			d := validation.PreprocessCounterStyleDescriptors("http://x/", pa.ParseBlocksContentsString(t.name+":"+value))
			out = fmt.Sprintf("%v %d %d %v", d.System, len(d.Symbols), len(d.AdditiveSymbols), d.Range)
		})
		ctx.Case(ok, "cs:"+out)
		if ok {
			ctx.Count("counter-style-descriptors", 1)
		}
		f.sheet(ctx, "tree.NewCSSDefault(@counter-style)", feats[1], "@counter-style x{"+t.name+":"+value+"}")
		f.sheet(ctx, "tree.NewCSSDefault(@counter-style)", feats[1], "@counter-style x{symbols:a b;additive-symbols:2 a,1 b;"+t.name+":"+value+"}")
	}
}

// sheet feeds one stylesheet text to tree.NewCSSDefault.
func (f *declFam) sheet(ctx *engine.Ctx, entry, tag, css string) {
	runSheet(ctx, entry, tag, css)
}

func runSheet(ctx *engine.Ctx, entry, tag, css string) {
	desc := entry + "|" + tag + "|" + css
	feats := []string{entry, tag}
	var err error
	var sheet tree.CSS
	ok := ctx.GuardFail(desc, feats, func() {
		sheet, err = tree.NewCSSDefault(utils.InputString(css))
	})
	if !ok {
		ctx.Case(true, "panic")
		return
	}
	ctx.Count("stylesheets-through-NewCSSDefault", 1)
	if err != nil {
		ctx.Case(true, "sheet-error")
		if !sheet.IsNone() {
			ctx.Fail(engine.Failure{Clause: "result-xor-error", Features: feats, Case: desc, Detail: "NewCSSDefault returned an error AND a non-empty stylesheet: " + err.Error()})
		}
		return
	}
	ctx.Case(true, "sheet-ok")
}
