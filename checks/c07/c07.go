// Package c07: parsers of document-supplied text never crash.
//
// One family of units per parsing entry point, each with its own alphabet (one symbol per
// branch of THAT parser) and length bound; every input is fed to the real code under a guard.
// Oracle: the call terminates within the CPU budget without panic or fatal error, and where the
// API has an error value exactly one of (result, error) is meaningful.
package c07

import (
	"io"
	"os"
	"strings"

	"github.com/benoitkugler/webrender/logger"

	"verif/internal/engine"
)

type family interface {
	name() string
	nunits() int64
	run(u int64, ctx *engine.Ctx)
	describe(u int64) any
	bounds() any
}

type check struct {
	fams  []family
	order []unitRef // global unit -> (family, unit of the family)
	total int64
}

type unitRef struct {
	fam   uint8
	local int32
}

func init() { engine.Register(&check{}) }

func (c *check) ID() string { return "C07" }

func sp(name string, alphabet []string, maxLen int, prefix, suffix string) *engine.StrSpace {
	return &engine.StrSpace{Name: name, Alphabet: alphabet, MaxLen: maxLen, Prefix: prefix, Suffix: suffix}
}

// development aid: C07_SUB=<name,name> keeps only the string spaces / declaration plans of these
// names (never set by the registered commands).
func subWanted(name string) bool {
	sub := os.Getenv("C07_SUB")
	if sub == "" {
		return true
	}
	for _, n := range strings.Split(sub, ",") {
		if n == name {
			return true
		}
	}
	return false
}

func pick(tier string, q, t int) int {
	if tier == "thorough" {
		return t
	}
	return q
}

// sigma0: one symbol per code-point class of CSS Syntax §4 plus every literal the tokenizer tests.
var sigma0 = append(split("aeuU-\\0.+/*\"'\n (){}[];:!#@%<>,?=|é"), "\t")

func (c *check) Init(tier string, seed int64) engine.Space {
	logger.WarningLogger.SetOutput(io.Discard)
	logger.ProgressLogger.SetOutput(io.Discard)
	c.fams = nil
	T := func(q, t int) int { return pick(tier, q, t) }

	// 1. tokenizer + rule parsers
	css := &strFam{nm: "css-syntax"}
	css.add(sp("full", sigma0, T(4, 5), "", ""), 4096, execCSS)
	css.add(sp("escapes", split("\\0af \n\"é-"), T(5, 7), "", ""), 8192, execCSS)
	css.add(sp("numbers", split("0.eE+-%a1"), T(5, 7), "", ""), 8192, execCSS)
	css.add(sp("urls", append(split("/*() \"\\'"), "url"), T(5, 7), "", ""), 8192, execCSS)
	css.add(sp("blocks", split("()[]{}a;"), T(5, 7), "", ""), 8192, execCSS)
	css.add(sp("declarations", append(split("a:;!{} "), "important"), T(5, 7), "", ""), 8192, execCSS)
	css.add(sp("atcdo", split("@a;{}<!->"), T(5, 7), "", ""), 8192, execCSS)
	// the value of a declaration: parseDeclaration classifies comment / white space / `!` / `important` / other tokens
	// and keeps an index into the value, where `!important` is cut off
	css.add(sp("declaration-value", []string{"/**/", " ", "b", "!", "important", ";", "{}"}, T(5, 6), "a:", ""), 8192, execCSS)
	c.fams = append(c.fams, css)

	// 2. the same strings where each at-rule parser of tree.NewCSSDefault reads them
	sheets := &strFam{nm: "stylesheets"}
	sheets.add(sp("full", sigma0, T(3, 4), "", ""), 2048, execSheets)
	sheets.add(sp("blocks+decl", append(split("a:;{}@( ,"), "!important"), T(4, 5), "", ""), 2048, execSheets)
	sheets.add(sp("declaration-value", []string{"/**/", " ", "c", "!important", "!", ";"}, T(4, 5), "b:", ""), 2048, execSheets)
	// @page selectors
	pageAlpha := append(split("a:, )n1+-"), "first", "left", "right", "blank", "nth(", "of", "2n", "even", "FIRST", "/**/")
	sheets.add(sp("@page-selector", pageAlpha, T(4, 5), "@page ", "{margin:0}"), 16384, execOneSheet)
	sheets.add(sp("@page-nth", append(split("n1+- a,)"), "of", "odd", "2n", "/**/", "-n", "n-"), T(5, 6), "@page :nth(", "{margin:0}"), 16384, execOneSheet)
	// margin rules
	sheets.add(sp("@page-margin-rule", []string{"@top-left", "@TOP-LEFT", "@bottom-center", "@foo", "@", "@-", "{}", "{content:\"x\"}", "{a:b}", "{", "}", ";", " ", "margin:0", "@top-left{@top-left{}}"}, T(3, 4), "@page{", "}"), 16384, execOneSheet)
	// media queries
	mediaAlpha := append(split(", ():1"), "all", "print", "screen", "and", "not", "only", "min-width", "1px", "/**/", "\"s\"", "PRINT")
	sheets.add(sp("@media-query", mediaAlpha, T(4, 5), "@media ", "{a{b:c}}"), 16384, execOneSheet)
	sheets.add(sp("@import-media", mediaAlpha, T(3, 4), "@import 'data:text/css,a{}' ", ";"), 16384, execOneSheet)
	sheets.add(sp("@import-url", append(split("\"' ;:/#%"), "url(", ")", "data:", "text/css", ",", "a{}", "a", "@import ", "\\"), T(4, 5), "@import ", ";"), 16384, execOneSheet)
	// counter style names
	sheets.add(sp("@counter-style-name", []string{"a", "decimal", "disc", "none", "NONE", "DECIMAL", " ", "1", "\"s\"", ",", "/**/", "-x", "inherit", "("}, T(3, 4), "@counter-style ", "{system:cyclic;symbols:a}"), 16384, execOneSheet)
	c.fams = append(c.fams, sheets)

	// 3. selectors
	sel := &strFam{nm: "selectors"}
	selAlpha := append(split("a.#[]=~|^$*\"':()n+-1 ,>\\i!/\n"), "nth-child(", "not(", "is(", "has(", "lang(", "contains(", "matches(", "::", "odd", "before", "#=")
	sel.add(sp("full", selAlpha, T(4, 5), "", ""), 65536, execSelector)
	sel.add(sp("attribute", append(split("[]a=~\"\\i "), "#=", "'"), T(6, 7), "", ""), 65536, execSelector)
	sel.add(sp("pseudo", append(split(":()an+-1 ,"), "nth-child(", "not(", "of"), T(6, 7), "", ""), 65536, execSelector)
	sel.add(sp("escapes", split("\\a1\"'\n -g"), T(6, 7), "", ""), 65536, execSelector)
	sel.add(sp("nth-argument", append(split("nN+-12 o)"), "odd", "even", "/**/"), T(6, 7), ":nth-child(", ""), 65536, execSelector)
	sel.add(sp("regexp-argument", split("()[]a\\*+?{,1}|^$"), T(4, 5), "a:matches(", ")"), 65536, execSelector)
	c.fams = append(c.fams, sel)

	// 4. validators, shorthand expanders, descriptors
	decl := newDeclFam(tier)
	c.fams = append(c.fams, decl)

	// 5. an+b and colours
	small := &strFam{nm: "nth+colour"}
	small.add(sp("an+b", append(split("nN-+120 a.e\\"), "odd", "even", "/**/"), T(5, 6), "", ""), 65536, execNth)
	small.add(sp("colour", append(split("#f0gF ,)/.1"), "rgb(", "rgba(", "hsl(", "hsla(", "50%", "-1", "red", "transparent", "currentColor", "1e99"), T(4, 5), "", ""), 65536, execColor)
	small.add(sp("colour-arguments", append(split("1,.) a"), "50%", "-1", "1e99", "999", "/**/"), T(6, 7), "rgba(", ""), 65536, execColor)
	small.add(sp("colour-hsl", append(split("1,) "), "50%", "-1", "1e99", "360", "120", ".5"), T(6, 7), "hsla(", ""), 65536, execColor)
	c.fams = append(c.fams, small)

	// 6. SVG: the syntax of each attribute, then the graphs of references among definitions
	c.fams = append(c.fams, newSVGFam(tier), newRefFam(tier))

	// 7. URLs
	urls := &strFam{nm: "urls"}
	urls.add(sp("data-url", append(split("dat:;,%2G/b64= é"), ";base64", ";charset=", "utf-8", "latin1", "text/css"), T(5, 6), "data:", ""), 32768, execDataURL)
	urls.add(sp("data-url-base64", split("QUJD=+/ %-_A"), T(5, 7), "data:;base64,", ""), 32768, execDataURL)
	urls.add(sp("data-url-escapes", split("%2Gg0a é+"), T(5, 7), "data:,", ""), 32768, execDataURL)
	urls.add(sp("url-join", split("a:/.#?%2 \\[]@"), T(4, 5), "", ""), 8192, execURLJoin)
	c.fams = append(c.fams, urls)

	// 8. HTML attribute readers; the date grammar of the metadata reader
	c.fams = append(c.fams, newHTMLFam(tier), newMetaFam(tier))

	// development aid: C07_ONLY=<family,family> restricts the run (never set by the registered commands)
	if only := os.Getenv("C07_ONLY"); only != "" {
		var keep []family
		for _, f := range c.fams {
			for _, n := range strings.Split(only, ",") {
				if f.name() == n {
					keep = append(keep, f)
				}
			}
		}
		c.fams = keep
	}
	// The families advance together: global unit u is the unit of the family that is least far
	// through its own units (every family enumerates shortest first). A run that is cut by its
	// deadline (a loaded machine, or a defect that costs a worker per case) has then covered the
	// same fraction, and the simplest inputs, of every family instead of none of the last ones.
	c.total = 0
	bounds := map[string]any{}
	n := make([]int64, len(c.fams))
	for i, f := range c.fams {
		n[i] = f.nunits()
		c.total += n[i]
		bounds[f.name()] = f.bounds()
	}
	c.order = make([]unitRef, 0, c.total)
	next := make([]int64, len(c.fams))
	for int64(len(c.order)) < c.total {
		best := -1
		for i := range c.fams {
			// smallest (next+1)/n: compare by cross-multiplication
			if next[i] < n[i] && (best < 0 || (next[i]+1)*n[best] < (next[best]+1)*n[i]) {
				best = i
			}
		}
		c.order = append(c.order, unitRef{uint8(best), int32(next[best])})
		next[best]++
	}
	assumptions := []string{
		"inputs longer than the stated bounds are not explored; symbols outside an alphabet are assumed to behave like the representative of their class",
		"external resources are never fetched: stylesheets, images and <use> targets other than data: URLs are answered with an error by a harness-owned fetcher",
		"\"never loops forever\" is decided up to a CPU budget of 10 s per call (normal cost: microseconds)",
		"fonts, layout and drawing are not executed (C01 covers them); only parsing, validation, cascade (presentational hints; substitution and re-validation of var() when the computed values are requested) and box building; the one exception is the svg-references family, which draws the parsed image (no text) on the recording backend, because clip-path, mask, marker and paint references are only followed when drawing",
		"a goroutine stack above the engine's limit of 64 MB is reported as unbounded recursion (Go's default limit is 1 GB); the deepest legitimate recursion of the enumerated inputs (nested blocks, reference chains of 3 definitions, box trees of a dozen levels) stays below 100 frames",
	}
	if decl.kwErr != "" {
		assumptions = append(assumptions, "the validators' source could not be read ("+decl.kwErr+"): per-property keywords are missing from the menus")
	}
	return engine.Space{
		Units: c.total, Chunk: 1, Level: "model_checking",
		Rule:        "per entry point: every string of the prefix tree over that parser's alphabet up to the stated length (index-addressable, shortest first); for validators and descriptors: every name x every token sequence of the stated plans (the declarations of the var() and !important plans are also placed in a fixed document at every place a declaration is read from, and every computed value is requested); for HTML attributes: every 0/1/2-deviation document; for W3C dates: every valid form with 1..2 (thorough 3) segments replaced; for SVG references: every functional graph on 1..3 definitions over the kind and reference menus. One state = one guarded call of one entry point on one input; a case is non-trivial when the input is accepted (the parser returns a value rather than its error/ignored result)",
		Bounds:      bounds,
		Assumptions: assumptions,
		BudgetS:     float64(pick(tier, 110, 1500)),
		MinOutcomes: 50,
		CaseCPUs:    10,
	}
}

func (c *check) locate(u int64) (family, int64) {
	r := c.order[u]
	return c.fams[r.fam], int64(r.local)
}

func (c *check) Run(u int64, ctx *engine.Ctx) {
	f, lu := c.locate(u)
	f.run(lu, ctx)
}

func (c *check) Describe(u int64) any {
	f, lu := c.locate(u)
	return f.describe(lu)
}

// FeaturesOf recomputes the feature tags of a case from its description (used by the master for
// cases that killed their worker). desc = entry|tag[+tag]|input.
func (c *check) FeaturesOf(desc string) []string {
	p := strings.SplitN(desc, "|", 3)
	if len(p) < 2 {
		return nil
	}
	return featuresOf(p[0], p[1])
}

// featuresOf: the entry point and the tag of the case; the tags of the families whose cases carry
// several (HTML documents: one per deviating attribute; SVG reference graphs: topology, attributes,
// kinds) are joined with '+'.
func featuresOf(entry, tag string) []string {
	out := []string{entry}
	if entry == "boxes.BuildFormattingStructure" || strings.HasPrefix(tag, "graph=") {
		if tag != "" {
			out = append(out, strings.Split(tag, "+")...)
		}
		return out
	}
	return append(out, tag)
}
