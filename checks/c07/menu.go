package c07

// Token menus of the validator / descriptor families. Every entry is the source text of ONE
// component value (possibly a function or a block).

// core: the design's menu T0 (one token per token kind / unit family / function family the
// validators branch on). Used at every sequence length.
var menuCore = []string{
	// keywords shared by many properties
	"auto", "none", "inherit", "initial", "normal",
	// numbers
	"0", "1", "-1", "1.5", "1e9999", "2", "100",
	// dimensions, one per unit family (+ an unknown unit), percentages
	"10px", "2em", "-1px", "50%", "-50%", "90deg", "1s", "2fr", "2dppx", "1x",
	// hash, colours, strings, urls
	"#fff", "#", "red", "transparent", "currentcolor", "\"s\"", "\"\"", "url(a)",
	// delimiters
	",", "/", "!", "+", "-",
	// substitution functions
	"var(--a)", "var()", "calc(1px)", "attr(x)",
	// colour functions, balanced and not
	"rgb(1,2,3)", "rgb(",
	// content / counters
	"counter(a)", "counters(a,\".\")", "symbols(cyclic \"a\")", "target-counter(attr(href),a)",
	"string(a)", "element(a)", "leader(dotted)", "content()",
	// grid
	"repeat(2,1fr)", "minmax(1px,2fr)", "fit-content(1px)", "[a]", "span",
	// images
	"linear-gradient(red,blue)", "radial-gradient(circle, red, blue)", "image-set(url(a) 1x)",
	// blocks
	"(", "{}",
	// transforms
	"rotate(1deg)", "translate(1px)", "matrix(1,0,0,1,0,0)",
	// misc
	"U+1-2", "a", "center", "left", "top", "solid", "bold",
}

// neighbours: the small set of tokens every extended token is paired with (both orders).
var menuNeighbours = []string{",", "/", "0", "1", "10px", "50%", "auto", "none", "normal", "a", "\"s\"", "red", "url(a)", "span"}

// core3: reduced menu for the longest sequences of the quick tier.
var menuCore3 = []string{
	"normal", "none", "auto", "inherit", "0", "1", "-1", "1.5", "2", "100", "10px", "-1px", "2em", "50%", "90deg", "2fr", "/", ",", "a", "\"s\"", "\"\"", "red", "#fff",
	"url(a)", "bold", "[a]", "span", "left", "top", "center", "solid", "counter(a)", "attr(x)", "calc(1px)", "linear-gradient(red,blue)", "repeat(2,1fr)", "minmax(1px,2fr)",
	"rotate(1deg)", "string(a)", "var(--a)",
}

// core4: reduced menu for sequences of 4 tokens (thorough).
var menuCore4 = []string{"normal", "0", "1", "10px", "50%", "/", ",", "a", "\"s\"", "red", "auto"}

// extended: malformed / boundary forms of every function and token kind the validators parse.
// Used alone and paired with the neighbours (quick), paired with everything (thorough).
var menuExt = []string{
	// urls
	"url()", "url(\"\")", "url(\"a\")", "url(#a)", "url(#)", "url(%zz)", "url(\"a\" b)", "url(\"a\" b c)", "url(1)",
	// attr
	"attr()", "attr(x y)", "attr(x string)", "attr(x string \"f\")", "attr(x px)", "attr(x px 1)", "attr(x url)", "attr(x color)",
	"attr(x integer)", "attr(x number)", "attr(x %)", "attr(x deg)", "attr(1)", "attr(x,y)", "attr(x string \"f\" z)",
	// counters
	"counter()", "counter(a,)", "counter(a, b)", "counter(a b)", "counter(a, \"x\")", "counter(1)", "counter(a, symbols(cyclic \"x\"))",
	"counter(a, symbols())", "counter(a, none)", "counter(a, b, c)",
	"counters(a)", "counters(a, 1)", "counters(a \".\")", "counters(a,\".\",b)", "counters(a,\".\",symbols(cyclic \"x\"))", "counters(1, \".\")", "counters()", "counters(a,\".\",b,c)",
	"symbols()", "symbols(cyclic)", "symbols(fixed 1)", "symbols(\"a\")", "symbols(\"a\" \"b\")", "symbols(numeric \"a\")", "symbols(alphabetic \"a\" \"b\")",
	"symbols(symbolic url(a))", "symbols(foo \"a\")", "symbols(cyclic 1)", "symbols(cyclic cyclic)",
	// grid functions and line names
	"repeat()", "repeat(2)", "repeat(2,)", "repeat(,1px)", "repeat(auto-fill, 1px)", "repeat(auto-fit, [a] 1fr)", "repeat(auto-fill)", "repeat(0, 1px)", "repeat(-1, 1px)",
	"repeat(1.5, 1px)", "repeat(2, [a])", "repeat(2, 1px [a] 2px)", "repeat(2, repeat(2, 1px))", "repeat(a, 1px)", "repeat(2, minmax(1px, 1fr))",
	"minmax()", "minmax(1px)", "minmax(auto, 1fr)", "minmax(1fr, 1px)", "minmax(1px, 2px, 3px)", "minmax(min-content, max-content)", "minmax(a, b)", "minmax(1px 2px)",
	"fit-content()", "fit-content(a)", "fit-content(50%)", "fit-content(1px, 2px)",
	"[]", "[a b]", "[1]", "[a, b]", "[span]", "[auto]", "[", "subgrid", "masonry", "dense", "auto-flow", "min-content", "max-content",
	"\"a b\"", "\". a\"", "\". .\"", "\"a\"", "\"a a\"", "\" \"", "\"a b\" \"c\"", "\"a.b\"", "\"...\"", "\"1\"",
	// gradients and images
	"linear-gradient()", "linear-gradient(to)", "linear-gradient(to top)", "linear-gradient(to top left, red)", "linear-gradient(to top top, red, blue)",
	"linear-gradient(90deg, red 10%, blue)", "linear-gradient(red 10px 20px)", "linear-gradient(red)", "linear-gradient(red,)", "linear-gradient(,red)",
	"linear-gradient(1, red, blue)", "linear-gradient(to left top bottom right, red, blue)",
	"radial-gradient()", "radial-gradient(at)", "radial-gradient(at top, red)", "radial-gradient(circle at, red)", "radial-gradient(1px, red)",
	"radial-gradient(1px 2px at 3px 4px, red)", "radial-gradient(closest-side, red)", "radial-gradient(circle 1px at left 1px top 2px, red, blue)",
	"radial-gradient(ellipse farthest-corner at 50% 50%, red 0%, blue 100%)", "radial-gradient(circle circle, red)", "radial-gradient(at at, red)",
	"radial-gradient(1px 2px 3px, red)", "radial-gradient(circle 1px 2px, red)", "radial-gradient(ellipse 1px, red)", "radial-gradient(-1px, red)",
	"repeating-linear-gradient(red, blue)", "repeating-radial-gradient(red, blue)", "repeating-linear-gradient()", "conic-gradient(red, blue)",
	"image-set()", "image(a)", "cross-fade(url(a), url(b))",
	// transforms
	"translate()", "translate(1px, 2px)", "translate(1px 2px)", "translate(1px, 2px, 3px)", "translate(50%)", "translate(1)", "translateX(1px)", "translateY(50%)", "translatex()",
	"scale(2)", "scale(1,)", "scale()", "scale(1, 2)", "scale(1, 2, 3)", "scaleX(2)", "scaley(a)", "rotate()", "rotate(1)", "rotate(0)", "rotate(1deg, 2deg)", "rotate(1turn)",
	"skew(1deg, 2deg)", "skew(1deg)", "skew()", "skewX(1deg)", "skewY()", "matrix()", "matrix(1)", "matrix(1,0,0,1,0,0,0)", "matrix(1 0 0 1 0 0)", "matrix(a,b,c,d,e,f)",
	"perspective(1px)", "rotate3d(1,1,1,1deg)", "foo(1)",
	// target-*, string(), element(), leader(), content()
	"target-counter()", "target-counter(a)", "target-counter(\"a\", b)", "target-counter(url(a), b, c)", "target-counter(url(a))", "target-counter(attr(href), 1)",
	"target-counter(attr(href url), a)", "target-counter(\"a\" b)", "target-counter(,a)", "target-counter(a,)", "target-counter(\"a\", b, c, d)",
	"target-counters(a)", "target-counters(\"a\", b)", "target-counters(\"a\", b, \".\")", "target-counters(\"a\", b, \".\", c)", "target-counters(\"a\", b, c)",
	"target-counters(\"a\", b, \".\", c, d)", "target-counters(url(a) b \".\")", "target-counters()",
	"target-text()", "target-text(\"a\")", "target-text(url(a), before)", "target-text(\"a\", x)", "target-text(attr(href), content)", "target-text(\"a\", after, b)",
	"target-text(1)", "target-foo(\"a\")",
	"string()", "string(a, first)", "string(a, x)", "string(1)", "string(a, 1)", "string(a, first, b)", "string(a first)",
	"element()", "element(a, last)", "element(a, first-except)", "element(1)", "running(a)", "running()", "running(1)", "running(a, b)", "footnote",
	"leader()", "leader(\"x\")", "leader(x)", "leader(1)", "leader(solid)", "leader(space)", "leader(dotted, x)",
	"content(text)", "content(before)", "content(x)", "content(a b)", "content(1)", "contents", "open-quote", "no-close-quote",
	// var, calc, env
	"var(--a,)", "var(a)", "var(--a, 1px)", "var(--)", "var(1)", "var(--a b)", "calc()", "calc(1px + 2px)", "env(x)", "rgb(var(--a),1,2)", "translate(var(--a))", "[var(--a)]", "(var(--a))",
	// colours
	"rgb()", "rgb(1)", "rgb(1,2)", "rgb(1,2,3,4)", "rgb(1 2 3)", "rgb(1%,2%,3%)", "rgb(1,2%,3)", "rgb(1.5,2,3)", "rgb(,,)", "rgb(a,b,c)",
	"rgba(0,0,0,.5)", "rgba(0,0,0)", "rgba(0,0)", "rgba()", "rgba(0,0,0,50%)", "rgba(0,0,0,a)", "rgba(0,0,0,1,1)",
	"hsl(120,100%,50%)", "hsl(120,100,50)", "hsl()", "hsl(1e9999,1%,1%)", "hsl(-1,1%,1%)", "hsla(120,100%,50%,1)", "hsla(120,100%)", "hsla()",
	"#ffff", "#ffffff", "#ffffffff", "#ff", "#fffff", "#ggg", "#a-b", "#1", "#-", "RED", "Red", "invert",
	// clip, src descriptor
	"rect(1px, 2px, 3px, 4px)", "rect(auto, auto, auto, auto)", "rect(1px 2px 3px 4px)", "rect()", "rect(1px)", "rect(1px, 2px, 3px)", "rect(a,b,c,d)", "rect(1px,2px,3px,4px,5px)", "rect(1%,2%,3%,4%)",
	"format(\"woff\")", "format()", "format(woff)", "local(a)", "local()", "local(\"a b\")", "local(a b)", "local(a, b)", "local(1)", "tech(x)",
	// blocks and stray delimiters
	"()", "(a)", "(1px)", "{a}", "{a:b}", "]", ")", "}", ":", "=", "*", "<", ">", "~", "|", "||", "&", "@a", "@", ".", "%", "?", "$", "^", "\\", "'", "\"", "<!--", "-->",
	// identifiers
	"--x", "-a", "-", "--", "AUTO", "Normal", "é", "a\\ b", "\\31", "unset", "revert", "default", "serif", "sans-serif", "inherit inherit",
	// numbers and dimensions at the boundaries
	"-0", "+1", "1.0", "3", "4", "7", "400", "900", "1000", "1001", "-1.5", ".5", "1e-9999", "1e3", "99999999999", "-99999999999", "9223372036854775808", "1e39", "-1e39",
	"0px", "-0px", "1in", "1q", "1Q", "10PX", "10rem", "1ch", "1ex", "1vw", "1pt", "1pc", "1cm", "1mm", "1e3px", "1e9999px", "-1e9999px", "1.5em",
	"1rad", "100grad", "-90deg", "0deg", "1turn", "1e9999deg", "90DEG", "1ms", "-1s", "1hz", "1dpcm", "96dpi", "0dppx", "-1dppx", "1e9999dppx", "1DPPX", "0fr", "-1fr", "1e9999fr", "1.5fr", "1FR",
	"0%", "100%", "150%", "1e9999%", "-0%", "1n", "2n+1", "1a-b", "1--x", "1e", "1e-", "1\\65 3",
	"U+0-10FFFF", "U+??", "U+1", "u+0025-00FF",
	"\"liga\"", "\"wght\"", "\"a\u00e91\"", "off", "on",
}

// menuOwnExtra: non-keyword tokens that only one validator branches on (string shapes); added to
// that property's menu at every length.
var menuOwnExtra = map[string][]string{
	"grid-template-areas":     {"\"a b\"", "\"a a\"", "\"b a\"", "\". a\"", "\"a\"", "\"a b c\""},
	"grid-template":           {"\"a b\"", "\"a a\"", "\"b a\"", "\". a\"", "\"a\""},
	"grid":                    {"\"a b\"", "\"a a\"", "\"b a\"", "\". a\"", "\"a\""},
	"font-feature-settings":   {"\"liga\"", "\"a\u00e91\"", "off"},
	"font-variation-settings": {"\"wght\""},
	"quotes":                  {"\"\u00ab\""},
	"font-family":             {"serif", "\"a b\""},
	"font":                    {"serif", "\"a b\""},
	"src":                     {"format(\"woff\")", "local(a)", "url(\"a\")"},
	"range":                   {"infinite", "-99999999999"},
	"additive-symbols":        {"2", "3"},
	"pad":                     {"3"},
	"lang":                    {"\"fr\""},
	"hyphenate-character":     {"\"-\""},
	"size":                    {"A4", "landscape"},
	"page":                    {"b"},
}
