package c07

import (
	"fmt"
	"strings"

	"github.com/benoitkugler/webrender/css/counters"
	pr "github.com/benoitkugler/webrender/css/properties"
	bo "github.com/benoitkugler/webrender/html/boxes"
	"github.com/benoitkugler/webrender/html/tree"
	"github.com/benoitkugler/webrender/images"
	"github.com/benoitkugler/webrender/utils"

	"verif/internal/engine"
)

// ---- HTML attribute readers ---------------------------------------------------------------
//
// One skeleton document that contains every element whose attributes are read as numbers,
// lengths, colours or URLs (presentational hints in html/tree/style.go, colspan/rowspan/span in
// html/boxes, href/id/lang through the user-agent style sheet). A case puts one or two values
// into attribute slots; the document goes through NewHTML, GetAllComputedStyles (with
// presentational hints) and BuildFormattingStructure. No fonts, no layout.

type slot struct{ elem, attr string }

var htmlSlots = []slot{
	// table structure (these interact: the quick tier enumerates all their pairs)
	{"td1", "colspan"}, {"td1", "rowspan"}, {"td2", "colspan"}, {"td2", "rowspan"}, {"td3", "colspan"}, {"td3", "rowspan"}, {"th", "colspan"},
	{"col", "span"}, {"colgroup", "span"}, {"colgroup2", "span"},
	// presentational hints
	{"body", "marginheight"}, {"body", "topmargin"}, {"body", "marginwidth"}, {"body", "leftmargin"}, {"body", "bgcolor"}, {"body", "text"}, {"body", "background"},
	{"table", "cellspacing"}, {"table", "cellpadding"}, {"table", "hspace"}, {"table", "vspace"}, {"table", "width"}, {"table", "height"},
	{"table", "bgcolor"}, {"table", "bordercolor"}, {"table", "border"}, {"table", "background"}, {"table", "align"},
	{"col", "width"}, {"tr", "height"}, {"tr", "align"}, {"tr", "bgcolor"}, {"td1", "width"}, {"td1", "height"}, {"td1", "align"}, {"caption", "align"},
	{"ol", "start"}, {"ol", "type"}, {"li", "value"}, {"ul", "value"}, {"ul", "start"},
	{"font", "size"}, {"font", "color"}, {"font", "face"},
	{"hr", "size"}, {"hr", "width"}, {"hr", "color"}, {"hrn", "size"},
	{"img", "width"}, {"img", "height"}, {"img", "border"}, {"img", "hspace"}, {"img", "vspace"}, {"img", "align"}, {"img", "src"}, {"img", "alt"},
	{"div", "align"}, {"a", "href"}, {"a", "id"}, {"a", "name"}, {"a", "lang"}, {"a", "style"}, {"input", "size"}, {"input", "type"}, {"input", "value"}, {"textarea", "rows"}, {"textarea", "cols"},
	{"meta", "content"}, {"link", "href"}, {"link", "media"}, {"base", "href"}, {"style", "media"}, {"style", "type"},
	// document metadata (utils/html.go GetHtmlMetadata): dates, names, attachments
	{"metac", "content"}, {"metam", "content"}, {"metan", "name"}, {"linka", "href"}, {"linka", "title"},
	// the other elements that carry presentational hints or are replaced (html/tree/style.go, html/boxes/html.go)
	{"embed", "src"}, {"embed", "type"}, {"embed", "width"}, {"embed", "hspace"}, {"object", "data"}, {"object", "type"}, {"object", "height"}, {"object", "border"},
	{"inputi", "width"}, {"inputi", "border"}, {"inputi", "vspace"}, {"th", "width"}, {"th", "height"}, {"th", "rowspan"},
}

const (
	nStructSlots   = 10
	nPairValues    = 14 // values used in the pairs of the table-structure slots (quick)
	nPairValuesAll = 10 // values used in pairs that involve another slot (thorough)
)

var htmlValues = []string{
	"", "0", "-1", "1", "2", "3", "1.5", "a", " 2", "+2", "-2", "1e3", "0x10", "1000", "99999999999", "65535", "100000", "9223372036854775807", "-0", "00002",
	"1px", "50%", "2 ", "١", "1;color:red", "1}", "1)", "\"", "#fff", "#", "red", "#a", "%zz", ":", "http://[", "a b", "x:y", "data:,a", "\\", "url(", "/*", "print", "all,", "text/css",
}

// hugeValues only appear in single deviations (and in the colspan x rowspan pairs of one cell):
// a huge span allocates one box per spanned column, which is a finding of its own and would
// otherwise be re-discovered (at the cost of a dead worker) in every pair.
var hugeValues = map[string]bool{"99999999999": true, "9223372036854775807": true, "65535": true, "100000": true}

// singleValues only appear in single deviations (every slot x every value): the long digit runs in
// every shape in which a reader meets a number, and dates.
var singleValues = append(longNumberValues(), htmlDateValues()...)

// htmlDateValues: every valid form of a W3C date and, in the longest one, each numeric field
// replaced by the two runs around MaxInt64 (the html-metadata family enumerates the grammar).
func htmlDateValues() (out []string) {
	for _, form := range dateForms {
		var sb strings.Builder
		for _, s := range form {
			sb.WriteString(dateSegs[s].sep + dateSegs[s].digits)
		}
		out = append(out, sb.String())
	}
	long := dateForms[len(dateForms)-1]
	for _, run := range []string{maxInt64, strings.Repeat("9", 19), strings.Repeat("9", 20)} {
		for p, s := range long {
			if dateSegs[s].digits == "" {
				continue
			}
			var sb strings.Builder
			for q, t := range long {
				if q == p {
					sb.WriteString(dateSegs[t].sep + run)
				} else {
					sb.WriteString(dateSegs[t].sep + dateSegs[t].digits)
				}
			}
			out = append(out, sb.String())
		}
	}
	return out
}

// allValues = htmlValues (used in single deviations and in pairs) ++ singleValues
var allValues = append(append([]string{}, htmlValues...), singleValues...)

// the runs that meet each other in the pairs of the table-structure slots
var structLongValues = []string{maxInt64, minInt64, strings.Repeat("9", 20), "2147483648", "4294967296"}

const htmlSkeleton = `<html><head><meta name="keywords"{meta}><link rel="stylesheet"{link}><base{base}><style{style}>a{color:red}</style>` +
	`<meta name="dcterms.created"{metac}><meta name="dcterms.modified"{metam}><meta content="2011-04-21T23:00:00.45+01:00"{metan}><link rel="attachment"{linka}></head>` +
	`<body{body}><table{table}><caption{caption}>k</caption><colgroup{colgroup}><col{col}></colgroup><colgroup{colgroup2}></colgroup>` +
	`<tr{tr}><td{td1}>a</td><td{td2}>b</td></tr><tr><td{td3}>c</td><th{th}>d</th></tr></table>` +
	`<ol{ol}><li{li}>e</li><li>f</li></ol><ul{ul}><li>g</li></ul><font{font}>h</font><hr{hr}><hr noshade{hrn}><img{img}>` +
	`<div{div}>i</div><a{a}>j</a><input{input}><textarea{textarea}></textarea><embed{embed}><object{object}>o</object><input type="image"{inputi}></body></html>`

type htmlFam struct {
	cases [][2]int32 // (slot*V + value) for the first and second deviation; second = -1 for none
	batch int64
}

func newHTMLFam(tier string) *htmlFam {
	f := &htmlFam{batch: 96}
	nv := int32(len(allValues))  // radix of the encoding
	nb := int32(len(htmlValues)) // the values that also appear in pairs
	f.cases = append(f.cases, [2]int32{-1, -1})
	for s := range htmlSlots {
		for v := int32(0); v < nv; v++ {
			f.cases = append(f.cases, [2]int32{int32(s)*nv + v, -1})
		}
	}
	// pairs: the table-structure slots with the first nPairValues values (quick), every slot
	// (thorough); huge values never appear in pairs, except the hand-picked ones below.
	lim := nStructSlots
	if tier == "thorough" {
		lim = len(htmlSlots)
	}
	for s1 := 0; s1 < lim; s1++ {
		for s2 := s1 + 1; s2 < lim; s2++ {
			n := int32(nPairValues)
			if tier == "thorough" {
				if s2 < nStructSlots {
					n = nb
				} else {
					n = nPairValuesAll
				}
			}
			for v1 := int32(0); v1 < n; v1++ {
				for v2 := int32(0); v2 < n; v2++ {
					if hugeValues[htmlValues[v1]] || hugeValues[htmlValues[v2]] {
						continue
					}
					f.cases = append(f.cases, [2]int32{int32(s1)*nv + v1, int32(s2)*nv + v2})
				}
			}
		}
	}
	vi := func(v string) int32 {
		for i, x := range allValues {
			if x == v {
				return int32(i)
			}
		}
		return 0
	}
	for _, hp := range [][4]string{ // slot1, value1, slot2, value2 (slot indices 0..3 = td1/td2 colspan/rowspan)
		{"0", "65535", "1", "2"}, {"0", "65535", "1", "65535"}, {"0", "99999999999", "1", "2"}, {"0", "2", "1", "99999999999"},
		{"0", "65535", "2", "65535"}, {"1", "65535", "3", "65535"}, {"0", "9223372036854775807", "1", "0"}, {"7", "65535", "0", "65535"},
	} {
		s1, s2 := vi2(hp[0]), vi2(hp[2])
		f.cases = append(f.cases, [2]int32{s1*nv + vi(hp[1]), s2*nv + vi(hp[3])})
	}
	// the long runs in the table-structure slots, against a small span, no span and each other
	for s1 := int32(0); s1 < nStructSlots; s1++ {
		for s2 := int32(0); s2 < nStructSlots; s2++ {
			if s1 == s2 {
				continue
			}
			for _, v1 := range structLongValues {
				for _, v2 := range []string{"2", "0", v1} {
					if v2 == v1 && s2 < s1 {
						continue // the same document as (s2, s1)
					}
					f.cases = append(f.cases, [2]int32{s1*nv + vi(v1), s2*nv + vi(v2)})
				}
			}
		}
	}
	return f
}

func vi2(s string) int32 {
	var n int32
	for _, c := range s {
		n = n*10 + int32(c-'0')
	}
	return n
}

func (f *htmlFam) name() string  { return "html-attributes" }
func (f *htmlFam) nunits() int64 { return (int64(len(f.cases)) + f.batch - 1) / f.batch }

func (f *htmlFam) doc(c [2]int32) (doc string, tags []string, label string) {
	nv := int32(len(allValues))
	set := map[string]string{}
	for _, d := range c {
		if d < 0 {
			continue
		}
		s, v := htmlSlots[d/nv], allValues[d%nv]
		set[s.elem] += " " + s.attr + "=\"" + strings.NewReplacer("&", "&amp;", "\"", "&quot;").Replace(v) + "\""
		tags = append(tags, "attr="+s.elem+"."+s.attr)
		label += fmt.Sprintf("<%s %s=%q>", s.elem, s.attr, v)
	}
	var sb strings.Builder
	rest := htmlSkeleton
	for {
		i := strings.IndexByte(rest, '{')
		if i < 0 || !strings.Contains(rest[i:], "}") {
			sb.WriteString(rest)
			break
		}
		j := i + strings.IndexByte(rest[i:], '}')
		name := rest[i+1 : j]
		if strings.ContainsAny(name, ":; ") { // CSS braces of the <style> element
			sb.WriteString(rest[:j+1])
			rest = rest[j+1:]
			continue
		}
		sb.WriteString(rest[:i])
		sb.WriteString(set[name])
		rest = rest[j+1:]
	}
	return sb.String(), tags, label
}

func noImage(url string, forcedMimeType string, orientation pr.SBoolFloat) images.Image { return nil }

func buildBoxes(doc string) (root bo.Box, meta string, err error) {
	h, err := tree.NewHTML(utils.InputString(doc), "", svgFetcher, "")
	if err != nil {
		return nil, "", err
	}
	meta = metadataKey(h.GetMetadata())
	cs := make(counters.CounterStyle)
	style := tree.GetAllComputedStyles(h, nil, true, nil, cs, nil, nil, true, nil)
	tc := tree.NewTargetCollector()
	var fn []bo.Box
	return bo.BuildFormattingStructure(h.Root, style, bo.URLResolver{Fetch: h.UrlFetcher, FetchImage: noImage}, "", &tc, cs, &fn), meta, nil
}

func countBoxes(b bo.Box) int {
	n := 1
	for _, c := range b.Box().Children {
		n += countBoxes(c)
	}
	return n
}

func (f *htmlFam) run(u int64, ctx *engine.Ctx) {
	lo := u * f.batch
	hi := lo + f.batch
	if hi > int64(len(f.cases)) {
		hi = int64(len(f.cases))
	}
	for i := lo; i < hi; i++ {
		c := f.cases[i]
		doc, tags, label := f.doc(c)
		feats := append([]string{"boxes.BuildFormattingStructure"}, tags...)
		desc := "boxes.BuildFormattingStructure|" + strings.Join(tags, "+") + "|" + label + " in " + doc
		var root bo.Box
		var err error
		var meta string
		n := 0
		ok := ctx.GuardFail(desc, feats, func() {
			root, meta, err = buildBoxes(doc)
			if root != nil {
				n = countBoxes(root)
			}
		})
		ctx.Trans(int64(len(tags)))
		if !ok {
			ctx.Case(true, "panic")
			continue
		}
		ctx.Count("html-documents-built", 1)
		switch {
		case err != nil && root != nil:
			ctx.Case(true, "both")
			ctx.Fail(engine.Failure{Clause: "result-xor-error", Features: feats, Case: desc, Detail: "box tree AND error: " + err.Error()})
		case err == nil && root == nil:
			ctx.Case(true, "neither")
			ctx.Fail(engine.Failure{Clause: "result-xor-error", Features: feats, Case: desc, Detail: "neither a box tree nor an error"})
		case err != nil:
			ctx.Case(false, "error")
		default:
			ctx.Case(true, fmt.Sprint("boxes:", n, " ", meta))
		}
	}
}

func (f *htmlFam) describe(u int64) any {
	lo := u * f.batch
	if lo >= int64(len(f.cases)) {
		lo = int64(len(f.cases)) - 1
	}
	_, _, label := f.doc(f.cases[lo])
	return map[string]any{"family": "html-attributes", "first_case": label, "documents": f.batch}
}

func (f *htmlFam) bounds() any {
	var sl []string
	for _, s := range htmlSlots {
		sl = append(sl, s.elem+"."+s.attr)
	}
	return map[string]any{"slots": sl, "values": htmlValues, "single_deviation_values": map[string]any{"digit_runs": digitRuns, "number_shapes (N = each run)": numberShapes, "dates": htmlDateValues()},
		"documents": len(f.cases), "skeleton": htmlSkeleton, "long_runs_in_table_structure_pairs": structLongValues,
		"deviations": "0, 1 (every slot x every value and every single-deviation value) and 2 (quick: all pairs of the 10 table-structure slots over the first 14 values; thorough: those over every value, plus all pairs of all slots over the first 10 values); the huge values 65535, 100000, 99999999999, 9223372036854775807 appear in single deviations and in 8 hand-picked colspan/rowspan pairs only; the long runs of long_runs_in_table_structure_pairs appear in every ordered pair of table-structure slots against 2, 0 and themselves; every document goes through NewHTML, GetMetadata, GetAllComputedStyles and BuildFormattingStructure"}
}
