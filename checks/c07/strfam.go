package c07

import (
	"errors"
	"fmt"
	"html"
	"strconv"
	"strings"

	"github.com/benoitkugler/webrender/backend"
	pa "github.com/benoitkugler/webrender/css/parser"
	"github.com/benoitkugler/webrender/css/selector"
	"github.com/benoitkugler/webrender/svg"
	"github.com/benoitkugler/webrender/utils"

	"verif/internal/engine"
)

// ---- string-space families --------------------------------------------------------------

// strExec feeds one string to the entry point(s) of a space; it performs the guarded calls and
// the Case/Fail reporting itself.
type strExec func(ctx *engine.Ctx, tag, x string)

type strDef struct {
	sp    *engine.StrSpace
	exec  strExec
	batch int64
	first int64 // first unit
}

type strFam struct {
	nm   string
	defs []*strDef
	n    int64
}

func (f *strFam) add(sp *engine.StrSpace, batch int64, exec strExec) {
	if !subWanted(sp.Name) {
		return
	}
	d := &strDef{sp: sp, exec: exec, batch: batch, first: f.n}
	f.defs = append(f.defs, d)
	f.n += (sp.Count() + batch - 1) / batch
}

func (f *strFam) name() string  { return f.nm }
func (f *strFam) nunits() int64 { return f.n }

func (f *strFam) locate(u int64) (d *strDef, lo, hi int64) {
	k := len(f.defs) - 1
	for k > 0 && f.defs[k].first > u {
		k--
	}
	d = f.defs[k]
	lo = (u - d.first) * d.batch
	hi = lo + d.batch
	if c := d.sp.Count(); hi > c {
		hi = c
	}
	return
}

func (f *strFam) run(u int64, ctx *engine.Ctx) {
	d, lo, hi := f.locate(u)
	for i := lo; i < hi; i++ {
		d.exec(ctx, d.sp.Name, d.sp.At(i))
		ctx.Trans(1)
	}
}

func (f *strFam) describe(u int64) any {
	d, lo, hi := f.locate(u)
	return map[string]any{"family": f.nm, "space": d.sp.Name, "first": d.sp.At(lo), "last": d.sp.At(hi - 1), "strings": hi - lo}
}

func (f *strFam) bounds() any {
	b := map[string]any{}
	var tot int64
	for _, d := range f.defs {
		b[d.sp.Name] = map[string]any{"alphabet": d.sp.Alphabet, "max_len": d.sp.MaxLen, "strings": d.sp.Count(), "prefix": d.sp.Prefix, "suffix": d.sp.Suffix}
		tot += d.sp.Count()
	}
	b["strings_total"] = tot
	return b
}

func split(s string) []string {
	var out []string
	for _, r := range s {
		out = append(out, string(r))
	}
	return out
}

// call runs one guarded call; f returns the canonical outcome, whether the case is non-trivial
// and, when an API contract clause is violated, its description.
func call(ctx *engine.Ctx, entry, tag, input string, f func() (outcome string, nontrivial bool, clause, detail string)) {
	desc := entry + "|" + tag + "|" + strconv.Quote(input)
	feats := featuresOf(entry, tag)
	var outcome, clause, detail string
	var nt bool
	if !ctx.GuardFail(desc, feats, func() { outcome, nt, clause, detail = f() }) {
		ctx.Case(true, "panic")
		return
	}
	ctx.Case(nt, outcome)
	ctx.Count("calls:"+entry, 1)
	if clause != "" {
		ctx.Fail(engine.Failure{Clause: clause, Features: feats, Case: desc, Detail: detail})
	}
}

// ---- CSS tokenizer and rule parsers -----------------------------------------------------

func hasNilToken(l []pa.Token) bool {
	for _, t := range l {
		if t == nil {
			return true
		}
	}
	return false
}

func kinds(l []pa.Token) string {
	var sb strings.Builder
	for _, t := range l {
		if t == nil {
			sb.WriteString("<nil>,")
			continue
		}
		sb.WriteString(string(t.Kind()))
		sb.WriteByte(',')
	}
	return sb.String()
}

func ckinds(l []pa.Compound) (s string, hasNil bool) {
	var sb strings.Builder
	for _, c := range l {
		if c == nil {
			hasNil = true
			sb.WriteString("<nil>,")
			continue
		}
		fmt.Fprintf(&sb, "%T,", c)
	}
	return sb.String(), hasNil
}

func nilClause(isNil bool, what string) (string, string) {
	if isNil {
		return "result-meaningful", what + " contains a nil element (neither a value nor an error token)"
	}
	return "", ""
}

func execCSS(ctx *engine.Ctx, tag, x string) {
	b := []byte(x)
	var toks []pa.Token
	call(ctx, "parser.Tokenize", tag, x, func() (string, bool, string, string) {
		toks = pa.Tokenize(b, false)
		c, d := nilClause(hasNilToken(toks), "token list")
		return kinds(toks), len(toks) > 0, c, d
	})
	call(ctx, "parser.Tokenize(skipComments)", tag, x, func() (string, bool, string, string) {
		t := pa.Tokenize(b, true)
		c, d := nilClause(hasNilToken(t), "token list")
		return kinds(t), len(t) > 0, c, d
	})
	comp := func(entry string, f func() []pa.Compound) {
		call(ctx, entry, tag, x, func() (string, bool, string, string) {
			l := f()
			s, n := ckinds(l)
			c, d := nilClause(n, "rule list")
			return s, len(l) > 0, c, d
		})
	}
	comp("parser.ParseStylesheetBytes", func() []pa.Compound { return pa.ParseStylesheetBytes(b, false, false) })
	comp("parser.ParseStylesheetBytes(skip)", func() []pa.Compound { return pa.ParseStylesheetBytes(b, true, true) })
	comp("parser.ParseBlocksContentsString", func() []pa.Compound { return pa.ParseBlocksContentsString(x) })
	comp("parser.ParseDeclarationListString", func() []pa.Compound { return pa.ParseDeclarationListString(x, false, false) })
	if toks != nil {
		comp("parser.ParseRuleList", func() []pa.Compound { return pa.ParseRuleList(toks, false, false) })
		comp("parser.ParseDeclarationList(skip)", func() []pa.Compound { return pa.ParseDeclarationList(toks, true, true) })
		comp("parser.ParseBlocksContents(skip)", func() []pa.Compound { return pa.ParseBlocksContents(toks, true) })
		call(ctx, "parser.ParseOneDeclaration", tag, x, func() (string, bool, string, string) {
			c := pa.ParseOneDeclaration(toks)
			cl, d := nilClause(c == nil, "result")
			return fmt.Sprintf("%T", c), true, cl, d
		})
		call(ctx, "parser.ParseOneComponentValue", tag, x, func() (string, bool, string, string) {
			c := pa.ParseOneComponentValue(toks)
			cl, d := nilClause(c == nil, "result")
			return fmt.Sprintf("%T", c), true, cl, d
		})
		call(ctx, "parser.Serialize", tag, x, func() (string, bool, string, string) {
			s := pa.Serialize(toks)
			return strconv.Itoa(len(s)), len(s) > 0, "", ""
		})
		call(ctx, "parser.SplitOnComma+RemoveWhitespace+ParseFunction", tag, x, func() (string, bool, string, string) {
			parts := pa.SplitOnComma(pa.RemoveWhitespace(toks))
			n := 0
			for _, t := range toks {
				if name, args := pa.ParseFunction(t); name != "" {
					n += 1 + len(args)
				}
			}
			return fmt.Sprint(len(parts), n), true, "", ""
		})
	}
}

// sheet wrappers: the string is placed where each at-rule parser of tree.NewCSSDefault reads it.
var sheetWrappers = []struct{ tag, pre, suf string }{
	{"sheet", "", ""},
	{"qualified-rule-content", "a{", "}"},
	{"qualified-rule-prelude", "", "{a:b}"},
	{"nested-rule", "a{", "{b:c}}"},
	{"@page-content", "@page{", "}"},
	{"@page-prelude", "@page ", "{a:b}"},
	{"@page-margin-content", "@page{@top-left{", "}}"},
	{"@font-face-content", "@font-face{", "}"},
	{"@counter-style-content", "@counter-style x{", "}"},
	{"@counter-style-prelude", "@counter-style ", "{system:cyclic;symbols:a}"},
	{"@media-prelude", "@media ", "{a{b:c}}"},
	{"@media-content", "@media print{", "}"},
	{"@import-prelude", "@import ", ";"},
	{"@import-data-media", "@import 'data:text/css,a{}' ", ";"},
}

func execSheets(ctx *engine.Ctx, tag, x string) {
	for _, w := range sheetWrappers {
		runSheet(ctx, "tree.NewCSSDefault", "in="+w.tag, w.pre+x+w.suf)
	}
}

func execOneSheet(ctx *engine.Ctx, tag, x string) {
	runSheet(ctx, "tree.NewCSSDefault", "in="+tag, x)
}

// ---- selectors --------------------------------------------------------------------------

func execSelector(ctx *engine.Ctx, tag, x string) {
	call(ctx, "selector.ParseGroup", tag, x, func() (string, bool, string, string) {
		g, err := selector.ParseGroup(x)
		switch {
		case err != nil && g != nil:
			return "both", true, "result-xor-error", "ParseGroup returned a selector group AND an error: " + err.Error()
		case err == nil && len(g) == 0:
			return "neither", true, "result-xor-error", "ParseGroup returned neither a selector nor an error"
		case err != nil:
			return "error", false, "", ""
		}
		for _, s := range g {
			if s == nil {
				return "nil-member", true, "result-xor-error", "ParseGroup returned a group with a nil selector and no error"
			}
		}
		return "ok:" + strconv.Itoa(len(g)), true, "", ""
	})
}

// ---- an+b and colours -------------------------------------------------------------------

func execNth(ctx *engine.Ctx, tag, x string) {
	call(ctx, "parser.ParseNth", tag, x, func() (string, bool, string, string) {
		r := pa.ParseNth(pa.Tokenize([]byte(x), true))
		if r == nil {
			return "nil", false, "", ""
		}
		return fmt.Sprint(*r), true, "", ""
	})
}

func execColor(ctx *engine.Ctx, tag, x string) {
	call(ctx, "parser.ParseColorString", tag, x, func() (string, bool, string, string) {
		c := pa.ParseColorString(x)
		if c.IsNone() {
			return "invalid", false, "", ""
		}
		return fmt.Sprint(c.Type), true, "", ""
	})
}

// ---- SVG --------------------------------------------------------------------------------

var errNoFetch = errors.New("harness: no external resources")

func svgFetcher(url string) (utils.RemoteRessource, error) {
	if strings.HasPrefix(strings.ToLower(url), "data:") {
		return utils.DefaultUrlFetcher(url)
	}
	return utils.RemoteRessource{}, errNoFetch
}

func svgImageLoader(url string) (backend.Image, error) { return nil, errNoFetch }

const svgNS = `<svg xmlns="http://www.w3.org/2000/svg" xmlns:xlink="http://www.w3.org/1999/xlink"`

// svgExec builds the exec function for a document template in which %s is replaced by the
// (attribute-escaped) string.
func svgExec(template string, escape bool) strExec {
	i := strings.Index(template, "%s")
	pre, suf := template[:i], template[i+2:]
	return func(ctx *engine.Ctx, tag, x string) {
		v := x
		if escape {
			v = html.EscapeString(x)
		}
		doc := pre + v + suf
		call(ctx, "svg.Parse", "attr="+tag, x, func() (string, bool, string, string) {
			img, err := svg.Parse(strings.NewReader(doc), "", svgImageLoader, svgFetcher)
			switch {
			case err != nil && img != nil:
				return "both", true, "result-xor-error", "svg.Parse returned an image AND an error: " + err.Error()
			case err == nil && img == nil:
				return "neither", true, "result-xor-error", "svg.Parse returned neither an image nor an error"
			case err != nil:
				return "error", false, "", ""
			}
			w, h := img.DisplayedSize()
			vb := img.ViewBox()
			return fmt.Sprint("ok", w, h, vb != nil), true, "", ""
		})
	}
}

// ---- URLs -------------------------------------------------------------------------------

func execDataURL(ctx *engine.Ctx, tag, x string) {
	call(ctx, "utils.DefaultUrlFetcher", tag, x, func() (string, bool, string, string) {
		r, err := utils.DefaultUrlFetcher(x)
		switch {
		case err != nil && r.Content != nil:
			return "both", true, "result-xor-error", "DefaultUrlFetcher returned content AND an error: " + err.Error()
		case err == nil && r.Content == nil:
			return "neither", true, "result-xor-error", "DefaultUrlFetcher returned neither content nor an error"
		case err != nil:
			return "error", false, "", ""
		}
		return fmt.Sprint("ok ", r.Content.Len(), " ", r.MimeType, " ", r.ProtocolEncoding), true, "", ""
	})
	call(ctx, "utils.FetchSource", tag, x, func() (string, bool, string, string) {
		s, err := utils.FetchSource(utils.InputUrl(x), "", utils.DefaultUrlFetcher, false)
		if err != nil {
			if s.Content != nil {
				return "both", true, "result-xor-error", "FetchSource returned content AND an error: " + err.Error()
			}
			return "error", false, "", ""
		}
		return fmt.Sprint("ok ", len(s.Content)), true, "", ""
	})
}

func execURLJoin(ctx *engine.Ctx, tag, x string) {
	for _, base := range []string{"http://h/p/", "", "file:///d/f.html", "%zz"} {
		for _, rel := range []bool{false, true} {
			base, rel := base, rel
			call(ctx, "utils.SafeUrljoin", fmt.Sprintf("%s,base=%q,rel=%v", tag, base, rel), x, func() (string, bool, string, string) {
				out, err := utils.SafeUrljoin(base, x, rel)
				if err != nil {
					if out != "" {
						return "both", true, "result-xor-error", "SafeUrljoin returned a URL AND an error: " + err.Error()
					}
					return "error", false, "", ""
				}
				return "ok:" + out, true, "", ""
			})
		}
	}
	call(ctx, "utils.UrlJoin", tag, x, func() (string, bool, string, string) {
		return utils.UrlJoin("http://h/p/", x, false, "t"), true, "", ""
	})
	call(ctx, "utils.Unquote", tag, x, func() (string, bool, string, string) {
		return utils.Unquote(x), true, "", ""
	})
}
