package c06

// Reference tokenizer, written from CSS Syntax Module Level 3: §3.3 (preprocessing the input
// stream) and §4.3.1 – §4.3.14 (tokenizer algorithms).
//
// Dialect (the one css/parser documents, inherited from tinycss2):
//   - 2014-CR tokens are kept: <unicode-range-token>, the match tokens ~= |= ^= $= *= and the
//     column token ||; CDO and CDC are tokens;
//   - url( followed by optional white space and a quote is a <function-token> (current text);
//   - an identifier may start with "--" (current text);
//   - comments are not discarded but kept as tokens (they are dropped on demand afterwards);
//   - positions: line = 1 + number of newlines of the *preprocessed* stream before the token,
//     column = 1 + number of UTF-8 bytes of the preprocessed stream between the start of the
//     line and the token (CSS Syntax does not define columns; the Go convention of byte columns
//     is what the implementation documents by example).
//
// Nothing here imports the package under test.

import (
	"math"
	"strconv"
	"strings"
	"unicode/utf8"
)

type tkind uint8

const (
	tWS tkind = iota
	tComment
	tIdent
	tFunction
	tAt
	tHash
	tString
	tBadString
	tURL
	tBadURL
	tDelim // every delimiter-like token: <delim>, colon, semicolon, comma, CDO, CDC, match tokens, column
	tNumber
	tPercentage
	tDimension
	tURange
	tOpen  // ( [ {
	tClose // ) ] }
)

type tok struct {
	k      tkind
	val    string // unescaped value / delimiter text / comment text
	repr   string // numeric tokens: source representation
	isInt  bool
	num    float64
	unit   string
	id     bool   // hash: type flag "id"
	eof    bool   // string / url / comment ended by EOF
	lo, hi uint32 // unicode-range
	ch     byte   // tOpen / tClose: the bracket
	line   int
	col    int
}

const eof = rune(-1)

// tagset is a small set of input feature tags (a bit per known tag).
type tagset struct{ bits uint32 }

var tagNames = []string{
	"eof-in-comment", "eof-in-comment-nested", "eof-in-string", "eof-in-url", "bad-string", "bad-url",
	"bad-url:backslash-newline", "bad-url:escaped-backslash-before-paren", "bad-url:after-space", "bad-escape",
	"escape-at-eof", "eof-in-block", "unmatched-close", "escape", "nonascii", "nul",
}

func tagBit(name string) uint32 {
	for i, n := range tagNames {
		if n == name {
			return 1 << uint(i)
		}
	}
	panic("c06: unknown tag " + name)
}

func (t *tagset) add(name string)      { t.bits |= tagBit(name) }
func (t *tagset) has(name string) bool { return t.bits&tagBit(name) != 0 }

type lexer struct {
	r     []rune
	pos   int
	lines []int // per rune index (and one past the end)
	cols  []int
	perr  int     // number of "this is a parse error" reached
	tags  *tagset // input feature tags
}

// preprocess implements §3.3.
func preprocess(s string) []rune {
	in := []rune(s)
	out := make([]rune, 0, len(in))
	for i := 0; i < len(in); i++ {
		c := in[i]
		switch {
		case c == '\r':
			if i+1 < len(in) && in[i+1] == '\n' {
				i++
			}
			out = append(out, '\n')
		case c == '\f':
			out = append(out, '\n')
		case c == 0:
			out = append(out, 0xFFFD)
		default:
			out = append(out, c)
		}
	}
	return out
}

func newLexer(s string) *lexer {
	l := &lexer{r: preprocess(s), tags: &tagset{}}
	n := len(l.r)
	l.lines = make([]int, n+1)
	l.cols = make([]int, n+1)
	line, col := 1, 1
	for i := 0; i <= n; i++ {
		l.lines[i], l.cols[i] = line, col
		if i < n {
			if l.r[i] == '\n' {
				line++
				col = 1
			} else {
				col += utf8.RuneLen(l.r[i])
			}
		}
	}
	for _, c := range s {
		if c >= 0x80 {
			l.tags.add("nonascii")
		}
		if c == 0 {
			l.tags.add("nul")
		}
	}
	return l
}

func (l *lexer) at(i int) rune {
	if l.pos+i < len(l.r) {
		return l.r[l.pos+i]
	}
	return eof
}

func (l *lexer) parseError(tag string) {
	l.perr++
	l.tags.add(tag)
}

// §4.2 definitions
func isDigit(c rune) bool { return c >= '0' && c <= '9' }
func isHex(c rune) bool {
	return isDigit(c) || (c >= 'a' && c <= 'f') || (c >= 'A' && c <= 'F')
}
func isLetter(c rune) bool    { return (c >= 'a' && c <= 'z') || (c >= 'A' && c <= 'Z') }
func isNameStart(c rune) bool { return isLetter(c) || c >= 0x80 || c == '_' }
func isName(c rune) bool      { return c != eof && (isNameStart(c) || isDigit(c) || c == '-') }
func isWS(c rune) bool        { return c == ' ' || c == '\t' || c == '\n' }
func isNonPrintable(c rune) bool {
	return (c >= 0 && c <= 8) || c == 0xb || (c >= 0xe && c <= 0x1f) || c == 0x7f
}

// §4.3.8 check if two code points are a valid escape
func validEscape(a, b rune) bool { return a == '\\' && b != '\n' }

// §4.3.9 check if three code points would start an identifier
func startsIdent(a, b, c rune) bool {
	switch {
	case a == '-':
		return (b != eof && isNameStart(b)) || b == '-' || validEscape(b, c)
	case a != eof && isNameStart(a):
		return true
	case a == '\\':
		return validEscape(a, b)
	}
	return false
}

// §4.3.10 check if three code points would start a number
func startsNumber(a, b, c rune) bool {
	switch {
	case a == '+' || a == '-':
		if isDigit(b) {
			return true
		}
		return b == '.' && isDigit(c)
	case a == '.':
		return isDigit(b)
	}
	return isDigit(a)
}

// §4.3.7 consume an escaped code point (the backslash has been consumed)
func (l *lexer) consumeEscape() rune {
	l.tags.add("escape")
	c := l.at(0)
	if c == eof {
		l.parseError("escape-at-eof")
		return 0xFFFD
	}
	if isHex(c) {
		start := l.pos
		for l.pos-start < 6 && l.at(0) != eof && isHex(l.at(0)) {
			l.pos++
		}
		v, _ := strconv.ParseInt(string(l.r[start:l.pos]), 16, 32)
		if isWS(l.at(0)) {
			l.pos++
		}
		if v == 0 || (v >= 0xD800 && v <= 0xDFFF) || v > 0x10FFFF {
			return 0xFFFD
		}
		return rune(v)
	}
	l.pos++
	return c
}

// §4.3.11 consume a name
func (l *lexer) consumeName() string {
	var sb strings.Builder
	for {
		c := l.at(0)
		if isName(c) {
			sb.WriteRune(c)
			l.pos++
		} else if validEscape(c, l.at(1)) {
			l.pos++
			sb.WriteRune(l.consumeEscape())
		} else {
			return sb.String()
		}
	}
}

// §4.3.12 consume a number + §4.3.13 convert a string to a number
func (l *lexer) consumeNumber() (repr string, isInt bool, value float64) {
	start := l.pos
	isInt = true
	sign := 1.0
	if c := l.at(0); c == '+' || c == '-' {
		if c == '-' {
			sign = -1
		}
		l.pos++
	}
	var intPart, frac float64
	fracDigits := 0
	for isDigit(l.at(0)) {
		intPart = intPart*10 + float64(l.at(0)-'0')
		l.pos++
	}
	if l.at(0) == '.' && isDigit(l.at(1)) {
		isInt = false
		l.pos++
		for isDigit(l.at(0)) {
			frac = frac*10 + float64(l.at(0)-'0')
			fracDigits++
			l.pos++
		}
	}
	expSign, exp := 1.0, 0.0
	if c := l.at(0); c == 'e' || c == 'E' {
		b, d := l.at(1), l.at(2)
		if isDigit(b) || ((b == '+' || b == '-') && isDigit(d)) {
			isInt = false
			l.pos++
			if b == '+' || b == '-' {
				if b == '-' {
					expSign = -1
				}
				l.pos++
			}
			for isDigit(l.at(0)) {
				exp = exp*10 + float64(l.at(0)-'0')
				l.pos++
			}
		}
	}
	mant := intPart + frac*math.Pow(10, -float64(fracDigits))
	if mant == 0 {
		value = 0 // (0 · 10^e) is 0 whatever e; do not let float64 turn 0·∞ into NaN
	} else {
		value = sign * mant * math.Pow(10, expSign*exp)
	}
	return string(l.r[start:l.pos]), isInt, value
}

// §4.3.3 consume a numeric token
func (l *lexer) consumeNumeric() tok {
	repr, isInt, v := l.consumeNumber()
	t := tok{repr: repr, isInt: isInt, num: v}
	if startsIdent(l.at(0), l.at(1), l.at(2)) {
		t.k = tDimension
		t.unit = l.consumeName()
		return t
	}
	if l.at(0) == '%' {
		l.pos++
		t.k = tPercentage
		return t
	}
	t.k = tNumber
	return t
}

// §4.3.5 consume a string token (the opening quote has been consumed)
func (l *lexer) consumeString(end rune) tok {
	var sb strings.Builder
	for {
		c := l.at(0)
		switch {
		case c == end:
			l.pos++
			return tok{k: tString, val: sb.String()}
		case c == eof:
			l.parseError("eof-in-string")
			return tok{k: tString, val: sb.String(), eof: true}
		case c == '\n':
			l.parseError("bad-string")
			return tok{k: tBadString} // the newline is not consumed
		case c == '\\':
			if l.at(1) == eof {
				l.pos++ // do nothing
				l.tags.add("escape-at-eof")
			} else if l.at(1) == '\n' {
				l.pos += 2
			} else {
				l.pos++
				sb.WriteRune(l.consumeEscape())
			}
		default:
			sb.WriteRune(c)
			l.pos++
		}
	}
}

// §4.3.14 consume the remnants of a bad url
func (l *lexer) consumeBadURLRemnants() {
	for {
		c := l.at(0)
		if c == eof {
			return
		}
		if c == ')' {
			l.pos++
			return
		}
		if validEscape(c, l.at(1)) {
			if l.at(1) == '\\' && l.at(2) == ')' {
				l.tags.add("bad-url:escaped-backslash-before-paren")
			}
			l.pos++
			l.consumeEscape()
		} else {
			l.pos++
		}
	}
}

// §4.3.6 consume a url token (after "url(")
func (l *lexer) consumeURL() tok {
	for isWS(l.at(0)) {
		l.pos++
	}
	var sb strings.Builder
	for {
		c := l.at(0)
		switch {
		case c == ')':
			l.pos++
			return tok{k: tURL, val: sb.String()}
		case c == eof:
			l.parseError("eof-in-url")
			return tok{k: tURL, val: sb.String(), eof: true}
		case isWS(c):
			for isWS(l.at(0)) {
				l.pos++
			}
			if l.at(0) == ')' {
				l.pos++
				return tok{k: tURL, val: sb.String()}
			}
			if l.at(0) == eof {
				l.parseError("eof-in-url")
				return tok{k: tURL, val: sb.String(), eof: true}
			}
			l.parseError("bad-url")
			l.tags.add("bad-url:after-space")
			l.consumeBadURLRemnants()
			return tok{k: tBadURL}
		case c == '"' || c == '\'' || c == '(' || isNonPrintable(c):
			l.parseError("bad-url")
			l.consumeBadURLRemnants()
			return tok{k: tBadURL}
		case c == '\\':
			if validEscape(c, l.at(1)) {
				l.pos++
				sb.WriteRune(l.consumeEscape())
			} else {
				l.parseError("bad-url")
				l.tags.add("bad-url:backslash-newline")
				l.consumeBadURLRemnants()
				return tok{k: tBadURL}
			}
		default:
			sb.WriteRune(c)
			l.pos++
		}
	}
}

// §4.3.4 consume an ident-like token
func (l *lexer) consumeIdentLike() tok {
	name := l.consumeName()
	if lower(name) == "url" && l.at(0) == '(' {
		l.pos++
		// "While the next two input code points are whitespace, consume the next input code
		// point": the white space is left to the whitespace token of the function's arguments
		// (its extent is not observable in the neutral form) – only look ahead.
		i := 0
		for isWS(l.at(i)) {
			i++
		}
		if c := l.at(i); c == '"' || c == '\'' {
			return tok{k: tFunction, val: name}
		}
		return l.consumeURL()
	}
	if l.at(0) == '(' {
		l.pos++
		return tok{k: tFunction, val: name}
	}
	return tok{k: tIdent, val: name}
}

// CSS Syntax 3 CR 2014 §4.3.7 consume a unicode-range token ("U+" has been consumed)
func (l *lexer) consumeUnicodeRange() tok {
	start := l.pos
	n := 0
	for n < 6 && l.at(0) != eof && isHex(l.at(0)) {
		l.pos++
		n++
	}
	q := 0
	for n+q < 6 && l.at(0) == '?' {
		l.pos++
		q++
	}
	s := string(l.r[start : l.pos-q])
	if q > 0 {
		a, _ := strconv.ParseUint(s+strings.Repeat("0", q), 16, 32)
		b, _ := strconv.ParseUint(s+strings.Repeat("F", q), 16, 32)
		return tok{k: tURange, lo: uint32(a), hi: uint32(b)}
	}
	a, _ := strconv.ParseUint(s, 16, 32)
	if l.at(0) == '-' && l.at(1) != eof && isHex(l.at(1)) {
		l.pos++
		st := l.pos
		m := 0
		for m < 6 && l.at(0) != eof && isHex(l.at(0)) {
			l.pos++
			m++
		}
		b, _ := strconv.ParseUint(string(l.r[st:l.pos]), 16, 32)
		return tok{k: tURange, lo: uint32(a), hi: uint32(b)}
	}
	return tok{k: tURange, lo: uint32(a), hi: uint32(a)}
}

func delim(s string) tok { return tok{k: tDelim, val: s} }

// §4.3.1 consume a token; ok is false at EOF.
func (l *lexer) next() (t tok, ok bool) {
	c := l.at(0)
	if c == eof {
		return tok{}, false
	}
	start := l.pos
	defer func() {
		t.line, t.col = l.lines[start], l.cols[start]
	}()
	ok = true
	switch {
	case c == '/' && l.at(1) == '*': // §4.3.2 consume comments
		l.pos += 2
		st := l.pos
		for {
			if l.at(0) == eof {
				l.parseError("eof-in-comment")
				return tok{k: tComment, val: string(l.r[st:l.pos]), eof: true}, true
			}
			if l.at(0) == '*' && l.at(1) == '/' {
				t = tok{k: tComment, val: string(l.r[st:l.pos])}
				l.pos += 2
				return t, true
			}
			l.pos++
		}
	case isWS(c):
		for isWS(l.at(0)) {
			l.pos++
		}
		return tok{k: tWS}, true
	case c == '"' || c == '\'':
		l.pos++
		return l.consumeString(c), true
	case c == '#':
		if isName(l.at(1)) || validEscape(l.at(1), l.at(2)) {
			l.pos++
			t = tok{k: tHash}
			t.id = startsIdent(l.at(0), l.at(1), l.at(2))
			t.val = l.consumeName()
			return t, true
		}
		l.pos++
		return delim("#"), true
	case c == '$' || c == '*' || c == '^' || c == '~': // CR 2014 match tokens
		if l.at(1) == '=' {
			l.pos += 2
			return delim(string(c) + "="), true
		}
		l.pos++
		return delim(string(c)), true
	case c == '|':
		if l.at(1) == '=' {
			l.pos += 2
			return delim("|="), true
		}
		if l.at(1) == '|' {
			l.pos += 2
			return delim("||"), true
		}
		l.pos++
		return delim("|"), true
	case c == '(' || c == '[' || c == '{':
		l.pos++
		return tok{k: tOpen, ch: byte(c)}, true
	case c == ')' || c == ']' || c == '}':
		l.pos++
		return tok{k: tClose, ch: byte(c)}, true
	case c == ',' || c == ':' || c == ';':
		l.pos++
		return delim(string(c)), true
	case c == '+' || c == '.':
		if startsNumber(c, l.at(1), l.at(2)) {
			return l.consumeNumeric(), true
		}
		l.pos++
		return delim(string(c)), true
	case c == '-':
		if startsNumber(c, l.at(1), l.at(2)) {
			return l.consumeNumeric(), true
		}
		if l.at(1) == '-' && l.at(2) == '>' {
			l.pos += 3
			return delim("-->"), true
		}
		if startsIdent(c, l.at(1), l.at(2)) {
			return l.consumeIdentLike(), true
		}
		l.pos++
		return delim("-"), true
	case c == '<':
		if l.at(1) == '!' && l.at(2) == '-' && l.at(3) == '-' {
			l.pos += 4
			return delim("<!--"), true
		}
		l.pos++
		return delim("<"), true
	case c == '@':
		if startsIdent(l.at(1), l.at(2), l.at(3)) {
			l.pos++
			return tok{k: tAt, val: l.consumeName()}, true
		}
		l.pos++
		return delim("@"), true
	case c == '\\':
		if validEscape(c, l.at(1)) {
			return l.consumeIdentLike(), true
		}
		l.parseError("bad-escape")
		l.pos++
		return delim("\\"), true
	case isDigit(c):
		return l.consumeNumeric(), true
	case c == 'u' || c == 'U': // CR 2014
		if l.at(1) == '+' && ((l.at(2) != eof && isHex(l.at(2))) || l.at(2) == '?') {
			l.pos += 2
			return l.consumeUnicodeRange(), true
		}
		return l.consumeIdentLike(), true
	case isNameStart(c):
		return l.consumeIdentLike(), true
	default:
		l.pos++
		return delim(string(c)), true
	}
}

// lex returns the flat token list of s.
func lex(s string) (toks []tok, l *lexer) {
	l = newLexer(s)
	for {
		t, ok := l.next()
		if !ok {
			return toks, l
		}
		toks = append(toks, t)
	}
}
