// Package c06: CSS text is tokenized and parsed as CSS Syntax Level 3 prescribes.
//
// Every string of a family of prefix trees is given to every entry point of css/parser and
// the result is compared with an independent reference implementation of CSS Syntax 3
// (ref_tokenizer.go, ref_parser.go, ref_nth.go): complete token values, nesting, error
// tokens, numeric values, source positions, rules, declarations, !important, an+b; and,
// for inputs that contain an error, the same with three sentinel suffixes appended (error
// recovery must neither swallow nor pollute what follows).
package c06

import (
	"fmt"
	"os"
	"sort"
	"strconv"
	"strings"

	pa "github.com/benoitkugler/webrender/css/parser"

	"verif/internal/cssn"
	"verif/internal/engine"
)

type check struct {
	ms       engine.MultiStr
	selfTest string // non-empty: the reference failed its own specification examples
}

func init() { engine.Register(&check{}) }

func (c *check) ID() string { return "C06" }

func split(s string) []string {
	var out []string
	for _, r := range s {
		out = append(out, string(r))
	}
	return out
}

// Σ₀: one symbol per code-point class of CSS Syntax §4.2/§4.3 plus every literal the tokenizer
// tests for.
var sigma0 = append(split("aeuU-\\0.+/*\"'\n (){}[];:!#@%<>,?=|é"), "\t")

func (c *check) Init(tier string, seed int64) engine.Space {
	full, f9, f8, cm, ctl := 4, 6, 6, 6, 4
	if tier == "thorough" {
		full, f9, f8, cm, ctl = 5, 7, 8, 7, 5
	}
	c.ms = engine.MultiStr{Batch: 1024, Spaces: []*engine.StrSpace{
		{Name: "full", Alphabet: sigma0, MaxLen: full},
		{Name: "escapes", Alphabet: split("\\0af \n\"é-"), MaxLen: f9},
		{Name: "hexescapes", Alphabet: []string{"\\", "0", "00", "1", "d8", "f", " ", "g", "\n"}, MaxLen: f9},
		{Name: "numbers", Alphabet: split("0.eE+-%a1"), MaxLen: f9},
		{Name: "urls", Alphabet: []string{"url(", ")", "(", " ", "\"", "\\", "a", "\n", "'"}, MaxLen: f9},
		{Name: "comments", Alphabet: split("/*(){a\n\""), MaxLen: cm},
		{Name: "blocks", Alphabet: split("()[]{}a;"), MaxLen: f8},
		{Name: "declarations", Alphabet: []string{"a", ":", ";", "!", "important", "{", "}", " ", "/**/"}, MaxLen: f9},
		{Name: "atcdo", Alphabet: split("@a;{}<!->"), MaxLen: f9},
		{Name: "nth", Alphabet: []string{"n", "N", "-", "+", "1", "0", " ", "odd", "even", "/**/"}, MaxLen: 6},
		{Name: "urange", Alphabet: []string{"u+", "U+", "a", "aa", "?", "??", "-", "g", "0"}, MaxLen: f9},
		{Name: "controls", Alphabet: []string{"\t", "\r", "\f", "\x00", "\x0b", "\x7f", "\n", " ", "a", "url(", ")", "\"", "\\"}, MaxLen: ctl},
	}}
	// development aid: C06_SPACES=a,b restricts the exploration to the named spaces
	if only := os.Getenv("C06_SPACES"); only != "" {
		var keep []*engine.StrSpace
		for _, sp := range c.ms.Spaces {
			if strings.Contains(","+only+",", ","+sp.Name+",") {
				keep = append(keep, sp)
			}
		}
		c.ms.Spaces = keep
	}
	c.selfTest = refSelfTest()
	return engine.Space{
		Units: c.ms.Units(), Chunk: 4, Level: "model_checking",
		Rule:   "every string of the prefix trees over the listed alphabets up to the listed lengths (index-addressable, shortest first) is a state; each is given to Tokenize (with and without comments), ParseStylesheetBytes, ParseRuleList, ParseDeclarationListString, ParseBlocksContents(String), ParseOneDeclaration, ParseOneComponentValue and ParseNth and compared with the reference CSS Syntax 3 implementation; strings in which the reference meets a parse error are additionally explored with a sentinel suffix appended (\" g\", \";b:c\" and \"}d{e:f}\" after a token-level error, \";b:c\" after an invalid declaration, \"}d{e:f}\" after an invalid rule) and compared in full again; a case is non-trivial when it produces at least one token",
		Bounds: map[string]any{"string_spaces": c.ms.Bounds(), "strings_total": c.ms.Total(), "sentinels": sentinels},
		Assumptions: []string{
			"code points outside the class representatives of the alphabets behave like their representative (the predicates of tokenizer.go test classes, plus literals that are all in the alphabets)",
			"strings longer than the bounds are not explored",
			"dialect: 2014-CR tokens (unicode-range, match tokens, ||), url( + quote is a function, comments kept as values, errors reported in-line, outer white space of declaration values not compared",
			"columns are counted in UTF-8 bytes of the preprocessed stream (CSS Syntax does not define columns)",
			"numeric values are compared with float32 precision inside the float32 range only",
			"ParseBlocksContents is compared with the draft algorithm \"consume a block's contents\" (not in the CR), with an unmatched } treated as an ordinary value",
			"the rule-level reference algorithms run on the implementation's component values (tokenizer disagreements are reported by the token clauses on the same input)",
			"ParseColorString is not covered here (C07 covers its crashes)",
		},
	}
}

var sentinels = []string{";b:c", "}d{e:f}", " g"}

var (
	optKeep = cssn.Options{KeepComments: true, ErrorFlags: true}
)

// error-ish tags that characterise the region of the input space (features of failures).
var featureTags = []string{
	"eof-in-comment", "eof-in-comment-nested", "eof-in-string", "eof-in-url", "bad-string", "bad-url",
	"bad-url:backslash-newline", "bad-url:escaped-backslash-before-paren", "bad-escape", "escape-at-eof", "eof-in-block", "unmatched-close",
}

func features(tags *tagset, extra ...string) []string {
	var out []string
	for _, t := range featureTags {
		if tags.has(t) {
			out = append(out, t)
		}
	}
	for _, e := range extra {
		if e != "" {
			out = append(out, e)
		}
	}
	return out
}

// results of the implementation on one input
type implRes struct {
	toks, toksS       []pa.Token
	sheet, sheetS     []pa.Compound
	rules, rulesS     []pa.Compound
	decls, declsS     []pa.Compound
	blocks, blocksS   []pa.Compound
	oneDecl, oneDeclS pa.Compound
	oneValue          pa.Token
	nth, nthS         *[2]int
}

type counters map[string]int64

func (c *check) Run(u int64, ctx *engine.Ctx) {
	sp, lo, hi := c.ms.Unit(u)
	cnt := counters{}
	if c.selfTest != "" {
		ctx.Fail(engine.Failure{Clause: "reference-selftest", Case: "reference examples", Detail: c.selfTest})
	}
	for i := lo; i < hi; i++ {
		c.one(ctx, cnt, sp.Name, sp.At(i))
	}
	for k, v := range cnt {
		ctx.Count(k, v)
	}
}

func nthStr(p *[2]int) string {
	if p == nil {
		return "invalid"
	}
	return fmt.Sprintf("%dn%+d", p[0], p[1])
}

func short(s string) string {
	if len(s) > 240 {
		return s[:240] + "…"
	}
	return s
}

// reporter is the part of *engine.Ctx the check uses (a collector implements it in the
// package's development tests).
type reporter interface {
	Fail(engine.Failure)
	Case(nontrivial bool, outcome string)
	Trans(n int64)
	Guard(desc string, f func()) (*engine.PanicInfo, bool)
}

type caseCtx struct {
	ctx  reporter
	cnt  counters
	desc string
	tags *tagset
}

func (cc *caseCtx) fail(clause, entry, want, got string, extra ...string) {
	cc.ctx.Fail(engine.Failure{Clause: clause, Features: features(cc.tags, extra...), Case: cc.desc + " as " + entry,
		Detail: "reference: " + short(want) + "\nimplementation: " + short(got)})
}

// compareTokens checks one token list against the reference list (already stripped of comments
// when the implementation was asked to skip them).
func (cc *caseCtx) compareTokens(clause, entry string, impl []pa.Token, ref []*node, want string) bool {
	got := cssn.List(impl, optKeep)
	cc.cnt["tokens-compared"]++
	if want != got {
		cc.fail(clause, entry, want, got)
		return false
	}
	var r walkRes
	walk(impl, ref, &r)
	cc.cnt["positions-compared"] += int64(r.nPos)
	cc.cnt["numeric-values-compared"] += int64(r.nNum)
	if r.shape != "" {
		cc.fail(clause, entry, "same shape", r.shape)
		return false
	}
	if r.posDiff != "" {
		var ex []string
		if cc.tags.has("nonascii") {
			ex = append(ex, "nonascii")
		}
		if cc.tags.has("nul") {
			ex = append(ex, "nul")
		}
		cc.ctx.Fail(engine.Failure{Clause: positionsClause(clause), Features: features(cc.tags, ex...), Case: cc.desc + " as " + entry, Detail: r.posDiff})
	}
	if r.numDiff != "" {
		cc.ctx.Fail(engine.Failure{Clause: "numeric-value", Features: features(cc.tags), Case: cc.desc + " as " + entry, Detail: r.numDiff})
	}
	return true
}

func positionsClause(clause string) string {
	if strings.HasPrefix(clause, "recovery") {
		return "recovery-positions"
	}
	return "positions"
}

func (cc *caseCtx) compareItems(clause, entry string, impl []pa.Compound, ref []item, extra ...string) {
	want := itemsStr(ref, true)
	got := cssn.Compounds(trimDecl(impl), optKeep)
	cc.cnt[clause+"-compared"]++
	if want != got {
		cc.fail(clause, entry, want, got, extra...)
		return
	}
	for _, it := range ref {
		switch it.k {
		case iQRule:
			cc.cnt["reach:qualified-rules"]++
		case iAtRule:
			cc.cnt["reach:at-rules"]++
		case iDecl:
			cc.cnt["reach:declarations"]++
			if it.important {
				cc.cnt["reach:important-declarations"]++
			}
		case iError:
			cc.cnt["reach:rule-level-errors"]++
		}
	}
	if d, n := itemPos(impl, ref, true); d != "" {
		cc.ctx.Fail(engine.Failure{Clause: "positions-rules", Features: features(cc.tags), Case: cc.desc + " as " + entry, Detail: d})
	} else {
		cc.cnt["rule-positions-compared"] += int64(n)
	}
}

func hasErrItem(l []item) bool {
	for _, it := range l {
		if it.k == iError {
			return true
		}
	}
	return false
}

// declFeatures: input-derived tags for the declaration clauses, computed on the component
// values: for every top-level segment between ";"s (the whole list for "parse a declaration",
// which does not stop at ";"), what follows its first ":".
func declFeatures(l []*node, split bool) []string {
	severalBangs, bangBeforeCurly, afterCurly, custom := false, false, false, false
	start := 0
	for i := 0; i <= len(l); i++ {
		if i < len(l) && !(split && isLit(l[i], ";")) {
			continue
		}
		seg := l[start:i]
		start = i + 1
		colon := -1
		for j, n := range seg {
			if isLit(n, ":") {
				colon = j
				break
			}
		}
		if colon < 0 {
			continue
		}
		for _, n := range seg[:colon] {
			if n.k == nIdent && strings.HasPrefix(n.val, "--") {
				custom = true
			}
		}
		bangs, curly, leadingCurly, onlyBangs, any := 0, false, false, true, false
		for _, n := range seg[colon+1:] {
			if isBlank(n) {
				continue
			}
			switch {
			case isLit(n, "!"):
				bangs++
				if leadingCurly {
					afterCurly = true
				}
			case n.k == nCurly:
				if leadingCurly {
					afterCurly = true
				}
				if !curly {
					if !any {
						leadingCurly = true
					} else if onlyBangs && bangs > 0 {
						bangBeforeCurly = true
					}
				}
				curly = true
			default:
				if !(n.k == nIdent && lower(n.val) == "important") {
					onlyBangs = false
				}
				if leadingCurly {
					afterCurly = true
				}
			}
			any = true
		}
		if bangs >= 2 {
			severalBangs = true
		}
	}
	var out []string
	if severalBangs {
		out = append(out, "several-bangs")
	}
	if bangBeforeCurly {
		out = append(out, "only-bang-before-curly-block")
	}
	if afterCurly {
		out = append(out, "value-after-leading-curly-block")
	}
	if custom {
		out = append(out, "custom-property-name")
	}
	return out
}

// Dialect: css/parser ends a declaration of a block's contents at its first {} block, so the
// white space and comments between that block and the ";" are reported as entries of their
// own instead of being trimmed from the value. White space and comment entries are not
// constructs of CSS Syntax; entries that directly follow a declaration are left out of the
// block's-contents comparison.
func dropBlankAfterDeclImpl(l []pa.Compound) []pa.Compound {
	out := make([]pa.Compound, 0, len(l))
	after := false
	for _, c := range l {
		switch c.(type) {
		case pa.Declaration:
			after = true
		case pa.Whitespace, pa.Comment:
			if after {
				continue
			}
		default:
			after = false
		}
		out = append(out, c)
	}
	return out
}

func dropBlankAfterDeclRef(l []item) []item {
	out := make([]item, 0, len(l))
	after := false
	for _, it := range l {
		switch it.k {
		case iDecl:
			after = true
		case iWS, iComment:
			if after {
				continue
			}
		default:
			after = false
		}
		out = append(out, it)
	}
	return out
}

func (c *check) one(ctx reporter, cnt counters, space, x string) {
	desc := fmt.Sprintf("%s:%q", space, x)
	ref, perr, tags := parseComponentValues(x)
	refS := dropComments(ref)
	cc := &caseCtx{ctx: ctx, cnt: cnt, desc: desc, tags: tags}
	ctx.Trans(1)

	var r implRes
	stage := ""
	bx := []byte(x)
	pi, skipped := ctx.Guard(desc, func() {
		stage = "Tokenize"
		r.toks = pa.Tokenize(bx, false)
		stage = "Tokenize-skip-comments"
		r.toksS = pa.Tokenize(bx, true)
		stage = "ParseStylesheetBytes"
		r.sheet = pa.ParseStylesheetBytes(bx, false, false)
		r.sheetS = pa.ParseStylesheet(r.toksS, true, true) // what ParseStylesheetBytes(…, true, true) does after tokenizing
		stage = "ParseRuleList"
		r.rules = pa.ParseRuleList(r.toks, false, false)
		r.rulesS = pa.ParseRuleList(r.toksS, true, true)
		stage = "ParseDeclarationListString"
		r.decls = pa.ParseDeclarationListString(x, false, false)
		r.declsS = pa.ParseDeclarationList(r.toksS, true, true)
		stage = "ParseBlocksContentsString"
		r.blocks = pa.ParseBlocksContentsString(x)
		r.blocksS = pa.ParseBlocksContents(r.toksS, true)
		stage = "ParseOneDeclaration"
		r.oneDecl = pa.ParseOneDeclaration(r.toks)
		r.oneDeclS = pa.ParseOneDeclaration(r.toksS)
		stage = "ParseOneComponentValue"
		r.oneValue = pa.ParseOneComponentValue(r.toks)
		stage = "ParseNth"
		r.nth = pa.ParseNth(r.toks)
		r.nthS = pa.ParseNth(r.toksS)
	})
	if skipped {
		ctx.Case(false, "skipped")
		return
	}
	if pi != nil {
		ctx.Fail(engine.Failure{Clause: "panic", Site: pi.Site, Features: features(tags, "in:"+stage), Case: desc, Detail: pi.Msg})
		ctx.Case(len(ref) > 0, "panic")
		return
	}

	// (1) tokens
	refStr := listStr(ref, true)
	cc.compareTokens("tokens", "Tokenize", r.toks, ref, refStr)
	cc.compareTokens("tokens", "Tokenize(skipComments)", r.toksS, refS, listStr(refS, true))

	// (2) rules and declarations; the reference algorithms run on the implementation's values
	nk, ns := fromImpl(r.toks), fromImpl(r.toksS)
	df, df1 := declFeatures(nk, true), declFeatures(nk, false)
	sheet := consumeRuleList(nk, true, false, false)
	cc.compareItems("stylesheet", "ParseStylesheetBytes(false,false)", r.sheet, sheet)
	cc.compareItems("stylesheet", "ParseStylesheet(skipComments tokens,true,true)", r.sheetS, consumeRuleList(ns, true, true, true))
	rules := consumeRuleList(nk, false, false, false)
	cc.compareItems("rule-list", "ParseRuleList(false,false)", r.rules, rules)
	cc.compareItems("rule-list", "ParseRuleList(true,true)", r.rulesS, consumeRuleList(ns, false, true, true))
	decls := consumeDeclarationList(nk, false, false)
	cc.compareItems("declaration-list", "ParseDeclarationListString(false,false)", r.decls, decls, df...)
	cc.compareItems("declaration-list", "ParseDeclarationList(skipComments tokens,true,true)", r.declsS, consumeDeclarationList(ns, true, true), df...)
	blocks := consumeBlocksContents(nk, false)
	cc.compareItems("blocks-contents", "ParseBlocksContentsString", dropBlankAfterDeclImpl(r.blocks), dropBlankAfterDeclRef(blocks), df...)
	cc.compareItems("blocks-contents", "ParseBlocksContents(skipComments tokens,true)", dropBlankAfterDeclImpl(r.blocksS), dropBlankAfterDeclRef(consumeBlocksContents(ns, true)), df...)
	cc.compareItems("one-declaration", "ParseOneDeclaration", []pa.Compound{r.oneDecl}, []item{parseOneDeclaration(nk)}, df1...)
	cc.compareItems("one-declaration", "ParseOneDeclaration(skipComments tokens)", []pa.Compound{r.oneDeclS}, []item{parseOneDeclaration(ns)}, df1...)

	{
		v, e := parseOneComponentValue(nk)
		var want string
		if e != 0 {
			want = "error(" + string(rune(e)) + ") "
		} else {
			want = listStr([]*node{v}, true)
			cnt["reach:single-component-values"]++
		}
		got := cssn.List([]pa.Token{r.oneValue}, optKeep)
		cnt["one-component-value-compared"]++
		if want != got {
			cc.fail("one-component-value", "ParseOneComponentValue", want, got)
		}
	}

	// (4) an+b, on the reference's own component values when the token clause holds
	var nthKey string
	{
		a, b, ok := refNth(ns)
		want := "invalid"
		if ok {
			want = fmt.Sprintf("%dn%+d", a, b)
			cnt["reach:valid-an+b"]++
		}
		nthKey = want
		cnt["nth-compared"]++
		if big := 1 << 24; ok && (a > big || a < -big || b > big || b < -big) {
			// integers the implementation's float32 storage cannot represent: range and
			// precision of numbers are implementation-defined (CSS Values), not compared
			cnt["nth-not-compared-beyond-2^24"]++
		} else if got := nthStr(r.nthS); got != want {
			cc.fail("nth", "ParseNth(skipComments tokens)", want, got)
		}
		// with comments kept as values: comments are not tokens for CSS Syntax
		if big := 1 << 24; ok && (a > big || a < -big || b > big || b < -big) {
		} else if got := nthStr(r.nth); got != want {
			ex := ""
			if strings.Contains(x, "+/*") {
				ex = "comment-after-plus"
			}
			cc.fail("nth", "ParseNth(tokens with comments)", want, got, ex)
		}
	}

	// (3) error recovery by concatenation: every input in which the reference meets a parse
	// error (token level for all sentinels; rule level for the sentinel of that level)
	if perr > 0 {
		cnt["reach:inputs-with-a-token-level-error"]++
	}
	if perr > 0 || hasErrItem(decls) || hasErrItem(blocks) {
		cnt["reach:inputs-with-a-declaration-level-error"]++
		c.sentinel(cc, x, ";b:c")
	}
	if perr > 0 || hasErrItem(sheet) || hasErrItem(rules) {
		cnt["reach:inputs-with-a-rule-level-error"]++
		c.sentinel(cc, x, "}d{e:f}")
	}
	if perr > 0 {
		c.sentinel(cc, x, " g")
	}

	ctx.Case(len(ref) > 0, refStr+"|"+nthKey)
}

// lastIs reports whether the last entry of l is the sentinel construct, intact.
func lastIs(l []item, want string) bool {
	if len(l) == 0 {
		return false
	}
	return itemsStr(l[len(l)-1:], true) == want
}

func (c *check) sentinel(cc *caseCtx, x, s string) {
	y := x + s
	ref, _, tags := parseComponentValues(y)
	sc := &caseCtx{ctx: cc.ctx, cnt: cc.cnt, desc: cc.desc + "+" + strconv.Quote(s), tags: tags}
	by := []byte(y)
	var toks []pa.Token
	var a, b []pa.Compound
	stage := ""
	pi, skipped := cc.ctx.Guard(sc.desc, func() {
		stage = "Tokenize"
		toks = pa.Tokenize(by, false)
		switch s {
		case ";b:c":
			// the String/Bytes entry points only tokenize first (parser.go); the token variants
			// are used here to tokenize each sentinel input once
			stage = "ParseDeclarationList"
			a = pa.ParseDeclarationList(toks, false, false)
			stage = "ParseBlocksContents"
			b = pa.ParseBlocksContents(toks, false)
		case "}d{e:f}":
			stage = "ParseStylesheet"
			a = pa.ParseStylesheet(toks, false, false)
			stage = "ParseRuleList"
			b = pa.ParseRuleList(toks, false, false)
		}
	})
	if skipped {
		return
	}
	if pi != nil {
		cc.ctx.Fail(engine.Failure{Clause: "panic", Site: pi.Site, Features: features(tags, "in:"+stage), Case: sc.desc, Detail: pi.Msg})
		return
	}
	cc.cnt["sentinel-runs"]++
	sc.compareTokens("recovery-tokens", "Tokenize", toks, ref, listStr(ref, true))
	nk := fromImpl(toks)
	df := declFeatures(nk, true)
	switch s {
	case ";b:c":
		const intact = "decl(\"b\")[ident(\"c\") ]\n"
		ra := consumeDeclarationList(nk, false, false)
		rb := consumeBlocksContents(nk, false)
		if lastIs(ra, intact) {
			cc.cnt["reach:sentinel-declaration-survives"]++
		} else {
			cc.cnt["reach:sentinel-declaration-absorbed-by-spec"]++
		}
		sc.compareItems("recovery-declarations", "ParseDeclarationList(false,false)", a, ra, df...)
		sc.compareItems("recovery-declarations", "ParseBlocksContents", dropBlankAfterDeclImpl(b), dropBlankAfterDeclRef(rb), df...)
	case "}d{e:f}":
		const intact = "qrule[ident(\"d\") ]{ident(\"e\") lit(\":\") ident(\"f\") }\n"
		ra := consumeRuleList(nk, true, false, false)
		rb := consumeRuleList(nk, false, false, false)
		if lastIs(ra, intact) {
			cc.cnt["reach:sentinel-rule-survives"]++
		} else {
			cc.cnt["reach:sentinel-rule-absorbed-by-spec"]++
		}
		sc.compareItems("recovery-rules", "ParseStylesheet(false,false)", a, ra)
		sc.compareItems("recovery-rules", "ParseRuleList(false,false)", b, rb)
	default:
		if n := len(ref); n >= 2 && ref[n-1].k == nIdent && ref[n-1].val == "g" && ref[n-2].k == nWS {
			cc.cnt["reach:sentinel-ident-survives"]++
		} else {
			cc.cnt["reach:sentinel-ident-absorbed-by-spec"]++
		}
	}
}

func (c *check) Describe(u int64) any {
	sp, lo, hi := c.ms.Unit(u)
	return map[string]any{"space": sp.Name, "first": sp.At(lo), "last": sp.At(hi - 1), "strings": hi - lo}
}

// FeaturesOf computes the feature tags of a case that killed its worker.
func (c *check) FeaturesOf(desc string) []string {
	i := strings.Index(desc, ":")
	if i < 0 {
		return nil
	}
	rest := desc[i+1:]
	// "<quoted x>" or "<quoted x>+<quoted s>"
	x, err := strconv.Unquote(rest)
	if err != nil {
		if j := strings.LastIndex(rest, "\"+\""); j >= 0 {
			a, e1 := strconv.Unquote(rest[:j+1])
			b, e2 := strconv.Unquote(rest[j+2:])
			if e1 == nil && e2 == nil {
				x = a + b
			}
		}
	}
	_, _, tags := parseComponentValues(x)
	f := features(tags)
	sort.Strings(f)
	return f
}
