package c06

import "fmt"

// refSelfTest runs the reference on examples taken from CSS Syntax 3 (and from the
// css-parsing-tests corpus) before anything is explored. It returns "" when all pass.
func refSelfTest() string {
	type ex struct{ in, want string }
	tokens := []ex{
		{"", ""},
		{"a", `ident("a") `},
		{`\61 b`, `ident("ab") `},
		{`\`, `ident("�") `},
		{"\\\n", `lit("\\") ws `},
		{"-", `lit("-") `},
		{"--", `ident("--") `},
		{"-->", `lit("-->") `},
		{"<!--", `lit("<!--") `},
		{"1e3", `number(1e3,num) `},
		{"1e+", `dimension(1,int,"e") lit("+") `},
		{"+.5%", `percentage(+.5,num) `},
		{"1.", `number(1,int) lit(".") `},
		{"#1", `hash("1",unrestricted) `},
		{"#a", `hash("a",id) `},
		{"#-1", `hash("-1",unrestricted) `},
		{"#", `lit("#") `},
		{"@a", `at("a") `},
		{"@1", `lit("@") number(1,int) `},
		{`"a`, `string("a",eof) error(s) `},
		{"\"a\nb", `error(b) ws ident("b") `},
		{`"a\`, `string("a",eof) error(s) `},
		{"url(a)", `url("a") `},
		{"url( a ", `url("a",eof) error(e) `},
		{"url(a b)c", `error(u) ident("c") `},
		{"url(a\\)b)c", `url("a)b") ident("c") `},
		{"url(\\\n)", `error(u) `},
		{"url('a')", `fn("url")(string("a") ) `},
		{"url(  'a'", `fn("url")(ws string("a") ) `},
		{"a(b[c{d", `fn("a")(ident("b") [ident("c") {ident("d") } ] ) `},
		{"a)b", `ident("a") error()) ident("b") `},
		{"(]})", `(error(]) error(}) ) `},
		{"(/*", `(comment("") ) `},
		{"/*a", `comment("a") `},
		{"/**/a", `comment("") ident("a") `},
		{"u+1?", `urange(10-1f) `},
		{"U+a-f", `urange(a-f) `},
		{"u+1-", `urange(1-1) lit("-") `},
		{"u+??????0", `urange(0-ffffff) number(0,int) `},
		{"~=|=^=$=*=||", `lit("~=") lit("|=") lit("^=") lit("$=") lit("*=") lit("||") `},
		{"a\r\nb\fc\x00", "ident(\"a\") ws ident(\"b\") ws ident(\"c�\") "},
		{"\\d800 \\110000 \\0 ", `ident("���") `},
	}
	for _, e := range tokens {
		l, _, _ := parseComponentValues(e.in)
		if got := listStr(l, true); got != e.want {
			return fmt.Sprintf("tokens %q: got %s want %s", e.in, got, e.want)
		}
	}
	// positions
	{
		l, _, _ := parseComponentValues("a\n é(b\n c")
		want := []int{1, 1, 1, 2, 2, 2}
		if len(l) != 3 || l[0].line != want[0] || l[0].col != want[1] || l[1].line != want[2] || l[1].col != want[3] || l[2].line != 2 || l[2].col != 2 {
			return "positions of top-level values"
		}
		a := l[2].args
		if l[2].k != nFunc || len(a) != 3 || a[0].line != 2 || a[0].col != 5 || a[2].line != 3 || a[2].col != 2 {
			return "positions inside a function"
		}
	}
	rules := func(in string, f func(l []*node) []item) string {
		l, _, _ := parseComponentValues(in)
		return itemsStr(f(l), true)
	}
	sheet := func(l []*node) []item { return consumeRuleList(l, true, true, true) }
	rlist := func(l []*node) []item { return consumeRuleList(l, false, true, true) }
	decls := func(l []*node) []item { return consumeDeclarationList(l, true, true) }
	blocks := func(l []*node) []item { return consumeBlocksContents(l, true) }
	oneD := func(l []*node) []item { return []item{parseOneDeclaration(l)} }
	type rex struct {
		in   string
		f    func(l []*node) []item
		want string
	}
	for _, e := range []rex{
		{"<!-- a{} --> @b c;", sheet, "qrule[ident(\"a\") ]{}\natrule(\"b\")[ws ident(\"c\") ];\n"},
		{"<!-- a{}", rlist, "qrule[lit(\"<!--\") ws ident(\"a\") ]{}\n"},
		{"a", sheet, "error(i)\n"},
		{"@a{", sheet, "atrule(\"a\")[]{}\n"},
		{"@a", sheet, "atrule(\"a\")[];\n"},
		{"a:b; c:d 42!important;\n", decls, "decl(\"a\")[ident(\"b\") ]\ndecl(\"c\")[ident(\"d\") ws number(42,int) ]!\n"},
		{"z;a:b", decls, "error(i)\ndecl(\"a\")[ident(\"b\") ]\n"},
		{"a:b; c+:d", decls, "decl(\"a\")[ident(\"b\") ]\nerror(i)\n"},
		{"@ media{} a:b", decls, "error(i)\n"},
		{"a:b!important!important", decls, "decl(\"a\")[ident(\"b\") lit(\"!\") ident(\"important\") ]!\n"},
		{"a:b ! /**/ ImporTant /**/ ", decls, "decl(\"a\")[ident(\"b\") ]!\n"},
		{"z:x;a b{c:d}e:f", blocks, "decl(\"z\")[ident(\"x\") ]\nqrule[ident(\"a\") ws ident(\"b\") ]{ident(\"c\") lit(\":\") ident(\"d\") }\ndecl(\"e\")[ident(\"f\") ]\n"},
		{"a:hover {c:1}", blocks, "qrule[ident(\"a\") lit(\":\") ident(\"hover\") ws ]{ident(\"c\") lit(\":\") number(1,int) }\n"},
		{"a:{}", blocks, "decl(\"a\")[{} ]\n"},
		{"a:{} b;c:d", blocks, "qrule[ident(\"a\") lit(\":\") ]{}\nerror(i)\ndecl(\"c\")[ident(\"d\") ]\n"},
		{"z;a:b", blocks, "error(i)\ndecl(\"a\")[ident(\"b\") ]\n"},
		{"", oneD, "error(E)\n"},
		{"foo:;bar:;", oneD, "decl(\"foo\")[lit(\";\") ident(\"bar\") lit(\":\") lit(\";\") ]\n"},
		{"foo: 9000  !important!", oneD, "decl(\"foo\")[number(9000,int) ws lit(\"!\") ident(\"important\") lit(\"!\") ]\n"},
		{"foo*:", oneD, "error(i)\n"},
	} {
		if got := rules(e.in, e.f); got != e.want {
			return fmt.Sprintf("rules %q: got %q want %q", e.in, got, e.want)
		}
	}
	type nex struct {
		in   string
		a, b int
		ok   bool
	}
	for _, e := range []nex{
		{"odd", 2, 1, true}, {"EVEN", 2, 0, true}, {"3", 0, 3, true}, {"+2 ", 0, 2, true}, {"+ 2", 0, 0, false},
		{"3N", 3, 0, true}, {"n", 1, 0, true}, {"+n", 1, 0, true}, {"+ n", 0, 0, false}, {"-n", -1, 0, true},
		{"3n+1", 3, 1, true}, {"3n + 1", 3, 1, true}, {"3n +1", 3, 1, true}, {"3n + -1", 0, 0, false}, {"3n- 1", 3, -1, true},
		{"3n-1", 3, -1, true}, {"-n-1", -1, -1, true}, {"+n-1", 1, -1, true}, {"n- 1", 1, -1, true}, {"-n- 1", -1, -1, true},
		{"3n -1", 3, -1, true}, {"3n - 1", 3, -1, true}, {"3n 1", 0, 0, false}, {"3.1n", 0, 0, false}, {"", 0, 0, false},
		{"+odd", 0, 0, false}, {"n-", 0, 0, false}, {"n- -1", 0, 0, false}, {"1n 2 3", 0, 0, false}, {"+-n", 0, 0, false},
	} {
		l, _, _ := parseComponentValues(e.in)
		a, b, ok := refNth(dropComments(l))
		if ok != e.ok || (ok && (a != e.a || b != e.b)) {
			return fmt.Sprintf("an+b %q: got %d %d %v", e.in, a, b, ok)
		}
	}
	return ""
}
