package c06

// Reference for the <an+b> microsyntax, CSS Syntax Module Level 3 §6.2, written from the
// grammar productions (one case per production).

import (
	"strconv"
	"strings"
)

// lower is the ASCII case folding of CSS ("ASCII case-insensitive").
func lower(s string) string {
	b := []byte(s)
	for i, c := range b {
		if c >= 'A' && c <= 'Z' {
			b[i] = c + 'a' - 'A'
		}
	}
	return string(b)
}

func allDigits(s string) bool {
	if s == "" {
		return false
	}
	for _, c := range s {
		if c < '0' || c > '9' {
			return false
		}
	}
	return true
}

func isInteger(n *node) bool { return n.k == nNumber && n.isInt }
func isSignedInt(n *node) bool {
	return isInteger(n) && (n.repr[0] == '+' || n.repr[0] == '-')
}
func isSignlessInt(n *node) bool { return isInteger(n) && n.repr[0] >= '0' && n.repr[0] <= '9' }
func intOf(repr string) int {
	v, _ := strconv.Atoi(repr)
	return v
}

// ndashdigit reports whether s is "n-" followed by digits and returns the (negative) B.
func ndashdigit(s string) (int, bool) {
	if strings.HasPrefix(s, "n-") && allDigits(s[2:]) {
		return -intOf(s[2:]), true
	}
	return 0, false
}

// refNth returns (a, b, true) when the list of component values matches <an+b>.
// Comments are not component values for this purpose (the tokenizer discards them).
func refNth(l []*node) (a, b int, ok bool) {
	// significant tokens, remembering whether white space precedes each
	var sig []*node
	var wsBefore []bool
	ws := false
	for _, n := range l {
		switch n.k {
		case nComment:
		case nWS:
			ws = true
		default:
			sig = append(sig, n)
			wsBefore = append(wsBefore, ws)
			ws = false
		}
	}
	if len(sig) == 0 {
		return
	}
	// '+'?† : an optional "+" delimiter glued to the following identifier
	plus := false
	if isLit(sig[0], "+") && len(sig) >= 2 && sig[1].k == nIdent && !wsBefore[1] {
		plus = true
		sig = sig[1:]
	}
	first, rest := sig[0], sig[1:]

	// A and the form of the head
	const (
		hDone     = iota // nothing may follow
		hN               // "n" seen: optional signed-integer, or sign + signless-integer
		hNDash           // "n-" seen: a signless-integer must follow
		hNotMatch = -1
	)
	head := hNotMatch
	switch first.k {
	case nIdent:
		v := lower(first.val)
		switch {
		case !plus && (v == "odd" || v == "even"):
			if len(rest) != 0 {
				return
			}
			if v == "odd" {
				return 2, 1, true
			}
			return 2, 0, true
		case v == "n":
			a, head = 1, hN
		case v == "-n" && !plus:
			a, head = -1, hN
		case v == "n-":
			a, head = 1, hNDash
		case v == "-n-" && !plus:
			a, head = -1, hNDash
		default:
			if bb, ok2 := ndashdigit(v); ok2 { // <ndashdigit-ident>
				a, b, head = 1, bb, hDone
			} else if bb, ok2 := ndashdigit(strings.TrimPrefix(v, "-")); ok2 && strings.HasPrefix(v, "-") && !plus { // <dashndashdigit-ident>
				a, b, head = -1, bb, hDone
			}
		}
	case nNumber: // <integer>
		if plus {
			return
		}
		if first.isInt {
			a, b, head = 0, intOf(first.repr), hDone
		}
	case nDimension:
		if plus {
			return
		}
		if first.isInt {
			u := lower(first.unit)
			switch {
			case u == "n": // <n-dimension>
				a, head = intOf(first.repr), hN
			case u == "n-": // <ndash-dimension>
				a, head = intOf(first.repr), hNDash
			default:
				if bb, ok2 := ndashdigit(u); ok2 { // <ndashdigit-dimension>
					a, b, head = intOf(first.repr), bb, hDone
				}
			}
		}
	}
	switch head {
	case hDone:
		return a, b, len(rest) == 0
	case hN:
		switch {
		case len(rest) == 0:
			return a, 0, true
		case len(rest) == 1 && isSignedInt(rest[0]):
			return a, intOf(rest[0].repr), true
		case len(rest) == 2 && (isLit(rest[0], "+") || isLit(rest[0], "-")) && isSignlessInt(rest[1]):
			b = intOf(rest[1].repr)
			if rest[0].val == "-" {
				b = -b
			}
			return a, b, true
		}
	case hNDash:
		if len(rest) == 1 && isSignlessInt(rest[0]) {
			return a, -intOf(rest[0].repr), true
		}
	}
	return 0, 0, false
}
