package c06

// Neutral forms. The reference's values are printed in exactly the format of
// verif/internal/cssn (which prints the implementation's tokens), so that the oracle is a
// string comparison; positions and numeric values are compared by a parallel walk.

import (
	"fmt"
	"math"
	"strconv"
	"strings"

	pa "github.com/benoitkugler/webrender/css/parser"
)

func q(s string) string { return strconv.Quote(s) }

// printList mirrors cssn.List with Options{KeepComments: keep, ErrorFlags: true}.
func printList(sb *strings.Builder, l []*node, keep bool) {
	for _, n := range l {
		if n.k == nComment && !keep {
			continue
		}
		printOne(sb, n, keep)
		sb.WriteByte(' ')
	}
}

func listStr(l []*node, keep bool) string {
	var sb strings.Builder
	printList(&sb, l, keep)
	return sb.String()
}

func wq(sb *strings.Builder, pre, v, post string) {
	var buf [64]byte
	sb.WriteString(pre)
	sb.Write(strconv.AppendQuote(buf[:0], v))
	sb.WriteString(post)
}

func wnum(sb *strings.Builder, pre, repr string, isInt bool) {
	sb.WriteString(pre)
	sb.WriteString(repr)
	if isInt {
		sb.WriteString(",int")
	} else {
		sb.WriteString(",num")
	}
}

func printOne(sb *strings.Builder, n *node, keep bool) {
	switch n.k {
	case nComment:
		wq(sb, "comment(", n.val, ")")
	case nWS:
		sb.WriteString("ws")
	case nLit:
		wq(sb, "lit(", n.val, ")")
	case nIdent:
		wq(sb, "ident(", n.val, ")")
	case nAt:
		wq(sb, "at(", n.val, ")")
	case nHash:
		if n.id {
			wq(sb, "hash(", n.val, ",id)")
		} else {
			wq(sb, "hash(", n.val, ",unrestricted)")
		}
	case nString:
		if n.eof {
			wq(sb, "string(", n.val, ",eof)")
		} else {
			wq(sb, "string(", n.val, ")")
		}
	case nURL:
		if n.eof {
			wq(sb, "url(", n.val, ",eof)")
		} else {
			wq(sb, "url(", n.val, ")")
		}
	case nURange:
		fmt.Fprintf(sb, "urange(%x-%x)", n.lo, n.hi)
	case nNumber:
		wnum(sb, "number(", n.repr, n.isInt)
		sb.WriteString(")")
	case nPercentage:
		wnum(sb, "percentage(", n.repr, n.isInt)
		sb.WriteString(")")
	case nDimension:
		wnum(sb, "dimension(", n.repr, n.isInt)
		wq(sb, ",", n.unit, ")")
	case nParen:
		sb.WriteString("(")
		printList(sb, n.args, keep)
		sb.WriteString(")")
	case nSquare:
		sb.WriteString("[")
		printList(sb, n.args, keep)
		sb.WriteString("]")
	case nCurly:
		sb.WriteString("{")
		printList(sb, n.args, keep)
		sb.WriteString("}")
	case nFunc:
		wq(sb, "fn(", n.val, ")(")
		printList(sb, n.args, keep)
		sb.WriteString(")")
	case nError:
		sb.WriteString("error(")
		sb.WriteByte(n.errk)
		sb.WriteString(")")
	}
}

// itemsStr mirrors cssn.Compounds with the same options.
func itemsStr(l []item, keep bool) string {
	var sb strings.Builder
	for _, it := range l {
		switch it.k {
		case iQRule:
			sb.WriteString("qrule[")
			printList(&sb, it.prelude, keep)
			sb.WriteString("]{")
			printList(&sb, it.content, keep)
			sb.WriteString("}")
		case iAtRule:
			wq(&sb, "atrule(", it.name, ")[")
			printList(&sb, it.prelude, keep)
			sb.WriteString("]")
			if !it.hasBlock {
				sb.WriteString(";")
			} else {
				sb.WriteString("{")
				printList(&sb, it.content, keep)
				sb.WriteString("}")
			}
		case iDecl:
			wq(&sb, "decl(", it.name, ")[")
			printList(&sb, it.value, keep)
			sb.WriteString("]")
			if it.important {
				sb.WriteString("!")
			}
		case iError:
			sb.WriteString("error(")
			sb.WriteByte(it.errk)
			sb.WriteString(")")
		case iWS:
			sb.WriteString("ws")
		case iComment:
			if !keep {
				continue
			}
			wq(&sb, "comment(", it.name, ")")
		}
		sb.WriteByte('\n')
	}
	return sb.String()
}

// fromImpl converts the implementation's component values to nodes (input of the reference
// parser algorithms, so that the rule-level clauses are independent of tokenizer defects).
func fromImpl(l []pa.Token) []*node {
	out := make([]*node, 0, len(l))
	for _, t := range l {
		p := t.Pos()
		n := &node{line: p.Line, col: p.Column}
		switch t := t.(type) {
		case pa.Comment:
			n.k, n.val = nComment, t.Value
		case pa.Whitespace:
			n.k = nWS
		case pa.Literal:
			n.k, n.val = nLit, t.Value
		case pa.Ident:
			n.k, n.val = nIdent, t.Value
		case pa.AtKeyword:
			n.k, n.val = nAt, t.Value
		case pa.Hash:
			n.k, n.val, n.id = nHash, t.Value, pa.VerifHashIsIdentifier(t)
		case pa.String:
			n.k, n.val, n.eof = nString, t.Value, pa.VerifStringHasError(t)
		case pa.URL:
			n.k, n.val, n.eof = nURL, t.Value, pa.VerifURLHasError(t)
		case pa.UnicodeRange:
			n.k, n.lo, n.hi = nURange, t.Start, t.End
		case pa.Number:
			n.k, n.repr, n.isInt, n.num = nNumber, t.Value, t.IsInt(), float64(t.ValueF)
		case pa.Percentage:
			n.k, n.repr, n.isInt, n.num = nPercentage, t.Value, t.IsInt(), float64(t.ValueF)
		case pa.Dimension:
			n.k, n.repr, n.isInt, n.num, n.unit = nDimension, t.Value, t.IsInt(), float64(t.ValueF), t.Unit
		case pa.ParenthesesBlock:
			n.k, n.args = nParen, fromImpl(t.Arguments)
		case pa.SquareBracketsBlock:
			n.k, n.args = nSquare, fromImpl(t.Arguments)
		case pa.CurlyBracketsBlock:
			n.k, n.args = nCurly, fromImpl(t.Arguments)
		case pa.FunctionBlock:
			n.k, n.val, n.args = nFunc, t.Name, fromImpl(t.Arguments)
		case pa.ParseError:
			n.k, n.errk = nError, pa.VerifParseErrorKind(t)
		}
		out = append(out, n)
	}
	return out
}

func implArgs(t pa.Token) ([]pa.Token, bool) {
	switch t := t.(type) {
	case pa.ParenthesesBlock:
		return t.Arguments, true
	case pa.SquareBracketsBlock:
		return t.Arguments, true
	case pa.CurlyBracketsBlock:
		return t.Arguments, true
	case pa.FunctionBlock:
		return t.Arguments, true
	}
	return nil, false
}

func implNum(t pa.Token) (float64, bool) {
	switch t := t.(type) {
	case pa.Number:
		return float64(t.ValueF), true
	case pa.Percentage:
		return float64(t.ValueF), true
	case pa.Dimension:
		return float64(t.ValueF), true
	}
	return 0, false
}

type walkRes struct {
	posDiff string // first position difference ("" = none)
	numDiff string // first numeric value difference
	shape   string // shape mismatch (should not happen when the neutral forms agree)
	nPos    int    // positions compared
	nNum    int
}

// numClose compares the implementation's float32 value with the reference's float64 one.
// Values outside the float32 range are implementation-defined (CSS Values "range and
// precision") and not compared.
func numClose(impl float64, ref float64) bool {
	ar := math.Abs(ref)
	if ar > 3e38 || (ar != 0 && ar < 1.2e-38) {
		return true
	}
	if impl == ref {
		return true
	}
	return math.Abs(impl-ref) <= 2e-7*ar
}

// walk compares positions and numeric values of two lists with the same shape.
// ref must already be stripped of comments when impl was tokenized without them.
func walk(impl []pa.Token, ref []*node, r *walkRes) {
	if len(impl) != len(ref) {
		if r.shape == "" {
			r.shape = fmt.Sprintf("length %d vs %d", len(impl), len(ref))
		}
		return
	}
	for i, t := range impl {
		n := ref[i]
		p := t.Pos()
		r.nPos++
		if (p.Line != n.line || p.Column != n.col) && r.posDiff == "" {
			var sb strings.Builder
			printOne(&sb, n, true)
			s := sb.String()
			if len(s) > 60 {
				s = s[:60] + "…"
			}
			r.posDiff = fmt.Sprintf("%s: implementation %d:%d, reference %d:%d", s, p.Line, p.Column, n.line, n.col)
		}
		if v, ok := implNum(t); ok {
			r.nNum++
			if !numClose(v, n.num) && r.numDiff == "" {
				r.numDiff = fmt.Sprintf("%s: implementation %v, reference %v", n.repr, v, n.num)
			}
		}
		if a, ok := implArgs(t); ok {
			walk(a, n.args, r)
		}
	}
}

// trimDecl returns the implementation's compounds with the outer white space and comments of
// declaration values removed (dialect: css/parser keeps them, CSS Syntax trims them).
func trimDecl(l []pa.Compound) []pa.Compound {
	out := make([]pa.Compound, len(l))
	for i, c := range l {
		if d, ok := c.(pa.Declaration); ok {
			v := d.Value
			for len(v) > 0 && blankTok(v[0]) {
				v = v[1:]
			}
			for len(v) > 0 && blankTok(v[len(v)-1]) {
				v = v[:len(v)-1]
			}
			d.Value = v
			c = d
		}
		out[i] = c
	}
	return out
}

func blankTok(t pa.Token) bool {
	switch t.(type) {
	case pa.Whitespace, pa.Comment:
		return true
	}
	return false
}

// itemPos compares the positions of rules and declarations (errors have no position in the
// specification and are skipped).
func itemPos(impl []pa.Compound, ref []item, keep bool) (diff string, n int) {
	j := 0
	for _, c := range impl {
		if _, isC := c.(pa.Comment); isC && !keep {
			continue
		}
		for j < len(ref) && ref[j].k == iComment && !keep {
			j++
		}
		if j >= len(ref) {
			return "", n
		}
		it := ref[j]
		j++
		if it.k == iError {
			continue
		}
		p := c.Pos()
		n++
		if p.Line != it.line || p.Column != it.col {
			return fmt.Sprintf("entry %d (%s): implementation %d:%d, reference (position of its first token) %d:%d", j-1, it.name, p.Line, p.Column, it.line, it.col), n
		}
	}
	return "", n
}
