package c06

// Reference parser, written from CSS Syntax Module Level 3 §5.3 / §5.4 (CR text):
// consume a component value / a simple block / a function, parse a list of component values,
// consume a list of rules, an at-rule, a qualified rule, a list of declarations, a declaration,
// parse a declaration, parse a component value; and, for "block's contents", the algorithm of
// the same name of the current draft (there is none in the CR).
//
// Dialect of css/parser (inherited from tinycss2, documented there):
//   - component values are built first; an unmatched ) ] } is kept as an error value carrying
//     the character; a block closed by EOF is an ordinary block;
//   - <bad-string>, <bad-url> are error values; a string / url ended by EOF is followed by an
//     error marker;
//   - where the specification says "parse error, return nothing" for a rule or a declaration,
//     an error entry takes its place in the list;
//   - comments are values that every algorithm treats like white space; top-level white space
//     and comments are reported unless asked otherwise;
//   - a declaration's value keeps its outer white space (the check compares values modulo
//     leading/trailing white space and comments).

import "strings"

type nkind uint8

const (
	nWS nkind = iota
	nComment
	nLit
	nIdent
	nAt
	nHash
	nString
	nURL
	nURange
	nNumber
	nPercentage
	nDimension
	nParen
	nSquare
	nCurly
	nFunc
	nError
)

// node is a component value in neutral form.
type node struct {
	k      nkind
	val    string // value / name / literal / comment text
	repr   string
	isInt  bool
	num    float64
	unit   string
	id     bool
	eof    bool // string/url closed by EOF
	lo, hi uint32
	errk   byte // nError: kind
	args   []*node
	line   int
	col    int
}

type builder struct {
	toks []tok
	pos  int
	perr int
	tags *tagset
}

func (b *builder) leaf(t tok) []*node {
	n := &node{val: t.val, line: t.line, col: t.col}
	switch t.k {
	case tWS:
		n.k = nWS
	case tComment:
		n.k = nComment
	case tIdent:
		n.k = nIdent
	case tAt:
		n.k = nAt
	case tHash:
		n.k, n.id = nHash, t.id
	case tString:
		n.k, n.eof = nString, t.eof
		if t.eof {
			return []*node{n, {k: nError, errk: 's', line: t.line, col: t.col}}
		}
	case tBadString:
		n.k, n.errk = nError, 'b'
	case tURL:
		n.k, n.eof = nURL, t.eof
		if t.eof {
			return []*node{n, {k: nError, errk: 'e', line: t.line, col: t.col}}
		}
	case tBadURL:
		n.k, n.errk = nError, 'u'
	case tDelim:
		n.k = nLit
	case tNumber, tPercentage, tDimension:
		n.k = nNumber + nkind(t.k-tNumber)
		n.repr, n.isInt, n.num, n.unit = t.repr, t.isInt, t.num, t.unit
	case tURange:
		n.k, n.lo, n.hi = nURange, t.lo, t.hi
	case tClose: // unmatched closer: preserved token
		n.k, n.errk = nError, t.ch
		b.perr++
		b.tags.add("unmatched-close")
	}
	return []*node{n}
}

func closer(open byte) byte {
	switch open {
	case '(':
		return ')'
	case '[':
		return ']'
	}
	return '}'
}

// §5.4.7 consume a component value (+ §5.4.8 simple block, §5.4.9 function).
// depth is the nesting depth of the value being consumed.
func (b *builder) consumeComponentValue(depth int) []*node {
	t := b.toks[b.pos]
	b.pos++
	var n *node
	var end byte
	switch t.k {
	case tOpen:
		n = &node{line: t.line, col: t.col}
		switch t.ch {
		case '(':
			n.k = nParen
		case '[':
			n.k = nSquare
		default:
			n.k = nCurly
		}
		end = closer(t.ch)
	case tFunction:
		n = &node{k: nFunc, val: t.val, line: t.line, col: t.col}
		end = ')'
	default:
		if t.k == tComment && t.eof && depth > 0 {
			b.tags.add("eof-in-comment-nested")
		}
		return b.leaf(t)
	}
	for {
		if b.pos >= len(b.toks) {
			b.perr++
			b.tags.add("eof-in-block")
			return []*node{n}
		}
		if c := b.toks[b.pos]; c.k == tClose && c.ch == end {
			b.pos++
			return []*node{n}
		}
		n.args = append(n.args, b.consumeComponentValue(depth+1)...)
	}
}

// §5.3.10 parse a list of component values.
func parseComponentValues(s string) (list []*node, perr int, tags *tagset) {
	toks, l := lex(s)
	b := &builder{toks: toks, tags: l.tags}
	for b.pos < len(b.toks) {
		list = append(list, b.consumeComponentValue(0)...)
	}
	return list, l.perr + b.perr, b.tags
}

// dropComments removes comment values at every depth (what skipComments asks for).
func dropComments(l []*node) []*node {
	var out []*node
	for _, n := range l {
		if n.k == nComment {
			continue
		}
		if len(n.args) > 0 {
			c := *n
			c.args = dropComments(n.args)
			n = &c
		}
		out = append(out, n)
	}
	return out
}

// ---- rules and declarations --------------------------------------------------------------

type ikind uint8

const (
	iQRule ikind = iota
	iAtRule
	iDecl
	iError
	iWS
	iComment
)

type item struct {
	k         ikind
	name      string  // at-keyword / declaration name / comment text
	prelude   []*node // rules
	content   []*node // rules: the {} block's value
	hasBlock  bool    // at-rule
	value     []*node // declaration
	important bool
	errk      byte
	line, col int
}

type stream struct {
	l   []*node
	pos int
}

func (s *stream) more() bool { return s.pos < len(s.l) }
func (s *stream) next() *node {
	n := s.l[s.pos]
	s.pos++
	return n
}
func (s *stream) peek() *node {
	if s.pos < len(s.l) {
		return s.l[s.pos]
	}
	return nil
}

func isBlank(n *node) bool         { return n.k == nWS || n.k == nComment }
func isLit(n *node, v string) bool { return n != nil && n.k == nLit && n.val == v }

func errItem(k byte) item { return item{k: iError, errk: k} }

// §5.4.2 consume an at-rule
func consumeAtRule(at *node, s *stream) item {
	r := item{k: iAtRule, name: at.val, line: at.line, col: at.col}
	for s.more() {
		n := s.next()
		if isLit(n, ";") {
			return r
		}
		if n.k == nCurly {
			r.hasBlock, r.content = true, n.args
			return r
		}
		r.prelude = append(r.prelude, n)
	}
	return r // EOF: parse error, return the at-rule
}

// §5.4.3 consume a qualified rule. stop: stop at a top-level ";" (block's contents only).
func consumeQualifiedRule(first *node, s *stream, stop bool) item {
	r := item{k: iQRule, line: first.line, col: first.col}
	n := first
	for {
		if stop && isLit(n, ";") {
			s.pos-- // not consumed; the caller discards it
			return errItem('i')
		}
		if n.k == nCurly {
			r.content = n.args
			return r
		}
		r.prelude = append(r.prelude, n)
		if !s.more() {
			return errItem('i') // EOF: parse error, return nothing
		}
		n = s.next()
	}
}

// §5.4.1 consume a list of rules
func consumeRuleList(l []*node, topLevel, skipComments, skipWS bool) []item {
	s := &stream{l: l}
	var out []item
	for s.more() {
		n := s.next()
		switch {
		case n.k == nWS:
			if !skipWS {
				out = append(out, item{k: iWS, line: n.line, col: n.col})
			}
		case n.k == nComment:
			if !skipComments {
				out = append(out, item{k: iComment, name: n.val, line: n.line, col: n.col})
			}
		case topLevel && (isLit(n, "<!--") || isLit(n, "-->")):
		case n.k == nAt:
			out = append(out, consumeAtRule(n, s))
		default:
			out = append(out, consumeQualifiedRule(n, s, false))
		}
	}
	return out
}

func trimBlank(l []*node) []*node {
	for len(l) > 0 && isBlank(l[0]) {
		l = l[1:]
	}
	for len(l) > 0 && isBlank(l[len(l)-1]) {
		l = l[:len(l)-1]
	}
	return l
}

// §5.4.6 consume a declaration: name is the <ident-token>, rest what follows it (up to the
// end of the declaration). ok is false for "parse error, return nothing".
// Dialect: css/parser applies the current draft's rule on top-level {} blocks to every
// declaration, as the draft's "consume a declaration" does: "a top-level {}-block is only
// allowed as the entire value of a non-custom property" (the CR has no such rule).
func consumeDeclaration(name *node, rest []*node) (item, bool) {
	blockRule := !strings.HasPrefix(name.val, "--") // custom property name string
	d := item{k: iDecl, name: name.val, line: name.line, col: name.col}
	i := 0
	for i < len(rest) && isBlank(rest[i]) {
		i++
	}
	if i >= len(rest) || !isLit(rest[i], ":") {
		return item{}, false
	}
	value := rest[i+1:]
	// !important: the last two non-whitespace tokens
	var sig []int
	for j, n := range value {
		if !isBlank(n) {
			sig = append(sig, j)
		}
	}
	if k := len(sig); k >= 2 {
		a, b := value[sig[k-2]], value[sig[k-1]]
		if isLit(a, "!") && b.k == nIdent && lower(b.val) == "important" {
			d.important = true
			// removing the two tokens leaves only white space behind them, which is trimmed
			value = value[:sig[k-2]]
		}
	}
	d.value = trimBlank(value)
	if blockRule {
		hasCurly, other := false, false
		for _, n := range d.value {
			switch {
			case n.k == nCurly:
				if hasCurly {
					other = true
				}
				hasCurly = true
			case !isBlank(n):
				other = true
			}
		}
		if hasCurly && other {
			return item{}, false
		}
	}
	return d, true
}

// §5.4.5 consume a list of declarations
func consumeDeclarationList(l []*node, skipComments, skipWS bool) []item {
	s := &stream{l: l}
	var out []item
	for s.more() {
		n := s.next()
		switch {
		case n.k == nWS:
			if !skipWS {
				out = append(out, item{k: iWS, line: n.line, col: n.col})
			}
		case n.k == nComment:
			if !skipComments {
				out = append(out, item{k: iComment, name: n.val, line: n.line, col: n.col})
			}
		case isLit(n, ";"):
		case n.k == nAt:
			out = append(out, consumeAtRule(n, s))
		default:
			var rest []*node
			for s.more() && !isLit(s.peek(), ";") {
				rest = append(rest, s.next())
			}
			if n.k != nIdent {
				out = append(out, errItem('i')) // parse error; the component values are thrown away
				continue
			}
			if d, ok := consumeDeclaration(n, rest); ok {
				out = append(out, d)
			} else {
				out = append(out, errItem('i'))
			}
		}
	}
	return out
}

// Draft "consume a block's contents" (the CR has no such algorithm).
// An unmatched "}" is an ordinary value, as in the CR's algorithms (the draft's nested-stop
// rule is about a raw token stream and is not asserted).
func consumeBlocksContents(l []*node, skipWS bool) []item {
	s := &stream{l: l}
	var out []item
	for s.more() {
		n := s.next()
		switch {
		case n.k == nWS:
			if !skipWS {
				out = append(out, item{k: iWS, line: n.line, col: n.col})
			}
		case n.k == nComment:
			out = append(out, item{k: iComment, name: n.val, line: n.line, col: n.col})
		case isLit(n, ";"):
		case n.k == nAt:
			out = append(out, consumeAtRule(n, s))
		default:
			mark := s.pos
			if n.k == nIdent {
				var rest []*node
				for s.more() && !isLit(s.peek(), ";") {
					rest = append(rest, s.next())
				}
				if d, ok := consumeDeclaration(n, rest); ok {
					out = append(out, d)
					continue
				}
			}
			s.pos = mark
			out = append(out, consumeQualifiedRule(n, s, true))
		}
	}
	return out
}

// §5.3.6 parse a declaration
func parseOneDeclaration(l []*node) item {
	i := 0
	for i < len(l) && isBlank(l[i]) {
		i++
	}
	if i >= len(l) {
		return errItem('E')
	}
	if l[i].k != nIdent {
		return errItem('i')
	}
	if d, ok := consumeDeclaration(l[i], l[i+1:]); ok {
		return d
	}
	return errItem('i')
}

// §5.3.9 parse a component value; err is 0 when a value is returned.
func parseOneComponentValue(l []*node) (v *node, err byte) {
	for _, n := range l {
		if isBlank(n) {
			continue
		}
		if v != nil {
			return nil, 'x'
		}
		v = n
	}
	if v == nil {
		return nil, 'E'
	}
	return v, 0
}
