package c06

import (
	"fmt"
	"os"
	"sort"
	"strconv"
	"strings"
	"testing"

	"verif/internal/engine"
)

// collector: in-process reporter used to triage disagreement classes.
type collector struct {
	fails map[string][]engine.Failure
	count map[string]int
	n     int
}

func (c *collector) Fail(f engine.Failure) {
	k := f.Clause + " {" + strings.Join(f.Features, ",") + "}"
	c.count[k]++
	if len(c.fails[k]) < 4 {
		c.fails[k] = append(c.fails[k], f)
	}
}
func (c *collector) Case(bool, string) { c.n++ }
func (c *collector) Trans(int64)       {}
func (c *collector) Guard(desc string, f func()) (pi *engine.PanicInfo, skipped bool) {
	defer func() {
		if r := recover(); r != nil {
			pi = &engine.PanicInfo{Site: "?", Msg: fmt.Sprint(r)}
		}
	}()
	f()
	return nil, false
}

// C06_DEV="space:maxlen[:clause-substring]" go test -run TestDevTriage
func TestDevTriage(t *testing.T) {
	spec := os.Getenv("C06_DEV")
	if spec == "" {
		t.Skip("C06_DEV not set")
	}
	parts := strings.Split(spec, ":")
	ck := &check{}
	ck.Init("quick", 0)
	col := &collector{fails: map[string][]engine.Failure{}, count: map[string]int{}}
	cnt := counters{}
	for _, sp := range ck.ms.Spaces {
		if sp.Name != parts[0] {
			continue
		}
		n, _ := strconv.Atoi(parts[1])
		s2 := &engine.StrSpace{Name: sp.Name, Alphabet: sp.Alphabet, MaxLen: n}
		for i := int64(0); i < s2.Count(); i++ {
			ck.one(col, cnt, sp.Name, s2.At(i))
		}
	}
	var keys []string
	for k := range col.count {
		keys = append(keys, k)
	}
	sort.Strings(keys)
	fmt.Println("cases", col.n)
	for _, k := range keys {
		if len(parts) > 2 && !strings.Contains(k, parts[2]) {
			continue
		}
		fmt.Printf("%6d %s\n", col.count[k], k)
		for _, f := range col.fails[k] {
			fmt.Printf("        %s\n          %s\n", f.Case, strings.ReplaceAll(f.Detail, "\n", "\n          "))
		}
	}
}

func TestDevOne(t *testing.T) {
	x := os.Getenv("C06_ONE")
	if x == "" {
		t.Skip("C06_ONE not set")
	}
	if u, err := strconv.Unquote(x); err == nil {
		x = u
	}
	ck := &check{}
	col := &collector{fails: map[string][]engine.Failure{}, count: map[string]int{}}
	ck.one(col, counters{}, "one", x)
	for k, l := range col.fails {
		for _, f := range l {
			fmt.Printf("%s\n   %s\n   %s\n", k, f.Case, strings.ReplaceAll(f.Detail, "\n", "\n   "))
		}
	}
}
