package c06

// Unit tests of the reference model: its own specification examples, and the
// implementation-independent css-parsing-tests corpus (read as data from the repository).

import (
	"encoding/json"
	"fmt"
	"os"
	"strings"
	"testing"
)

func TestRefSelfTest(t *testing.T) {
	if s := refSelfTest(); s != "" {
		t.Fatal(s)
	}
}

const corpus = "/repo/css/parser/css-parsing-tests/"

func load(t *testing.T, name string) []any {
	b, err := os.ReadFile(corpus + name)
	if err != nil {
		t.Skip(err)
	}
	var l []any
	if err := json.Unmarshal(b, &l); err != nil {
		t.Fatal(err)
	}
	return l
}

var errKinds = map[string]string{"bad-string": "b", "bad-url": "u", "eof-in-string": "s", "eof-in-url": "e",
	")": ")", "]": "]", "}": "}", "invalid": "i", "empty": "E", "extra-input": "x"}

func isEOFErr(v any) bool {
	l, ok := v.([]any)
	return ok && len(l) == 2 && l[0] == "error" && (l[1] == "eof-in-string" || l[1] == "eof-in-url")
}

func convList(sb *strings.Builder, l []any) {
	for i, v := range l {
		var next any
		if i+1 < len(l) {
			next = l[i+1]
		}
		convOne(sb, v, next)
		sb.WriteByte(' ')
	}
}

func numType(v any) string {
	if v == "integer" {
		return "int"
	}
	return "num"
}

func convOne(sb *strings.Builder, v any, next any) {
	switch v := v.(type) {
	case string:
		if v == " " {
			sb.WriteString("ws")
		} else {
			sb.WriteString("lit(" + q(v) + ")")
		}
	case []any:
		kind := v[0].(string)
		switch kind {
		case "ident":
			sb.WriteString("ident(" + q(v[1].(string)) + ")")
		case "at-keyword":
			sb.WriteString("at(" + q(v[1].(string)) + ")")
		case "hash":
			sb.WriteString("hash(" + q(v[1].(string)) + "," + v[2].(string) + ")")
		case "string", "url":
			sb.WriteString(kind + "(" + q(v[1].(string)))
			if isEOFErr(next) {
				sb.WriteString(",eof")
			}
			sb.WriteString(")")
		case "number", "percentage":
			sb.WriteString(kind + "(" + v[1].(string) + "," + numType(v[3]) + ")")
		case "dimension":
			sb.WriteString("dimension(" + v[1].(string) + "," + numType(v[3]) + "," + q(v[4].(string)) + ")")
		case "unicode-range":
			fmt.Fprintf(sb, "urange(%x-%x)", int(v[1].(float64)), int(v[2].(float64)))
		case "()", "[]", "{}":
			sb.WriteString(kind[:1])
			convList(sb, v[1:])
			sb.WriteString(kind[1:])
		case "function":
			sb.WriteString("fn(" + q(v[1].(string)) + ")(")
			convList(sb, v[2:])
			sb.WriteString(")")
		case "error":
			sb.WriteString("error(" + errKinds[v[1].(string)] + ")")
		default:
			sb.WriteString("?" + kind)
		}
	}
}

func trimWS(l []any) []any {
	for len(l) > 0 && l[0] == " " {
		l = l[1:]
	}
	for len(l) > 0 && l[len(l)-1] == " " {
		l = l[:len(l)-1]
	}
	return l
}

func convRule(sb *strings.Builder, v any) {
	r := v.([]any)
	lst := func(x any) string {
		var s strings.Builder
		convList(&s, x.([]any))
		return s.String()
	}
	switch r[0] {
	case "qualified rule":
		sb.WriteString("qrule[" + lst(r[1]) + "]{" + lst(r[2]) + "}")
	case "at-rule":
		sb.WriteString("atrule(" + q(r[1].(string)) + ")[" + lst(r[2]) + "]")
		if r[3] == nil {
			sb.WriteString(";")
		} else {
			sb.WriteString("{" + lst(r[3]) + "}")
		}
	case "declaration":
		sb.WriteString("decl(" + q(r[1].(string)) + ")[" + lst(trimWS(r[2].([]any))) + "]")
		if r[3] == true {
			sb.WriteString("!")
		}
	case "error":
		sb.WriteString("error(" + errKinds[r[1].(string)] + ")")
	}
	sb.WriteByte('\n')
}

func nodesNoComments(s string) []*node {
	l, _, _ := parseComponentValues(s)
	return dropComments(l)
}

func TestCorpusComponentValues(t *testing.T) {
	l := load(t, "component_value_list.json")
	for i := 0; i+1 < len(l); i += 2 {
		in := l[i].(string)
		var sb strings.Builder
		convList(&sb, l[i+1].([]any))
		if got := listStr(nodesNoComments(in), true); got != sb.String() {
			t.Errorf("%q:\n got  %s\n want %s", in, got, sb.String())
		}
	}
}

// numeric values of the corpus
func TestCorpusNumericValues(t *testing.T) {
	l := load(t, "component_value_list.json")
	n := 0
	var cmp func(ref []*node, want []any)
	cmp = func(ref []*node, want []any) {
		if len(ref) != len(want) {
			return
		}
		for i, w := range want {
			wl, ok := w.([]any)
			if !ok {
				continue
			}
			switch wl[0] {
			case "number", "percentage", "dimension":
				n++
				if !numClose(wl[2].(float64), ref[i].num) && !numClose(ref[i].num, wl[2].(float64)) {
					t.Errorf("%s: reference %v, corpus %v", ref[i].repr, ref[i].num, wl[2])
				}
			case "()", "[]", "{}":
				cmp(ref[i].args, wl[1:])
			case "function":
				cmp(ref[i].args, wl[2:])
			}
		}
	}
	for i := 0; i+1 < len(l); i += 2 {
		cmp(nodesNoComments(l[i].(string)), l[i+1].([]any))
	}
	if n < 50 {
		t.Errorf("only %d numeric values compared", n)
	}
}

func testRules(t *testing.T, file string, f func(l []*node) []item) {
	l := load(t, file)
	for i := 0; i+1 < len(l); i += 2 {
		in := l[i].(string)
		var sb strings.Builder
		for _, r := range l[i+1].([]any) {
			convRule(&sb, r)
		}
		if got := itemsStr(f(nodesNoComments(in)), true); got != sb.String() {
			t.Errorf("%s %q:\n got  %s\n want %s", file, in, got, sb.String())
		}
	}
}

func TestCorpusRules(t *testing.T) {
	testRules(t, "stylesheet.json", func(l []*node) []item { return consumeRuleList(l, true, true, true) })
	testRules(t, "rule_list.json", func(l []*node) []item { return consumeRuleList(l, false, true, true) })
	testRules(t, "declaration_list.json", func(l []*node) []item { return consumeDeclarationList(l, true, true) })
	testRules(t, "blocks_contents.json", func(l []*node) []item { return consumeBlocksContents(l, true) })
}

func TestCorpusOne(t *testing.T) {
	l := load(t, "one_declaration.json")
	for i := 0; i+1 < len(l); i += 2 {
		in := l[i].(string)
		var sb strings.Builder
		convRule(&sb, l[i+1])
		if got := itemsStr([]item{parseOneDeclaration(nodesNoComments(in))}, true); got != sb.String() {
			t.Errorf("one declaration %q:\n got  %s\n want %s", in, got, sb.String())
		}
	}
	l = load(t, "one_component_value.json")
	for i := 0; i+1 < len(l); i += 2 {
		in := l[i].(string)
		var sb strings.Builder
		convOne(&sb, l[i+1], nil)
		sb.WriteByte(' ')
		v, e := parseOneComponentValue(nodesNoComments(in))
		got := "error(" + string(rune(e)) + ") "
		if e == 0 {
			got = listStr([]*node{v}, true)
		}
		if got != sb.String() {
			t.Errorf("one component value %q:\n got  %s\n want %s", in, got, sb.String())
		}
	}
}

func TestCorpusNth(t *testing.T) {
	l := load(t, "An+B.json")
	for i := 0; i+1 < len(l); i += 2 {
		in := l[i].(string)
		a, b, ok := refNth(nodesNoComments(in))
		want, _ := l[i+1].([]any)
		switch {
		case want == nil && ok:
			t.Errorf("%q: got %d %d, want invalid", in, a, b)
		case want != nil && (!ok || a != int(want[0].(float64)) || b != int(want[1].(float64))):
			t.Errorf("%q: got %d %d %v, want %v", in, a, b, ok, want)
		}
	}
	if len(l) < 100 {
		t.Errorf("corpus too small: %d", len(l))
	}
}
