package c04

import "strings"

// Hand-written reference tables, taken from the CSS specifications (property definition
// tables: "Inherited:" and "Initial:" lines), NOT from css/properties/datas.go.
//
// Sources: CSS 2.1 Appendix F; Backgrounds 3; Color 3; Multicol 1; Fonts 3/4; Break 3/4;
// GCPM 3 / Content 3; Images 3/4; Page 3; Text 3/4; Text-Decor 3; Transforms 1; UI 4;
// Sizing 3; Flexbox 1; Grid 2; Align 3; Overflow 3/4; Lists 3; Tables 3.

// specInherited: properties whose definition table says "Inherited: yes".
var specInherited = set(
	"border-collapse", "border-spacing", "caption-side", "color", "direction", "empty-cells",
	"font-family", "font-feature-settings", "font-kerning", "font-language-override", "font-size",
	"font-stretch", "font-style", "font-variant", "font-variant-alternates", "font-variant-caps",
	"font-variant-east-asian", "font-variant-ligatures", "font-variant-numeric", "font-variant-position",
	"font-variation-settings", "font-weight",
	"hyphens", "hyphenate-character", "hyphenate-limit-chars", "hyphenate-limit-zone",
	"image-rendering", "image-resolution", "image-orientation",
	"letter-spacing", "line-height", "list-style-image", "list-style-position", "list-style-type",
	"orphans", "widows", "overflow-wrap", "quotes", "tab-size",
	"text-align-all", "text-align-last", "text-indent", "text-transform",
	"visibility", "white-space", "word-break", "word-spacing",
	"block-ellipsis",
)

// specNotInherited: properties whose definition table says "Inherited: no".
var specNotInherited = set(
	"align-content", "align-items", "align-self", "appearance",
	"background-attachment", "background-clip", "background-color", "background-image", "background-origin",
	"background-position", "background-repeat", "background-size",
	"bleed-bottom", "bleed-left", "bleed-right", "bleed-top",
	"bookmark-label", "bookmark-level", "bookmark-state",
	"border-bottom-color", "border-bottom-left-radius", "border-bottom-right-radius", "border-bottom-style", "border-bottom-width",
	"border-image-outset", "border-image-repeat", "border-image-slice", "border-image-source", "border-image-width",
	"border-left-color", "border-left-style", "border-left-width", "border-right-color", "border-right-style", "border-right-width",
	"border-top-color", "border-top-left-radius", "border-top-right-radius", "border-top-style", "border-top-width",
	"bottom", "box-decoration-break", "box-sizing", "break-after", "break-before", "break-inside",
	"clear", "clip", "column-count", "column-fill", "column-gap", "column-rule-color", "column-rule-style", "column-rule-width",
	"column-span", "column-width", "content", "continue", "counter-increment", "counter-reset", "counter-set",
	"display", "flex-basis", "flex-direction", "flex-grow", "flex-shrink", "flex-wrap", "float",
	"footnote-display", "footnote-policy",
	"grid-auto-columns", "grid-auto-flow", "grid-auto-rows", "grid-column-end", "grid-column-start", "grid-row-end", "grid-row-start",
	"grid-template-areas", "grid-template-columns", "grid-template-rows",
	"height", "justify-content", "justify-items", "justify-self", "left",
	"margin-bottom", "margin-break", "margin-left", "margin-right", "margin-top", "marks",
	"max-height", "max-lines", "max-width", "min-height", "min-width",
	"object-fit", "object-position", "opacity", "order", "outline-color", "outline-style", "outline-width", "overflow",
	"padding-bottom", "padding-left", "padding-right", "padding-top", "page", "position", "right", "row-gap",
	"size", "string-set", "table-layout", "text-decoration-color", "text-decoration-line", "text-decoration-style",
	"text-overflow", "top", "transform", "transform-origin", "unicode-bidi", "vertical-align", "width", "z-index",
)

// specInitial: the "Initial:" value of the definition table, written in CSS. Properties whose
// initial value "depends on user agent" (color, font-family, quotes' concrete marks,
// outline-color's invert/auto, text-align) or that have no CSS specification (anchor, link,
// lang) are absent: for them only the relational clauses apply.
var specInitial = map[string]string{
	"align-content": "normal", "align-items": "normal", "align-self": "auto", "appearance": "none",
	"background-attachment": "scroll", "background-clip": "border-box", "background-color": "transparent",
	"background-image": "none", "background-origin": "padding-box", "background-position": "0% 0%",
	"background-repeat": "repeat", "background-size": "auto",
	"bleed-bottom": "auto", "bleed-left": "auto", "bleed-right": "auto", "bleed-top": "auto",
	"block-ellipsis": "none", "bookmark-label": "content(text)", "bookmark-level": "none", "bookmark-state": "open",
	"border-bottom-color": "currentColor", "border-left-color": "currentColor", "border-right-color": "currentColor", "border-top-color": "currentColor",
	"border-bottom-style": "none", "border-left-style": "none", "border-right-style": "none", "border-top-style": "none",
	"border-bottom-width": "medium", "border-left-width": "medium", "border-right-width": "medium", "border-top-width": "medium",
	"border-bottom-left-radius": "0", "border-bottom-right-radius": "0", "border-top-left-radius": "0", "border-top-right-radius": "0",
	"border-collapse": "separate", "border-image-outset": "0", "border-image-repeat": "stretch", "border-image-slice": "100%",
	"border-image-source": "none", "border-image-width": "1", "border-spacing": "0",
	"bottom": "auto", "box-decoration-break": "slice", "box-sizing": "content-box",
	"break-after": "auto", "break-before": "auto", "break-inside": "auto",
	"caption-side": "top", "clear": "none", "clip": "auto",
	"column-count": "auto", "column-fill": "balance", "column-gap": "normal", "column-rule-color": "currentColor",
	"column-rule-style": "none", "column-rule-width": "medium", "column-span": "none", "column-width": "auto",
	"content": "normal", "continue": "auto", "counter-increment": "none", "counter-reset": "none", "counter-set": "none",
	"direction": "ltr", "display": "inline", "empty-cells": "show",
	"flex-basis": "auto", "flex-direction": "row", "flex-grow": "0", "flex-shrink": "1", "flex-wrap": "nowrap", "float": "none",
	"font-feature-settings": "normal", "font-kerning": "auto", "font-language-override": "normal", "font-size": "medium",
	"font-stretch": "normal", "font-style": "normal", "font-variant-alternates": "normal", "font-variant-caps": "normal",
	"font-variant-east-asian": "normal", "font-variant-ligatures": "normal", "font-variant-numeric": "normal",
	"font-variant-position": "normal", "font-variation-settings": "normal", "font-weight": "normal",
	"footnote-display": "block", "footnote-policy": "auto",
	"grid-auto-columns": "auto", "grid-auto-flow": "row", "grid-auto-rows": "auto",
	"grid-column-end": "auto", "grid-column-start": "auto", "grid-row-end": "auto", "grid-row-start": "auto",
	"grid-template-areas": "none", "grid-template-columns": "none", "grid-template-rows": "none",
	"height": "auto", "hyphenate-character": "auto", "hyphenate-limit-chars": "auto", "hyphenate-limit-zone": "0", "hyphens": "manual",
	"image-orientation": "from-image", "image-rendering": "auto", "image-resolution": "1dppx",
	"justify-content": "normal", "justify-items": "normal" /* computed value of legacy (Align 3 §6.1) */, "justify-self": "auto",
	"left": "auto", "letter-spacing": "normal", "line-height": "normal",
	"list-style-image": "none", "list-style-position": "outside", "list-style-type": "disc",
	"margin-bottom": "0", "margin-left": "0", "margin-right": "0", "margin-top": "0", "margin-break": "auto", "marks": "none",
	"max-height": "none", "max-lines": "none", "max-width": "none", "min-height": "auto", "min-width": "auto",
	"object-fit": "fill", "object-position": "50% 50%", "opacity": "1", "order": "0", "orphans": "2",
	"outline-style": "none", "outline-width": "medium", "overflow": "visible", "overflow-wrap": "normal",
	"padding-bottom": "0", "padding-left": "0", "padding-right": "0", "padding-top": "0",
	"page": "auto", "position": "static", "quotes": "auto", "right": "auto", "row-gap": "normal",
	"size": "auto", "string-set": "none", "tab-size": "8", "table-layout": "auto",
	"text-align-all": "start", "text-align-last": "auto",
	"text-decoration-color": "currentColor", "text-decoration-line": "none", "text-decoration-style": "solid",
	"text-indent": "0", "text-overflow": "clip", "text-transform": "none", "top": "auto",
	"transform": "none", "transform-origin": "50% 50%", "unicode-bidi": "normal", "vertical-align": "baseline",
	"visibility": "visible", "white-space": "normal", "widows": "2", "width": "auto",
	"word-break": "normal", "word-spacing": "normal", "z-index": "auto",
}

func set(names ...string) map[string]bool {
	m := map[string]bool{}
	for _, n := range names {
		m[n] = true
	}
	return m
}

// family gives the property family tag used in failure features.
func family(name string) string {
	switch {
	case strings.HasPrefix(name, "--"):
		return "custom-property"
	case strings.HasPrefix(name, "border-image"):
		return "border-image"
	case strings.HasPrefix(name, "border-") && strings.HasSuffix(name, "-width"):
		return "border-width"
	case strings.HasPrefix(name, "border-") && strings.HasSuffix(name, "-style"):
		return "border-style"
	case strings.HasPrefix(name, "border-") && strings.HasSuffix(name, "-color"):
		return "border-color"
	case strings.HasPrefix(name, "border-") && strings.HasSuffix(name, "-radius"):
		return "border-radius"
	case strings.HasPrefix(name, "text-decoration"):
		return "text-decoration"
	case strings.HasPrefix(name, "font-variant"):
		return "font-variant"
	case strings.HasPrefix(name, "grid-"):
		return "grid"
	}
	for _, p := range []string{"background", "bleed", "bookmark", "column-rule", "column", "counter", "flex", "font", "footnote",
		"hyphenate", "image", "justify", "align", "list-style", "margin", "padding", "outline", "max", "min", "object", "break", "text-align", "word", "overflow"} {
		if strings.HasPrefix(name, p+"-") || name == p {
			return p
		}
	}
	return name
}

// ---- explicit value search ----------------------------------------------------------------

// valueMenu is the token menu of the deterministic search for accepted explicit values: the
// first maxValues entries accepted by the validator for a property are its explicit values.
// Relative values (resolved against the parent or the font size) come first because they are
// the ones whose computation can go wrong; then keywords, one per branch of the computer
// functions; then strings, functions and multi-token values for the properties that accept
// no single token.
var valueMenu = []string{
	// relative to the parent / the font size / the root (ex and ch are exercised by the
	// absolutisation block only: on font-size, tab-size and hyphenate-limit-zone they overflow
	// the stack, which costs one dead worker per case)
	"bolder", "lighter", "larger", "smaller", "2em", "150%", "2rem", "1in", "super", "sub", "thick",
	// numbers
	"3", "0.5", "700", "90deg", "2dppx",
	// display / float / position branches
	"table-cell", "inline-table", "list-item", "inline-block", "block", "flex", "grid", "absolute", "relative", "fixed", "left", "right",
	// keywords with a computer-function branch
	"always", "crop", "contents",
	// other keywords
	"both", "top", "bottom", "center", "middle", "solid", "dashed", "hidden", "collapse", "rtl", "red", "currentColor",
	"transparent", "bold", "italic", "small-caps", "condensed", "underline", "wavy", "uppercase", "nowrap", "pre-wrap",
	"break-all", "break-word", "anywhere", "justify", "end", "page", "avoid", "clone", "border-box", "padding-box",
	"cover", "contain", "repeat-x", "no-repeat", "space", "round", "stretch", "flex-end", "space-between", "baseline",
	"column", "row-reverse", "wrap", "dense", "subgrid", "min-content", "cross", "landscape", "a5",
	"closed", "square", "inside", "hide", "visible", "scroll", "ellipsis", "balance", "all", "fill", "scale-down", "from-image",
	"pixelated", "isolate", "embed", "discard", "keep", "line", "inline", "fixed", "ahem", "jis78", "no-common-ligatures",
	"tabular-nums", "historical-forms", "legacy",
	// keyword alternatives of the length-valued properties (the whole list, at every position,
	// is lengthKeywords in the absolutisation block)
	"content", "max-content", "fit-content", "thin", "medium", "large", "xx-small", "text-top", "text-bottom", "portrait", "letter",
	// initial values of many properties: last among the keywords, so that the first accepted
	// value (the parent's explicit value) differs from the initial value
	"none", "normal", "auto",
	// strings, functions, several tokens
	"'z'", "url(x)", "attr(title)", "counter(c)", "content(text)", "translate(2em, 1in)", "rotate(90deg)", "rect(1em, 2em, 3em, 4em)",
	"linear-gradient(red 2em, blue)", "'liga' 1", "'wght' 400", "'a' 'b'", "c 1", "a 'x'", "2em 3em", "span 2",
	"repeat(2, 2em)", "minmax(1em, 2em)", "5 2 2", "2em solid", "running(h)", "element(h)",
}

// the search keeps the first maxValues accepted values; the quick tier declares the first one,
// the thorough tier all of them
const maxValues = 6

// lengthTemplates are the value shapes into which a <length> is substituted for the
// absolutisation clause; {L} is the length.
var lengthTemplates = []string{
	"{L}", "{L} {L}", "rect({L}, {L}, {L}, {L})", "translate({L}, {L})", "linear-gradient(red {L}, blue)",
	"radial-gradient({L} {L} at {L} {L}, red {L}, blue)", "minmax({L}, {L})", "repeat(2, {L})", "fit-content({L})",
	"left {L} top {L}", "[a] {L} [b]",
}
