package c04

import (
	"fmt"
	"strings"

	pr "github.com/benoitkugler/webrender/css/properties"
	"github.com/benoitkugler/webrender/html/tree"
	"github.com/benoitkugler/webrender/utils"

	"verif/internal/engine"
)

// Block D: totality and sweep-order independence with the REAL user-agent sheet, on a document
// that contains one element of every kind the UA sheet and the presentational hints style.

const sinkDoc = `<!doctype html><html lang="fr"><head><title>t</title><style>
html::before, html::after, html::marker, html::first-line, html::first-letter, html::footnote-call, html::footnote-marker { font-size: 7px }
@page { margin: 1cm; padding-left: 2rem; padding-right: 32px; @top-center { content: "h"; padding-left: 2rem; padding-right: 32px } @bottom-right { content: counter(page) } }
q::before, li::marker { padding-left: 2rem; padding-right: 32px }
@page :first { margin-top: 2in }
@page wide { size: landscape }
q::before { color: red } li::marker { color: blue } p::first-letter { font-size: 2em } p::first-line { color: green }
.v { width: var(--w, 3em); --w: 4ex } .bad { color: var(--nope) ; width: var(--nope) }
</style></head><body bgcolor="#fff" text="black" marginheight="3">
<h1 id="a">h</h1><h2>h</h2><h3>h</h3><h4>h</h4><h5>h</h5><h6>h</h6>
<p align="center" class="v">p<a href="#a" title="t">a</a><a name="n">n</a><b>b</b><i>i</i><u>u</u><s>s</s><em>e</em><strong>s</strong>
<small>s</small><big>b</big><sub>s</sub><sup>s</sup><code>c</code><kbd>k</kbd><q>q</q><abbr title="x">a</abbr><br><wbr><span lang="de" class="bad">s</span>
<font color="red" face="ahem" size="+1">f</font><center>c</center><img src="data:," alt="i" width="10" height="5" border="1" hspace="2" vspace="3" align="middle"></p>
<div align="right">d</div><pre>p</pre><blockquote>b</blockquote><address>a</address><hr size="4" width="50%" color="red"><hr noshade size="1">
<ul value="3"><li>l</li></ul><ol start="5" type="a"><li value="7">l</li></ol><dl><dt>t</dt><dd>d</dd></dl><menu><li>m</li></menu>
<table border="1" cellspacing="2" cellpadding="3" width="100" height="50" bgcolor="red" bordercolor="blue" hspace="1" vspace="2">
<caption align="left">c</caption><colgroup><col width="10"><col></colgroup><thead><tr><th>h</th></tr></thead>
<tbody align="right"><tr height="9" bgcolor="red"><td width="8" height="7" align="justify" nowrap>d</td></tr></tbody><tfoot><tr><td>f</td></tr></tfoot></table>
<form><input type="text" value="v"><input type="checkbox" checked><input type="image" src="data:," align="center"><button>b</button><select><option>o</option></select><textarea>t</textarea><fieldset><legend>l</legend></fieldset><label>l</label></form>
<details><summary>s</summary>d</details><figure><figcaption>f</figcaption></figure><section><article><aside><nav><header><footer><main>m</main></footer></header></nav></aside></article></section>
<ruby>r<rt>t</rt></ruby><bdo dir="rtl">b</bdo><bdi>b</bdi><div dir="rtl">r</div><object data="data:," width="3"></object><embed src="data:,"><iframe src="data:,"></iframe><video></video><svg width="5" height="5"></svg>
<template>t</template><noscript>n</noscript><script>s</script><unknown-element>u</unknown-element>
</body></html>`

var sinkPseudos = []string{"", "before", "after", "marker", "first-letter", "first-line", "footnote-call", "footnote-marker"}

var sinkPages = []utils.PageElement{
	{Side: "right", First: true, Index: 0},
	{Side: "left", Index: 1},
	{Side: "right", Blank: true, Index: 2},
	{Side: "left", Index: 3, Name: "wide"},
}

var sinkMargins = []string{"", "@top-center", "@bottom-right", "@top-left", "@footnote"}

func (c *check) runSink(ctx *engine.Ctx, hints bool) {
	feats := []string{"pos:ua-sheet-document", fmt.Sprintf("hints:%v", hints)}
	type obs map[string]string // "<element#i>::pseudo prop" -> value
	read := func(backward bool) obs {
		out := obs{}
		doc, err := tree.NewHTML(utils.InputString(sinkDoc), "", nil, "")
		if err != nil {
			panic("harness: NewHTML: " + err.Error())
		}
		tc := c.textCtx("pango")
		var rules []tree.PageRule
		col := tree.NewTargetCollector()
		sf := tree.GetAllComputedStyles(doc, nil, hints, tc.fonts, nil, &rules, &col, false, tc)
		type named struct {
			name   string
			pseudo bool
			st     pr.ElementStyle
		}
		var styles []named
		it := doc.Root.Iter()
		for i := 0; it.HasNext(); i++ {
			e := it.Next()
			for _, ps := range sinkPseudos {
				if st := sf.Get(e, ps); st != nil {
					styles = append(styles, named{fmt.Sprintf("%s#%d::%s", e.Data, i, ps), ps != "", st})
				}
			}
		}
		for _, pt := range sinkPages {
			sf.SetPageComputedStylesT(pt, doc)
			for _, m := range sinkMargins {
				if st := sf.Get(pt, m); st != nil {
					styles = append(styles, named{fmt.Sprintf("@page(%s first=%v blank=%v name=%q)%s", pt.Side, pt.First, pt.Blank, pt.Name, m), m != "", st})
				}
			}
		}
		n, np := len(styles), len(c.props)
		for i := 0; i < n; i++ {
			s := styles[i]
			if backward {
				s = styles[n-1-i]
			}
			for j := 0; j < np; j++ {
				p := c.props[j]
				if backward {
					p = c.props[np-1-j]
				}
				if p.custom {
					continue
				}
				out[s.name+" "+p.name] = canon(p.name, s.pseudo, s.st.Get(p.key))
			}
		}
		return out
	}
	var fw, bw obs
	okF := c.guard(ctx, fmt.Sprintf("ua-sheet document hints=%v sweep=forward", hints), append(feats, "order:sweep-forward"), func() { fw = read(false) })
	okB := c.guard(ctx, fmt.Sprintf("ua-sheet document hints=%v sweep=backward", hints), append(feats, "order:sweep-backward"), func() { bw = read(true) })
	ctx.Trans(2)
	if !okF || !okB {
		ctx.Case(true, "panic")
		return
	}
	ctx.Count("reach:R1-ua-sheet-gets", int64(len(fw)+len(bw)))
	nNil, nDiff := 0, 0
	for k, v := range fw {
		if v == "<nil>" && nNil < 3 {
			nNil++
			c.fail(ctx, engine.Failure{Clause: "R1-total", Features: feats, Case: "ua-sheet document " + k, Detail: "Get returned nil"})
		}
		if b, ok := bw[k]; ok && b != v && nDiff < 3 {
			nDiff++
			c.fail(ctx, engine.Failure{Clause: "R5-sweep", Features: feats, Case: "ua-sheet document " + k,
				Detail: fmt.Sprintf("forward sweep (document order, table order) gives %s, backward sweep gives %s", v, b)})
		}
	}
	// rem: padding-left is declared 2rem next to padding-right 32px (the root's font size is the
	// initial 16px under the user-agent sheet) on the page, margin-box and pseudo-element styles
	nRem := 0
	for k := range fw {
		if !strings.HasSuffix(k, " padding-left") {
			continue
		}
		base := strings.TrimSuffix(k, " padding-left")
		if !(strings.HasPrefix(base, "@page") && (strings.HasSuffix(base, ")") || strings.HasSuffix(base, "@top-center"))) &&
			!(strings.HasPrefix(base, "q#") && strings.HasSuffix(base, "::before")) && !(strings.HasPrefix(base, "li#") && strings.HasSuffix(base, "::marker")) {
			continue
		}
		ctx.Count("reach:R6-ua-sheet-rem", 1)
		for _, o := range []obs{fw, bw} {
			if r := o[base+" padding-right"]; o[k] != r && nRem < 3 {
				nRem++
				c.fail(ctx, engine.Failure{Clause: "R6-font-relative", Features: append(feats[:len(feats):len(feats)], "unit:rem", "rootpseudo:foreign"), Case: "ua-sheet document " + k,
					Detail: fmt.Sprintf("padding-left:2rem computes to %s, padding-right:32px to %s (root font size 16px; the pseudo-elements of the root have 7px)", o[k], r)})
			}
		}
	}
	ctx.Case(true, fmt.Sprintf("%d values", len(fw)))
}
