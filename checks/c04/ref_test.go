package c04

import (
	"testing"

	pr "github.com/benoitkugler/webrender/css/properties"
)

// Unit tests of the reference's own helpers (the calibrations of canon are part of the oracle).

func TestCanonCalibrations(t *testing.T) {
	zeroPx := pr.DimOrS{Dimension: pr.Dimension{Value: 0, Unit: pr.Px}}
	zeroPerc := pr.DimOrS{Dimension: pr.Dimension{Value: 0, Unit: pr.Perc}}
	if canon("width", false, zeroPx) != canon("width", false, zeroPerc) {
		t.Error("zero dimensions must be equal whatever the unit")
	}
	onePx := pr.DimOrS{Dimension: pr.Dimension{Value: 1, Unit: pr.Px}}
	oneScalar := pr.DimOrS{Dimension: pr.Dimension{Value: 1, Unit: pr.Scalar}}
	if canon("line-height", false, onePx) == canon("line-height", false, oneScalar) {
		t.Error("1px and the number 1 must differ")
	}
	if canon("tab-size", false, pr.DimOrS{Dimension: pr.Dimension{Value: 8}}) != canon("tab-size", false, pr.DimOrS{Dimension: pr.Dimension{Value: 8, Unit: pr.Scalar}}) {
		t.Error("the two encodings of a unit-less number must be equal")
	}
	if canon("font-feature-settings", false, pr.FontFeatures{}) != canon("font-feature-settings", false, pr.FontFeatures(nil)) {
		t.Error("nil and empty lists must be equal")
	}
	if canon("content", false, pr.SContent{String: "normal"}) != canon("content", false, pr.SContent{String: "contents"}) {
		t.Error("content:normal is contents on elements")
	}
	if canon("content", true, pr.SContent{String: "normal"}) != canon("content", true, pr.SContent{String: "inhibit"}) {
		t.Error("content:normal is none on pseudo-elements")
	}
	if canon("content", false, pr.SContent{String: "normal"}) == canon("content", true, pr.SContent{String: "normal"}) {
		t.Error("content:normal differs between elements and pseudo-elements")
	}
	if canon("widows", false, pr.Int(2)) == canon("widows", false, pr.Int(3)) {
		t.Error("different values must differ")
	}
}

func TestApprox(t *testing.T) {
	a := pr.DimOrS{Dimension: pr.Dimension{Value: 96, Unit: pr.Px}}
	b := pr.DimOrS{Dimension: pr.Dimension{Value: 96.00001, Unit: pr.Px}}
	c := pr.DimOrS{Dimension: pr.Dimension{Value: 96.1, Unit: pr.Px}}
	d := pr.DimOrS{Dimension: pr.Dimension{Value: 96, Unit: pr.Pt}}
	if !approx(a, b) || approx(a, c) || approx(a, d) {
		t.Error("approx: tolerance is 1e-5 relative on floats, exact on everything else")
	}
	if !approx(pr.Values{a, a}, pr.Values{a, b}) || approx(pr.Values{a}, pr.Values{a, a}) {
		t.Error("approx on lists")
	}
}

func TestRefFontSize(t *testing.T) {
	w := &propInfo{name: "width", key: pr.PWidth.Key()}
	s := &spec{pos: posBefore, p: w, state: "2em"}
	if got := refFontSize(s, lvBefore); got != 50 {
		t.Error("::before font size", got)
	}
	if got := refFontSize(s, lvHTML); got != 10 {
		t.Error("root font size", got)
	}
	fs := &propInfo{name: "font-size", key: pr.PFontSize.Key()}
	s = &spec{pos: posGrand, p: fs, state: "2em", parent: "20px"}
	if got := refFontSize(s, lvBody); got != 20 {
		t.Error("parent font size of the font-size case", got)
	}
	s = &spec{pos: posRoot, p: fs, state: "2em"}
	if got := refFontSize(s, -1); got != 16 {
		t.Error("no parent: medium", got)
	}
}

func TestCustomExpected(t *testing.T) {
	p := &propInfo{name: "--x", custom: true, probe: "orphans", fallback: "7"}
	for _, c := range []struct {
		pos           int
		state, parent string
		want          string
	}{
		{posChild, "", "", "7"}, {posChild, "", "5", "5"}, {posChild, "inherit", "5", "5"}, {posChild, "inherit", "", "7"},
		{posChild, "initial", "5", "7"}, {posChild, "3", "5", "3"}, {posRoot, "inherit", "", "7"}, {posRoot, "", "", "7"},
	} {
		if got := customExpected(&spec{pos: c.pos, p: p, state: c.state, parent: c.parent}); got != c.want {
			t.Errorf("%+v: got %s", c, got)
		}
	}
}

func TestReferenceListsAreDisjoint(t *testing.T) {
	for n := range specInherited {
		if specNotInherited[n] {
			t.Error(n, "is in both lists")
		}
	}
}
