package c04

import (
	"fmt"

	pr "github.com/benoitkugler/webrender/css/properties"
	"github.com/benoitkugler/webrender/html/tree"
	"github.com/benoitkugler/webrender/utils"
)

var pageType = utils.PageElement{Side: "right", First: true, Index: 0}

// styleSet is a freshly computed style set of one document.
type styleSet struct {
	doc   *tree.HTML
	sf    *tree.StyleFor
	nodes map[string]*utils.HTMLNode
}

// newStyles runs tree.NewHTML + tree.GetAllComputedStyles (+ the page styles) on src.
// Must be called under Guard.
func (c *check) newStyles(src string, eng string, withPage bool) *styleSet {
	doc, err := tree.NewHTML(utils.InputString(src), "", nil, "")
	if err != nil {
		panic("harness: NewHTML: " + err.Error())
	}
	doc.UAStyleSheet = c.emptyUA
	tc := c.textCtx(eng)
	var rules []tree.PageRule
	col := tree.NewTargetCollector()
	sf := tree.GetAllComputedStyles(doc, nil, false, tc.fonts, nil, &rules, &col, false, tc)
	if withPage {
		sf.SetPageComputedStylesT(pageType, doc)
	}
	ss := &styleSet{doc: doc, sf: sf, nodes: map[string]*utils.HTMLNode{}}
	it := doc.Root.Iter()
	for it.HasNext() {
		e := it.Next()
		if _, dup := ss.nodes[e.Data]; !dup {
			ss.nodes[e.Data] = e
		}
	}
	return ss
}

// level returns the style of a level of the skeleton.
func (ss *styleSet) level(l int) pr.ElementStyle {
	switch l {
	case lvHTML:
		return ss.sf.Get(ss.nodes["html"], "")
	case lvBody:
		return ss.sf.Get(ss.nodes["body"], "")
	case lvDiv:
		return ss.sf.Get(ss.nodes["div"], "")
	case lvP:
		return ss.sf.Get(ss.nodes["p"], "")
	case lvBefore:
		return ss.sf.Get(ss.nodes["p"], "before")
	case lvMarker:
		return ss.sf.Get(ss.nodes["p"], "marker")
	case lvPage:
		return ss.sf.Get(pageType, "")
	case lvMargin:
		return ss.sf.Get(pageType, "@top-left")
	case lvRootBefore:
		return ss.sf.Get(ss.nodes["html"], "before")
	}
	return nil
}

// getp reads p on a style (other: the style is the second member of the access set).
func getp(st pr.ElementStyle, p *propInfo, other bool) pr.CssProperty {
	if p.custom {
		if other {
			return st.Get(p.probeKeyO)
		}
		return st.Get(p.probeKey)
	}
	return st.Get(p.key)
}

// depKey resolves a dependency name of the access set for property p.
func depKey(dep string, p *propInfo) pr.PropKey {
	if dep == "border-*-style" {
		// the style property the width depends on (it is stored just before the width)
		switch p.key.KnownProp {
		case pr.PBorderBottomWidth, pr.PBorderLeftWidth, pr.PBorderRightWidth, pr.PBorderTopWidth, pr.PColumnRuleWidth, pr.POutlineWidth:
			return (p.key.KnownProp - 1).Key()
		}
		return pr.PBorderTopStyle.Key()
	}
	return pr.PropsFromNames[dep].Key()
}

func needsPage(pos int) bool { return pos == posPage || pos == posMargin }

// access computes a fresh style set of the document and reads the access set in the given
// order; it returns the %#v forms of (p on the element, p on the other element, q on the
// element). Must be called under Guard.
func (c *check) access(s *spec, src string, eng string, order [3]int, q pr.PropKey) (out [3]string) {
	ss := c.newStyles(src, eng, needsPage(s.pos))
	el, other := ss.level(posLevel[s.pos][0]), ss.level(posLevel[s.pos][1])
	if el == nil || other == nil {
		panic(fmt.Sprintf("harness: no style for position %s", posNames[s.pos]))
	}
	for _, i := range order {
		switch i {
		case 0:
			out[0] = canon(s.p.obsName(), isPseudo(posLevel[s.pos][0]), getp(el, s.p, false))
		case 1:
			out[1] = canon(s.p.obsName(), isPseudo(posLevel[s.pos][1]), getp(other, s.p, true))
		case 2:
			out[2] = canon(q.String(), isPseudo(posLevel[s.pos][0]), el.Get(q))
		}
	}
	return out
}

// sweep reads every property of the table on the element and on the other element of the
// access set (forward: element first, table order; backward: other element first, reverse
// order) and returns the values per property name.
func (c *check) sweep(s *spec, src string, eng string, backward bool) (el, other map[string]string) {
	ss := c.newStyles(src, eng, needsPage(s.pos))
	e, o := ss.level(posLevel[s.pos][0]), ss.level(posLevel[s.pos][1])
	el, other = map[string]string{}, map[string]string{}
	read := func(st pr.ElementStyle, pseudo, isOther bool, into map[string]string) {
		n := len(c.props)
		for i := 0; i < n; i++ {
			p := c.props[i]
			if backward {
				p = c.props[n-1-i]
			}
			if p.custom && p != s.p {
				continue // the probe declaration exists only for the property under test
			}
			into[p.name] = canon(p.obsName(), pseudo, getp(st, p, isOther))
		}
	}
	pe, po := isPseudo(posLevel[s.pos][0]), isPseudo(posLevel[s.pos][1])
	if backward {
		read(o, po, true, other)
		read(e, pe, false, el)
	} else {
		read(e, pe, false, el)
		read(o, po, true, other)
	}
	return el, other
}

func isPseudo(level int) bool {
	return level == lvBefore || level == lvMarker || level == lvMargin || level == lvRootBefore
}

// obsName is the name of the property whose value is observed for p.
func (p *propInfo) obsName() string {
	if p.custom {
		return p.probe
	}
	return p.name
}
