package c04

import (
	"fmt"

	"verif/internal/engine"
)

type caseVal struct {
	ok    bool
	e, o  string // p on the element, p on the other member of the access set (parent; child for the root)
	s     *spec
	src   string
	state string
}

func orderName(o [3]int) string {
	return string([]byte{"abc"[o[0]], "abc"[o[1]], "abc"[o[2]]})
}

// parentValue is the parent's explicit value: the first accepted value (the menu lists the
// values that are initial values of many properties last, so that inheritance is visible).
func parentValue(p *propInfo) string {
	if p.custom {
		return p.cvals[1]
	}
	if len(p.values) > 0 {
		return p.values[0]
	}
	return ""
}

// customExpected is the reference model for a custom property observed through
// `probe: var(--x, 7)` (CSS Variables 1 §2, §3): custom properties are inherited, their
// initial value is the guaranteed-invalid value (var() then uses its fallback), and the
// CSS-wide keywords inherit and initial have their usual meaning.
func customExpected(s *spec) string {
	n := s.p.fallback
	switch s.state {
	case "", "inherit":
		if s.parent != "" && s.pos != posRoot {
			n = s.parent
		}
	case "initial":
	default:
		n = s.state
	}
	if s.p.probe == "z-index" {
		return `properties.IntString{String:"", Int:` + n + `}`
	}
	return n
}

func (c *check) nctx() int {
	if c.thorough {
		return 3
	}
	return 2
}

func (c *check) explicitValues(p *propInfo) []string {
	if c.thorough {
		// plus every keyword alternative of a length-valued property (the menu's cap is
		// reached by the lengths before the keywords come)
		vals := append([]string(nil), p.values...)
		for _, kv := range p.kwValues {
			dup := kv.keyword != kv.value
			for _, v := range vals {
				dup = dup || v == kv.value
			}
			if !dup {
				vals = append(vals, kv.value)
			}
		}
		return vals
	}
	if len(p.values) <= 1 {
		return p.values
	}
	return p.values[:1]
}

// runCase evaluates one document under every access order and reports R1/R5.
func (c *check) runCase(ctx *engine.Ctx, s *spec) caseVal {
	src := s.html()
	base := s.String()
	cv := caseVal{s: s, src: src, state: s.state}
	var ref [3]string
	first := true
	r5 := 0
	for _, dep := range c.deps() {
		q := depKey(dep, s.p)
		for _, ord := range orders {
			var got [3]string
			desc := fmt.Sprintf("%s order=%s dep=%s doc=%s", base, orderName(ord), dep, src)
			ok := c.guard(ctx, desc, s.features("order:"+orderName(ord), "dep:"+dep), func() { got = c.access(s, src, "pango", ord, q) })
			ctx.Trans(1)
			if !ok {
				if first {
					return cv // the reference order itself fails: nothing to compare
				}
				continue
			}
			for i, g := range got {
				if g == "<nil>" {
					c.fail(ctx, engine.Failure{Clause: "R1-total", Features: s.features("order:"+orderName(ord), "dep:"+dep), Case: desc,
						Detail: fmt.Sprintf("Get returned nil for member %d of the access set", i)})
				}
			}
			if first {
				ref, first = got, false
				cv.ok, cv.e, cv.o = true, got[0], got[1]
				continue
			}
			if (got[0] != ref[0] || got[1] != ref[1]) && r5 < 2 {
				r5++
				c.fail(ctx, engine.Failure{Clause: "R5-order", Features: s.features("order:"+orderName(ord), "dep:"+dep), Case: desc,
					Detail: fmt.Sprintf("order abc/dep font-size gave element=%s other=%s; this order gave element=%s other=%s", ref[0], ref[1], got[0], got[1])})
			}
		}
	}
	ctx.Count("reach:R5-orders-compared", int64(len(c.deps())*len(orders)-1))
	// full sweeps: Get(all) on both styles, then p must still have the same value
	var fe, fo, be, bo map[string]string
	desc := fmt.Sprintf("%s order=sweep-forward doc=%s", base, src)
	okF := c.guard(ctx, desc, s.features("order:sweep-forward"), func() { fe, fo = c.sweep(s, src, "pango", false) })
	ctx.Trans(1)
	if okF {
		c.checkSweep(ctx, s, desc, "sweep-forward", fe, fo, ref)
	}
	if c.thorough {
		descB := fmt.Sprintf("%s order=sweep-backward doc=%s", base, src)
		okB := c.guard(ctx, descB, s.features("order:sweep-backward"), func() { be, bo = c.sweep(s, src, "pango", true) })
		ctx.Trans(1)
		if okB {
			c.checkSweep(ctx, s, descB, "sweep-backward", be, bo, ref)
		}
		if okF && okB {
			n := 0
			for _, p := range c.props {
				if fe[p.name] != be[p.name] || fo[p.name] != bo[p.name] {
					if n < 2 {
						c.fail(ctx, engine.Failure{Clause: "R5-sweep", Features: s.features("observed:" + p.name), Case: descB,
							Detail: fmt.Sprintf("%s after a forward sweep: element=%s other=%s; after a backward sweep: element=%s other=%s", p.name, fe[p.name], fo[p.name], be[p.name], bo[p.name])})
					}
					n++
				}
			}
			ctx.Count("reach:R5-sweep-properties-compared", int64(len(fe)))
		}
	}
	return cv
}

func (c *check) checkSweep(ctx *engine.Ctx, s *spec, desc, name string, e, o map[string]string, ref [3]string) {
	for n, v := range e {
		if v == "<nil>" || o[n] == "<nil>" {
			c.fail(ctx, engine.Failure{Clause: "R1-total", Features: s.features("order:"+name, "observed:"+n), Case: desc, Detail: "Get(" + n + ") returned nil"})
		}
	}
	ctx.Count("reach:R1-sweep-gets", int64(len(e)+len(o)))
	if e[s.p.name] != ref[0] || o[s.p.name] != ref[1] {
		c.fail(ctx, engine.Failure{Clause: "R5-order", Features: s.features("order:" + name), Case: desc,
			Detail: fmt.Sprintf("isolated access gave element=%s other=%s; after Get(all) element=%s other=%s", ref[0], ref[1], e[s.p.name], o[s.p.name])})
	}
}

// rootNone is the value the root gets with no declaration of p in context ctx.
func (c *check) rootNone(ctx *engine.Ctx, p *propInfo, cx int) (string, bool) {
	key := fmt.Sprintf("%s|%d", p.name, cx)
	if v, ok := c.rootRef[key]; ok {
		return v, v != ""
	}
	s := &spec{pos: posRoot, p: p, ctx: cx}
	src := s.html()
	var got [3]string
	pi, skipped := ctx.Guard("root reference: "+s.String()+" doc="+src, func() { got = c.access(s, src, "pango", orders[0], depKey("font-size", p)) })
	if pi != nil || skipped {
		c.rootRef[key] = ""
		return "", false
	}
	c.rootRef[key] = got[0]
	return got[0], true
}

func (c *check) runDefaulting(ctx *engine.Ctx, pos int, p *propInfo) {
	if pos == posRoot {
		// per-property counters are emitted once
		if len(p.values) == 0 {
			ctx.Count("uncovered_properties", 1)
			ctx.Count("uncovered:"+p.name, 1)
		}
		if !p.declarable {
			ctx.Count("undeclarable_properties", 1)
			ctx.Count("undeclarable:"+p.name, 1)
		}
		if _, classified := inherited(p); !classified {
			ctx.Count("unclassified_properties", 1)
			ctx.Count("unclassified:"+p.name, 1)
		}
		if !p.custom && p.initial == "" {
			ctx.Count("no_spec_initial_value", 1)
		}
	}
	inh, _ := inherited(p)
	type state struct{ tag, val string }
	states := []state{{"none", ""}}
	if p.declarable {
		states = append(states, state{"inherit", "inherit"}, state{"initial", "initial"})
		if p.initial != "" {
			states = append(states, state{"spec-initial", p.initial})
		}
		for _, v := range c.explicitValues(p) {
			states = append(states, state{"explicit", v})
		}
	}
	for cx := 0; cx < c.nctx(); cx++ {
		for par := 0; par < 2; par++ {
			if par == 1 && (pos == posRoot || len(p.values) == 0 || !p.declarable) {
				continue
			}
			vals := map[string]caseVal{}
			for _, st := range states {
				s := &spec{pos: pos, p: p, state: st.val, ctx: cx}
				if par == 1 {
					s.parent = parentValue(p)
				}
				cv := c.runCase(ctx, s)
				if _, dup := vals[st.tag]; !dup {
					vals[st.tag] = cv
				}
				compared := c.clauses(ctx, pos, p, inh, st.tag, cv, vals, cx, par == 1)
				out := "panic"
				if cv.ok {
					out = st.tag + "|" + cv.e
				}
				ctx.Case(compared, out)
			}
		}
	}
}

// clauses evaluates R2, R3, R4 for the case cv (state tag st); the states none, inherit and
// initial are evaluated in that order so that the earlier values are available. It returns
// true when a relational clause was compared.
func (c *check) clauses(ctx *engine.Ctx, pos int, p *propInfo, inh bool, st string, cv caseVal, vals map[string]caseVal, cx int, parentExplicit bool) bool {
	if !cv.ok {
		return false
	}
	s := cv.s
	if p.custom {
		clause := map[string]string{"none": "R2-inherited", "inherit": "R3-inherit", "initial": "R3-initial", "explicit": "R1-custom-explicit"}[st]
		if pos == posRoot {
			clause = map[string]string{"none": "R2-initial", "inherit": "R4-root-inherit", "initial": "R3-initial", "explicit": "R1-custom-explicit"}[st]
		}
		ctx.Count("reach:"+clause, 1)
		if want := customExpected(s); cv.e != want {
			c.fail(ctx, engine.Failure{Clause: clause, Features: s.features(), Case: s.String() + " doc=" + cv.src,
				Detail: fmt.Sprintf("%s:var(%s,%s) computes to %s, expected %s", p.probe, p.name, p.fallback, cv.e, want)})
		}
		return true
	}
	fail := func(clause, detail string, more ...string) {
		c.fail(ctx, engine.Failure{Clause: clause, Features: s.features(more...), Case: s.String() + " doc=" + cv.src, Detail: detail})
	}
	implInh := false
	if !p.custom {
		implInh = prInherited(p)
	}
	var tags []string
	if !p.custom && implInh != inh {
		tags = append(tags, "inherited-flag-differs")
	}
	compared := false
	switch st {
	case "inherit":
		if p.name == "content" && isPseudo(posLevel[pos][0]) {
			// content:inherit on a pseudo-element would take the element's `contents`, which
			// is not defined for pseudo-elements (Content 3 §2): not asserted
			break
		}
		if pos != posRoot {
			// R3: inherit forces the parent's computed value, for every property
			compared = true
			ctx.Count("reach:R3-inherit", 1)
			if cv.e != cv.o {
				fail("R3-inherit", fmt.Sprintf("element has %s, parent has %s", cv.e, cv.o), tags...)
			}
		}
	case "initial":
		// R3: initial gives what the root gets with no declaration and the same dependencies
		skip := false
		switch {
		case p.name == "display" && pos != posRoot:
			skip = true // the root's display is blockified (CSS 2.1 §9.7); covered by the spec-initial clause
		case p.name == "content" && isPseudo(posLevel[pos][0]):
			skip = true // content:normal computes to none on pseudo-elements, to contents on elements
		case p.name == "page" && parentExplicit:
			skip = true // used value stored (see assumptions)
		}
		if ref, ok := c.rootNone(ctx, p, cx); ok && !skip {
			compared = true
			ctx.Count("reach:R3-initial", 1)
			if cv.e != ref {
				fail("R3-initial", fmt.Sprintf("element with %s:initial has %s, the root with no declaration has %s", p.name, cv.e, ref), tags...)
			}
		}
		if pos == posRoot {
			// R4: on the root, inherit ≡ initial
			if iv, ok := vals["inherit"]; ok && iv.ok {
				compared = true
				ctx.Count("reach:R4-root", 1)
				if iv.e != cv.e {
					fail("R4-root-inherit", fmt.Sprintf("root with inherit has %s, with initial has %s", iv.e, cv.e), tags...)
				}
			}
		}
		// R2 for the no-declaration case, now that the initial value is known
		if nv, ok := vals["none"]; ok && nv.ok {
			if !inh || pos == posRoot {
				compared = true
				ctx.Count("reach:R2-initial", 1)
				if nv.e != cv.e {
					c.fail(ctx, engine.Failure{Clause: "R2-initial", Features: nv.s.features(tags...), Case: nv.s.String() + " doc=" + nv.src,
						Detail: fmt.Sprintf("no declaration gives %s, %s:initial gives %s (not inherited per specification: %v)", nv.e, p.name, cv.e, !inh)})
				}
			}
		}
	case "none":
		if inh && pos != posRoot {
			compared = true
			ctx.Count("reach:R2-inherited", 1)
			if cv.e != cv.o {
				fail("R2-inherited", fmt.Sprintf("no declaration on an inherited property: element has %s, parent has %s", cv.e, cv.o), tags...)
			}
		}
	case "spec-initial":
		if iv, ok := vals["initial"]; ok && iv.ok {
			compared = true
			ctx.Count("reach:R3-spec-initial", 1)
			if iv.e != cv.e {
				fail("R3-spec-initial", fmt.Sprintf("%s:initial computes to %s, the specification's initial value %s:%s computes to %s", p.name, iv.e, p.name, p.initial, cv.e))
			}
		}
	}
	return compared
}
