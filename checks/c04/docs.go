package c04

import (
	"fmt"
	"strings"
)

// levels of the skeleton document
const (
	lvHTML = iota
	lvBody
	lvDiv
	lvP
	lvBefore     // p::before
	lvMarker     // p::marker
	lvPage       // @page
	lvMargin     // @page { @top-left }
	lvRootBefore // html::before: a generated pseudo-element OF THE ROOT (its element is the root, it has a parent)
	nLevels
)

var levelNames = [...]string{"html", "body", "div", "p", "p::before", "p::marker", "@page", "@top-left", "html::before"}

// font-size ladder (px): every level has its own font size so that a length resolved against
// the wrong element is visible.
var ladder = [...]float64{10, 20, 30, 40, 50, 50, 50, 60, 70}

// parentLevel[l] = level a style at level l inherits from (-1: none)
var parentLevel = [...]int{-1, lvHTML, lvBody, lvDiv, lvP, lvP, lvHTML, lvPage, lvHTML}

// posLevel: position -> (element level, level of the second member of the access set)
var posLevel = [nPos][2]int{
	posRoot:       {lvHTML, lvBody}, // no parent: the child is accessed instead
	posChild:      {lvBody, lvHTML},
	posGrand:      {lvDiv, lvBody},
	posBefore:     {lvBefore, lvP},
	posMarker:     {lvMarker, lvP},
	posPage:       {lvPage, lvHTML},
	posMargin:     {lvMargin, lvPage},
	posRootBefore: {lvRootBefore, lvHTML},
}

// spec is one case of block A/C: a document.
type spec struct {
	pos    int
	p      *propInfo
	state  string // "" = no declaration, else the declared value of p at the position
	parent string // "" = none, else the declared value of p at the parent
	ctx    int
	// extra declarations (R6 and shared-rule documents)
	extra  [nLevels][]string
	noFont bool // leave the font-size ladder out
	// rootPseudo: every generated pseudo-element of the ROOT element (html::before, ::after,
	// ::marker, ::first-line, ::first-letter, ::footnote-call, ::footnote-marker) is styled with a font size (7px) that no
	// level of the ladder has. Those styles are computed with element == root, among the other
	// pseudo-elements and before the page contexts: nothing of theirs may reach another style
	// (in particular the root font size that rem refers to is the root ELEMENT's).
	rootPseudo bool
}

// rootPseudoRule styles every pseudo-element the root can have; it comes first in the sheet so
// that the rule of the html::before position wins over it.
const rootPseudoRule = "html::before,html::after,html::marker,html::first-line,html::first-letter,html::footnote-call,html::footnote-marker{content:'r';font-size:7px}"

func (s *spec) decls() (d [nLevels][]string) {
	p := s.p
	skip := func(decl string) bool {
		name := decl[:strings.Index(decl, ":")]
		return name == p.name || (p.custom && (name == p.probe || name == p.probeO))
	}
	el, other := posLevel[s.pos][0], posLevel[s.pos][1]
	// the context never declares p on the two styles whose declared state is under test
	add := func(l int, decl string) {
		if !((l == el || l == other) && skip(decl)) {
			d[l] = append(d[l], decl)
		}
	}
	add(lvHTML, "font-family:ahem")
	// only the levels the position depends on carry declarations: the element, the other
	// member of the access set and their ancestors
	var used [nLevels]bool
	for _, l := range []int{el, other} {
		for ; l >= 0; l = parentLevel[l] {
			used[l] = true
		}
	}
	for l := 0; l < nLevels; l++ {
		if !used[l] {
			continue
		}
		if !s.noFont {
			add(l, fmt.Sprintf("font-size:%gpx", ladder[l]))
		}
		for _, x := range ctxDecls[s.ctx] {
			add(l, x)
		}
		d[l] = append(d[l], s.extra[l]...)
	}
	if s.state != "" {
		d[el] = append(d[el], p.name+":"+s.state)
	}
	if s.parent != "" && s.pos != posRoot {
		d[other] = append(d[other], p.name+":"+s.parent)
	}
	if p.custom {
		d[el] = append(d[el], fmt.Sprintf("%s:var(%s,%s)", p.probe, p.name, p.fallback))
		d[other] = append(d[other], fmt.Sprintf("%s:var(%s,%s)", p.probeO, p.name, p.fallback))
	}
	return d
}

// html renders the document. Element levels carry their declarations in style attributes,
// pseudo-elements and page contexts in rules of a <style> element. Pseudo-elements and margin
// boxes only exist when a rule matches them: their rules always carry one declaration.
func (s *spec) html() string {
	d := s.decls()
	carrier := func(l int, decl string) []string {
		name := decl[:strings.Index(decl, ":")]
		if name == s.p.name {
			decl = "z-index:auto"
		}
		return append([]string{decl}, d[l]...)
	}
	attr := func(l int) string {
		if len(d[l]) == 0 {
			return ""
		}
		return ` style="` + strings.Join(d[l], ";") + `"`
	}
	var sb strings.Builder
	sb.WriteString("<html" + attr(lvHTML) + "><head><style>")
	if s.rootPseudo {
		sb.WriteString(rootPseudoRule)
	}
	switch s.pos {
	case posBefore:
		sb.WriteString("p::before{" + strings.Join(carrier(lvBefore, "content:'z'"), ";") + "}")
	case posMarker:
		sb.WriteString("p::marker{" + strings.Join(carrier(lvMarker, "content:'k'"), ";") + "}")
	case posPage:
		sb.WriteString("@page{" + strings.Join(d[lvPage], ";") + "}")
	case posMargin:
		sb.WriteString("@page{" + strings.Join(d[lvPage], ";") + ";@top-left{" + strings.Join(carrier(lvMargin, "content:'m'"), ";") + "}}")
	case posRootBefore:
		sb.WriteString("html::before{" + strings.Join(carrier(lvRootBefore, "content:'r'"), ";") + "}")
	}
	sb.WriteString("</style></head><body" + attr(lvBody) + "><div" + attr(lvDiv) + "><p" + attr(lvP) + ">x</p></div></body></html>")
	return sb.String()
}

func (s *spec) stateTag() string {
	switch s.state {
	case "":
		return "none"
	case "inherit", "initial":
		return s.state
	}
	return "explicit"
}

func (s *spec) String() string {
	par := "none"
	if s.parent != "" {
		par = s.parent
	}
	st := s.state
	if st == "" {
		st = "<none>"
	}
	rp := ""
	if s.rootPseudo {
		rp = " rootpseudo=foreign"
	}
	return fmt.Sprintf("pos=%s prop=%s state=%s parent=%s ctx=%s%s", posNames[s.pos], s.p.name, st, par, ctxNames[s.ctx], rp)
}

func (s *spec) features(more ...string) []string {
	f := []string{"pos:" + posNames[s.pos], "prop:" + s.p.name, "fam:" + family(s.p.name), "state:" + s.stateTag(), "ctx:" + ctxNames[s.ctx]}
	if s.parent != "" {
		f = append(f, "parent:explicit")
	} else {
		f = append(f, "parent:none")
	}
	if s.stateTag() == "explicit" {
		f = append(f, "val:"+sanitize(s.state))
	}
	return append(f, more...)
}
