package c04

import (
	"bytes"
	"io"
	"os"
	"sync"

	fc "github.com/benoitkugler/textprocessing/fontconfig"
	"github.com/benoitkugler/textprocessing/pango/fcfonts"
	"github.com/benoitkugler/webrender/logger"
	"github.com/benoitkugler/webrender/text"
	"github.com/go-text/typesetting/fontscan"
)

// The font configuration knows only the Ahem font (family name "ahem"): x-height 0.8em,
// advance of every glyph 1em, so ex = 0.8em and ch = 1em exactly.
const ahemPath = "/repo/resources_test/AHEM____.TTF"

var (
	fcOnce  sync.Once
	fcAhem  fc.Fontset
	ahemRaw []byte
)

func newFontConfig(engine string) text.FontConfiguration {
	fcOnce.Do(func() {
		fs, err := fc.Standard.Copy().ScanFontFile(ahemPath)
		if err != nil {
			panic("harness: cannot scan Ahem: " + err.Error())
		}
		fcAhem = fs
		ahemRaw, _ = os.ReadFile(ahemPath)
	})
	if engine == "gotext" {
		fm := fontscan.NewFontMap(nil)
		if err := fm.AddFont(bytes.NewReader(ahemRaw), "ahem", ""); err != nil {
			panic("harness: gotext cannot load Ahem: " + err.Error())
		}
		return text.NewFontConfigurationGotext(fm)
	}
	return text.NewFontConfigurationPango(fcfonts.NewFontMap(fc.Standard.Copy(), fcAhem))
}

func init() {
	logger.ProgressLogger.SetOutput(io.Discard)
	logger.WarningLogger.SetOutput(io.Discard)
}
