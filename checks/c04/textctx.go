package c04

import (
	pr "github.com/benoitkugler/webrender/css/properties"
	"github.com/benoitkugler/webrender/text"
	"github.com/benoitkugler/webrender/text/hyphen"
)

// textCtx is the harness' text.TextLayoutContext (what layout passes to the style engine).
type textCtx struct {
	fonts  text.FontConfiguration
	hyph   map[text.HyphenDictKey]hyphen.Hyphener
	struts map[text.StrutLayoutKey][2]pr.Float
}

func (t *textCtx) Fonts() text.FontConfiguration { return t.fonts }
func (t *textCtx) HyphenCache() map[text.HyphenDictKey]hyphen.Hyphener {
	if t.hyph == nil {
		t.hyph = map[text.HyphenDictKey]hyphen.Hyphener{}
	}
	return t.hyph
}
func (t *textCtx) StrutLayoutsCache() map[text.StrutLayoutKey][2]pr.Float {
	if t.struts == nil {
		t.struts = map[text.StrutLayoutKey][2]pr.Float{}
	}
	return t.struts
}
