// Package c04: every property has a computed value obtained by CSS defaulting.
//
// Bounded exhaustive product: every long-hand of the generated property table (plus two
// custom properties) × tree position (root, child, grandchild, ::before, ::marker, page
// context, margin-box context, ::before of the root, anonymous boxes) × declared state (none, inherit, initial,
// the specification's initial value, up to six explicit values) × parent state × dependency
// context × every order of a three-element access set (values are computed lazily and cached).
// Oracle: the relational clauses R1..R6 of DESIGN §C04 (totality, defaulting, inherit/initial,
// root, access-order independence, absolutisation of lengths).
package c04

import (
	"fmt"
	"os"
	"regexp"
	"sort"
	"strings"

	pa "github.com/benoitkugler/webrender/css/parser"
	pr "github.com/benoitkugler/webrender/css/properties"
	"github.com/benoitkugler/webrender/css/validation"
	"github.com/benoitkugler/webrender/html/tree"
	"github.com/benoitkugler/webrender/utils"

	"verif/internal/engine"
)

type propInfo struct {
	name   string
	key    pr.PropKey
	custom bool
	// a custom property is observed through `probe: var(--x, fallback)`; the element and the
	// other member of the access set use different probe properties, so that a keyword that
	// leaks through var() (`--x: inherit` becoming `probe: inherit`) cannot coincide with
	// the expected value
	probe, probeO       string
	probeKey, probeKeyO pr.PropKey
	fallback            string
	cvals               []string // explicit values of a custom property

	// found lazily (deterministic search through the validator)
	searched   bool
	declarable bool     // `name: inherit` yields a declaration of this very property
	values     []string // accepted explicit values (≤ maxValues)
	initial    string   // the specification's initial value if the validator accepts it
	templates  []string // accepted length templates (R6)
	// length-valued properties only: the values made of keywords and pixel lengths alone
	// (every keyword alternative the validator accepts, alone and next to a length)
	kwValues []kwValue
	anyIdent bool // the validator accepts an identifier that is no CSS keyword at all
}

// kwValue is a declared value that contains no relative part: a keyword, a pixel length, or a
// keyword next to pixel lengths.
type kwValue struct {
	value   string
	keyword string // "" for the pixel-only values
	tmpl    string
	decl    pr.CssProperty // what the validator makes of it
}

type check struct {
	tier     string
	thorough bool
	props    []*propInfo
	nA       int64 // units of the defaulting sweep: position × property
	nB       int64 // anonymous boxes: property
	nC       int64 // absolutisation: property
	nD       int64 // real UA sheet document: presentational hints off / on
	nE       int64 // box building preserves the element styles: property

	emptyUA tree.CSS
	haveUA  bool
	tcs     map[string]*textCtx
	rootRef map[string]string
}

func init() { engine.Register(&check{}) }

func (c *check) ID() string { return "C04" }

// positions of the defaulting sweep
const (
	posRoot = iota
	posChild
	posGrand
	posBefore
	posMarker
	posPage
	posMargin
	posRootBefore
	nPos
)

var posNames = [...]string{"root", "child", "grandchild", "before", "marker", "page", "margin-box", "root-before"}

// contexts: declarations present on every level besides the font-size ladder
var ctxNames = []string{"plain", "styled", "abs"}

var ctxDecls = [][]string{
	nil,
	{"float:left", "border-top-style:solid", "border-left-style:dashed", "border-right-style:double", "border-bottom-style:dotted",
		"outline-style:solid", "column-rule-style:solid", "color:red", "direction:rtl", "marks:crop", "font-weight:700", "font-style:italic"},
	{"position:absolute", "float:right", "display:inline-table", "border-top-style:hidden", "line-height:150%"},
}

// dependency properties of the access set
var depNames = []string{"font-size", "display", "position", "float", "color", "border-*-style", "direction"}

// more dependencies in the thorough tier: what the ex/ch ratio, vertical-align and bleed read
var depNamesThorough = []string{"font-family", "font-weight", "font-style", "line-height", "marks"}

func (c *check) deps() []string {
	if c.thorough {
		return append(append([]string(nil), depNames...), depNamesThorough...)
	}
	return depNames
}

var orders = [][3]int{{0, 1, 2}, {0, 2, 1}, {1, 0, 2}, {1, 2, 0}, {2, 0, 1}, {2, 1, 0}}

func (c *check) Init(tier string, seed int64) engine.Space {
	c.tier = tier
	c.thorough = tier == "thorough"
	c.props = nil
	func() {
		defer func() { recover() }()
		var names []string
		for n := range pr.PropsFromNames {
			names = append(names, n)
		}
		sort.Strings(names)
		for _, n := range names {
			c.props = append(c.props, &propInfo{name: n, key: pr.PropsFromNames[n].Key()})
		}
	}()
	c.props = append(c.props,
		&propInfo{name: "--c04a", custom: true, probe: "z-index", probeKey: pr.PZIndex.Key(), probeO: "order", probeKeyO: pr.POrder.Key(), fallback: "7", cvals: []string{"3", "5"}},
		&propInfo{name: "--c04b", custom: true, probe: "orphans", probeKey: pr.POrphans.Key(), probeO: "widows", probeKeyO: pr.PWidows.Key(), fallback: "7", cvals: []string{"3", "5"}},
	)
	if only := os.Getenv("C04_PROPS"); only != "" {
		// development aid: restrict the property list (the evidence then shows the reduced bound)
		keep := map[string]bool{}
		for _, n := range strings.Split(only, ",") {
			keep[n] = true
		}
		var l []*propInfo
		for _, p := range c.props {
			if keep[p.name] {
				l = append(l, p)
			}
		}
		c.props = l
	}
	n := int64(len(c.props))
	c.nA, c.nB, c.nC, c.nD, c.nE = n*nPos, n, n, 2, n
	c.tcs = map[string]*textCtx{}
	c.rootRef = map[string]string{}
	nctx := 2
	if c.thorough {
		nctx = 3
	}
	return engine.Space{
		Units: c.nA + c.nB + c.nC + c.nD + c.nE, Chunk: 2, Level: "model_checking",
		Rule: "five index-addressable blocks. (A) one unit per (position, property): every declared state {none, inherit, initial, specification initial value, explicit values} × parent {none, explicit} × dependency context, each evaluated on a fresh style set under all 6 orders of the access set {p on the element, p on the parent (child for the root), dependency q on the element} for each listed dependency, plus full sweeps Get(all); a case (= one document) is non-trivial when the relational clause of its state was actually compared. (B) one unit per property: every anonymous box of a document that generates anonymous block, line and text boxes, the anonymous table parts around a lone cell, anonymous flex and grid items and the text of a ::before (the boxes of a ::marker are not anonymous boxes and are left out). (C) one unit per property: every length template the validator accepts × position × unit, the font-relative units a second time with every pseudo-element of the root (html::before, ::after, ::marker, ::first-line, ::first-letter, ::footnote-call, ::footnote-marker) carrying a font size of its own; every value without a relative part (each keyword alternative the validator accepts for a length-valued property, alone and in the first / last slot of a template next to pixel lengths, and the pixel lengths alone) × position × context against the value as specified; plus one rule shared by two elements, plus every ordered pair of font-relative units on two users of one document (siblings, parent and child, two properties of one element; both read orders). (D) two units: Get(all) in two sweep orders on every element, pseudo-element, page and margin-box style of a document with one element of every kind, under the real user-agent sheet, presentational hints off/on; the pseudo-elements of its root carry a font size of their own, and a rem length next to the same length in px on the page, margin-box and pseudo-element styles must compute alike. (E) one unit per property: a container of every display whose boxes the box builder wraps or completes, with an explicit value of the property, and children of every kind (block child, caption, row, cell, ::before) declaring inherit; every property of every element is read before box building, again after it, and (on a fresh style set) only after it",
		Bounds: map[string]any{
			"properties": n, "positions": posNames[:], "contexts": ctxNames[:nctx], "dependencies": c.deps(),
			"access_orders": len(orders), "max_explicit_values": map[string]int{"quick": 1, "thorough": maxValues}[tier],
			"value_menu_size": len(valueMenu), "length_templates": lengthTemplates,
			"units_of_length": []string{"in", "px", "pt", "pc", "cm", "mm", "q", "em", "rem", "ex", "ch", "%"},
			"length_keywords": lengthKeywords, "root_pseudo_elements": []string{"none", rootPseudoRule},
		},
		Assumptions: []string{
			"blocks A-C: the user-agent sheet is replaced by an empty sheet so that 'no declaration' really means none (the UA sheet's own declarations are the cascade's business, C03); block D uses the real sheet",
			"explicit values outside the token menu are not explored; properties for which the menu yields no accepted value are counted as uncovered_properties",
			"anchor, link and lang have no CSS specification: their inherited flag is read from the implementation's table (counted as unclassified_properties)",
			"page: the implementation stores the used value (auto resolved to the nearest ancestor's name, '' on the root) in place of the computed value; the clauses compare modulo that resolution",
			"deep equality is taken on the %#v form of the property values; the absolutisation clause compares floats with a relative tolerance of 1e-5 (float32 arithmetic)",
			"R6-keyword: the computed value of a keyword or pixel length is the validated value (size keywords converted to px by the fixed ratios, border-image-outset/width expanded to four sides), except where the definition table says otherwise: border/outline/column-rule widths (0 without a style, thin/medium/thick an absolute length), font-size keywords (an absolute length), word-spacing:normal (0), bleed:auto (6pt with crop marks, else 0); letter-spacing:normal and vertical-align:sub/super are not asserted; identifiers that are no keyword but that the validator accepts (counted as validator-accepts-any-identifier) are left out",
		},
		BudgetS: map[string]float64{"quick": 100, "thorough": 600}[tier],
	}
}

func (c *check) textCtx(eng string) *textCtx {
	if t := c.tcs[eng]; t != nil {
		return t
	}
	t := &textCtx{fonts: newFontConfig(eng)}
	c.tcs[eng] = t
	return t
}

// ---- acceptance through the validator ----------------------------------------------------

// accepted reports whether `name: value` yields exactly one declaration of that very property
// with a validated (non pending, non keyword) value.
func accepted(p *propInfo, value string) bool { return validated(p, value) != nil }

// validated returns the validated value of `name: value` (nil when it is not accepted as one
// declaration of that very property).
func validated(p *propInfo, value string) (v pr.CssProperty) {
	defer func() {
		if recover() != nil {
			v = nil
		}
	}()
	decls := validation.PreprocessDeclarations("", pa.ParseBlocksContentsString(p.name+":"+value))
	if len(decls) != 1 || decls[0].Name != p.key || decls[0].Shortand != 0 {
		return nil
	}
	switch decls[0].Value.(type) {
	case pr.RawTokens, pr.DefaultValue:
		return nil
	}
	v, _ = decls[0].Value.(pr.CssProperty)
	return v
}

func keywordDeclarable(p *propInfo) (ok bool) {
	defer func() {
		if recover() != nil {
			ok = false
		}
	}()
	decls := validation.PreprocessDeclarations("", pa.ParseBlocksContentsString(p.name+":inherit"))
	return len(decls) == 1 && decls[0].Name == p.key && decls[0].Value == pr.DeclaredValue(pr.Inherit)
}

func (c *check) search(p *propInfo) {
	if p.searched {
		return
	}
	p.searched = true
	if p.custom {
		p.declarable = true
		p.values = p.cvals
		return
	}
	p.declarable = keywordDeclarable(p)
	seen := map[string]bool{}
	for _, v := range valueMenu {
		if len(p.values) >= maxValues {
			break
		}
		if !seen[v] && accepted(p, v) {
			p.values = append(p.values, v)
		}
		seen[v] = true
	}
	if s, ok := specInitial[p.name]; ok && accepted(p, s) {
		p.initial = s
	}
	// a value that is the initial value goes last: the first value is the parent's explicit
	// value and the quick tier's element value, and must make inheritance visible
	sort.SliceStable(p.values, func(i, j int) bool { return p.values[i] != p.initial && p.values[j] == p.initial })
	for _, t := range lengthTemplates {
		if accepted(p, strings.ReplaceAll(t, "{L}", "1in")) {
			p.templates = append(p.templates, t)
		}
	}
	c.searchKeywords(p)
}

// inherited is the reference's inherited predicate: the hand-written lists, the
// implementation's table only for the properties that have no specification.
func inherited(p *propInfo) (inh bool, classified bool) {
	if p.custom {
		return true, true // CSS Variables 1 §2: custom properties are inherited
	}
	if specInherited[p.name] {
		return true, true
	}
	if specNotInherited[p.name] {
		return false, true
	}
	return pr.Inherited.Has(p.key.KnownProp), false
}

// ---- units ---------------------------------------------------------------------------------

// locate maps a unit index to its block and the index inside the block. The cheap blocks come
// first (simplest first): a run cut by its deadline loses the tail of the big product (A),
// not a whole block.
func (c *check) locate(u int64) (block byte, i int64) {
	for _, b := range []struct {
		name byte
		n    int64
	}{{'D', c.nD}, {'C', c.nC}, {'E', c.nE}, {'B', c.nB}, {'A', c.nA}} {
		if u < b.n {
			return b.name, u
		}
		u -= b.n
	}
	return 0, 0
}

func (c *check) Run(u int64, ctx *engine.Ctx) {
	if !c.haveUA {
		c.haveUA = true
		ctx.Guard("harness: empty UA sheet", func() {
			c.emptyUA, _ = tree.NewCSSDefault(utils.InputString(""))
		})
	}
	n := int64(len(c.props))
	block, i := c.locate(u)
	if block == 'D' {
		c.runSink(ctx, i == 1)
		return
	}
	p := c.props[i%n]
	c.search(p)
	switch block {
	case 'A':
		c.runDefaulting(ctx, int(i/n), p)
	case 'B':
		c.runAnonymous(ctx, p)
	case 'C':
		c.runUnits(ctx, p)
	case 'E':
		c.runBoxBuilding(ctx, p)
	}
}

func (c *check) Describe(u int64) any {
	n := int64(len(c.props))
	block, i := c.locate(u)
	if block == 'D' {
		return map[string]any{"block": "ua-sheet-document", "presentational_hints": i == 1}
	}
	p := c.props[i%n]
	c.search(p)
	switch block {
	case 'A':
		return map[string]any{"block": "defaulting", "position": posNames[i/n], "property": p.name, "explicit_values": p.values, "spec_initial": p.initial}
	case 'B':
		return map[string]any{"block": "anonymous-boxes", "property": p.name}
	case 'C':
		var kws []string
		for _, kv := range p.kwValues {
			kws = append(kws, kv.value)
		}
		return map[string]any{"block": "absolutisation", "property": p.name, "length_templates": p.templates, "keyword_and_px_values": kws}
	}
	return map[string]any{"block": "box-building", "property": p.name, "containers": containerDisplays}
}

func sanitize(s string) string {
	var sb strings.Builder
	for _, r := range s {
		switch {
		case r >= 'a' && r <= 'z', r >= 'A' && r <= 'Z', r >= '0' && r <= '9', strings.ContainsRune("-_%.#()+", r):
			sb.WriteRune(r)
		default:
			sb.WriteByte('_')
		}
	}
	return sb.String()
}

var (
	zeroDimRe  = regexp.MustCompile(`Dimension\{Value:0, Unit:0x[0-9a-f]+\}`)
	nilSliceRe = regexp.MustCompile(`\(nil\)`)
	pxUnitRe   = regexp.MustCompile(`Unit:0x7\}`)
)

// canon is the canonical (deep) form of the value of property name observed on a style
// (pseudo: pseudo-element or margin box). It is the %#v form modulo the representation
// choices of the implementation that carry no meaning (calibrations, each one triaged):
//   - a zero dimension is the same value whatever its unit (0% and 0em are computed to 0px,
//     the initial-value table stores unit-less zeros);
//   - a nil slice and an empty slice are the same list;
//   - a unit-less number is encoded with Unit 0 or with Unit Scalar;
//   - size: computed lengths are encoded in Px or as unit-less pixels;
//   - content: 'normal' is left as such by initial and computed to contents (elements) or
//     inhibit (pseudo-elements) when declared; every consumer treats them alike;
//   - string-set: none is {String:"none"} or a single entry named none without content.
func canon(name string, pseudo bool, v pr.CssProperty) string {
	if v == nil {
		return "<nil>"
	}
	switch name {
	case "content":
		if sc, ok := v.(pr.SContent); ok && len(sc.Contents) == 0 {
			switch sc.String {
			case "normal":
				if pseudo {
					v = pr.SContent{String: "inhibit"}
				} else {
					v = pr.SContent{String: "contents"}
				}
			case "none":
				v = pr.SContent{String: "inhibit"}
			}
		}
	case "string-set":
		if ss, ok := v.(pr.StringSet); ok && ss.String == "" && len(ss.Contents) == 1 && ss.Contents[0].String == "none" && len(ss.Contents[0].Contents) == 0 {
			v = pr.StringSet{String: "none"}
		}
	}
	s := fmt.Sprintf("%#v", v)
	s = zeroDimRe.ReplaceAllString(s, "Dimension{Value:0}")
	s = nilSliceRe.ReplaceAllString(s, "{}")
	s = strings.ReplaceAll(s, "Unit:0x0}", "Unit:0x1}")
	if name == "size" {
		s = pxUnitRe.ReplaceAllString(s, "Unit:0x1}")
	}
	return s
}

// fail records a failure (and logs it when C04_LOG names a file: development aid).
func (c *check) fail(ctx *engine.Ctx, f engine.Failure) {
	if path := os.Getenv("C04_LOG"); path != "" {
		if fh, err := os.OpenFile(path, os.O_APPEND|os.O_CREATE|os.O_WRONLY, 0o644); err == nil {
			fmt.Fprintf(fh, "%s\t%s\t%s\t%s\t%s\n", f.Clause, f.Site, strings.Join(f.Features, ","), f.Case, f.Detail)
			fh.Close()
		}
	}
	ctx.Fail(f)
}

// guard runs f under the engine's guard; the description carries the feature tags so that
// the master can tag a case that killed its worker (FeaturesOf).
func (c *check) guard(ctx *engine.Ctx, desc string, features []string, f func()) bool {
	desc = "feat=" + strings.Join(features, ",") + " | " + desc
	pi, skipped := ctx.Guard(desc, f)
	if skipped {
		return false
	}
	if pi != nil {
		c.fail(ctx, engine.Failure{Clause: pi.Clause, Site: pi.Site, Features: features, Case: desc, Detail: pi.Msg})
		return false
	}
	return true
}

// FeaturesOf: feature tags of a case that killed its worker (engine.Featurer).
func (c *check) FeaturesOf(desc string) []string {
	if !strings.HasPrefix(desc, "feat=") {
		return nil
	}
	desc = desc[len("feat="):]
	if i := strings.Index(desc, " | "); i >= 0 {
		desc = desc[:i]
	}
	if desc == "" {
		return nil
	}
	return strings.Split(desc, ",")
}

func prInherited(p *propInfo) bool { return pr.Inherited.Has(p.key.KnownProp) }
