package c04

import (
	"fmt"
	"strings"

	"github.com/benoitkugler/webrender/css/counters"
	pr "github.com/benoitkugler/webrender/css/properties"
	"github.com/benoitkugler/webrender/html/boxes"
	"github.com/benoitkugler/webrender/html/tree"
	"github.com/benoitkugler/webrender/images"
	"github.com/benoitkugler/webrender/utils"

	"verif/internal/engine"
)

// anonDoc is a document whose box tree contains anonymous block boxes (text next to a block,
// block in inline), line and text boxes, the anonymous row / row group / table / wrapper boxes
// around a lone table cell, anonymous flex and grid items, a list marker and the text of a
// ::before pseudo-element. Every element that encloses anonymous boxes has class k.
func anonDoc(p *propInfo, parent string, cx int) string {
	var k []string
	add := func(decl string) {
		if name := decl[:strings.Index(decl, ":")]; name != p.name && name != "float" && name != "position" && name != "display" {
			k = append(k, decl)
		}
	}
	add("font-size:30px")
	for _, d := range ctxDecls[cx] {
		add(d)
	}
	if parent != "" {
		k = append(k, p.name+":"+parent)
	}
	disp := func(d string) string {
		if p.name == "display" {
			return ""
		}
		return ` style="display:` + d + `"`
	}
	// a list item's ::marker style must exist (the UA sheet normally provides the rule)
	carrier := "z-index:auto"
	if p.name == "z-index" {
		carrier = "order:0"
	}
	rootFont := ";font-family:ahem"
	if p.name == "font-family" {
		rootFont = ""
	}
	return `<html style="font-size:10px` + rootFont + `"><head><style>.k{` + strings.Join(k, ";") + `}.bf::before{content:'z'}.k::marker{` + carrier + `}</style></head>` +
		`<body` + disp("block") + `>` +
		`<div class=k` + disp("block") + `>t<p` + disp("block") + `>b</p>u</div>` +
		`<div` + disp("block") + `><span class=k>i<p` + disp("block") + `>b</p>j</span></div>` +
		`<div class=k` + disp("block") + `><i class=k` + disp("table-cell") + `>c</i></div>` +
		`<div class=k` + disp("flex") + `>f<i>g</i></div>` +
		`<div class=k` + disp("grid") + `>h</div>` +
		`<div class=k` + disp("list-item") + `>l</div>` +
		`<div` + disp("block") + `><b class="k bf">x</b></div>` +
		`</body></html>`
}

type anonBox struct {
	kind       string
	style      pr.ElementStyle // *tree.AnonymousStyle
	encl       pr.ElementStyle // style of the nearest non-anonymous ancestor box
	enclPseudo bool
}

// buildAnon builds the box tree of src on a fresh style set and lists its anonymous boxes in
// tree order. Must be called under Guard.
func (c *check) buildAnon(src string) []anonBox {
	doc, err := tree.NewHTML(utils.InputString(src), "", nil, "")
	if err != nil {
		panic("harness: NewHTML: " + err.Error())
	}
	doc.UAStyleSheet = c.emptyUA
	tc := c.textCtx("pango")
	var rules []tree.PageRule
	col := tree.NewTargetCollector()
	cs := make(counters.CounterStyle)
	sf := tree.GetAllComputedStyles(doc, nil, false, tc.fonts, cs, &rules, &col, false, tc)
	cache := images.NewCache()
	resolver := boxes.URLResolver{Fetch: doc.UrlFetcher, FetchImage: func(url, forcedMimeType string, orientation pr.SBoolFloat) images.Image {
		return images.GetImageFromUri(cache, doc.UrlFetcher, false, url, forcedMimeType, orientation)
	}}
	var footnotes []boxes.Box
	root := boxes.BuildFormattingStructure(doc.Root, sf, resolver, "", &col, cs, &footnotes)
	var out []anonBox
	var walk func(b boxes.Box, encl pr.ElementStyle, enclPseudo bool)
	walk = func(b boxes.Box, encl pr.ElementStyle, enclPseudo bool) {
		bf := b.Box()
		if bf.PseudoType == "marker" {
			// the boxes of a ::marker pseudo-element are not CSS anonymous boxes: the box
			// builder gives them white-space, position and transform of its own (Lists 3 §3)
			return
		}
		if _, anon := bf.Style.(*tree.AnonymousStyle); anon {
			if encl != nil {
				out = append(out, anonBox{kind: strings.TrimPrefix(fmt.Sprintf("%T", b), "*boxes."), style: bf.Style, encl: encl, enclPseudo: enclPseudo})
			}
		} else {
			encl, enclPseudo = bf.Style, bf.PseudoType != ""
		}
		for _, ch := range bf.Children {
			walk(ch, encl, enclPseudo)
		}
	}
	walk(root, nil, false)
	return out
}

// initRef is the computed initial value of p on an ordinary (non-root) element.
func (c *check) initRef(ctx *engine.Ctx, p *propInfo) (string, bool) {
	key := p.name + "|initref"
	if v, ok := c.rootRef[key]; ok {
		return v, v != ""
	}
	c.rootRef[key] = ""
	if !p.declarable {
		return "", false
	}
	s := &spec{pos: posChild, p: p, state: "initial"}
	if p.custom {
		s.state = ""
	}
	src := s.html()
	var got [3]string
	pi, skipped := ctx.Guard("initial reference: "+s.String()+" doc="+src, func() { got = c.access(s, src, "pango", orders[0], depKey("font-size", p)) })
	if pi != nil || skipped {
		return "", false
	}
	c.rootRef[key] = got[0]
	return got[0], true
}

func (c *check) runAnonymous(ctx *engine.Ctx, p *propInfo) {
	if p.custom {
		// a custom property is observed through a declaration of a probe property, which an
		// anonymous box cannot carry
		ctx.Count("anon-skipped-custom-properties", 1)
		ctx.Case(false, "skipped")
		return
	}
	inh, _ := inherited(p)
	ref, haveRef := c.initRef(ctx, p)
	for cx := 0; cx < c.nctx(); cx++ {
		for par := 0; par < 2; par++ {
			parent := ""
			if par == 1 {
				if len(p.values) == 0 || !p.declarable || p.name == "display" {
					continue
				}
				parent = parentValue(p)
			}
			src := anonDoc(p, parent, cx)
			feats := func(more ...string) []string {
				f := []string{"pos:anonymous", "prop:" + p.name, "fam:" + family(p.name), "state:none", "ctx:" + ctxNames[cx]}
				if parent != "" {
					f = append(f, "parent:explicit", "val:"+sanitize(parent))
				} else {
					f = append(f, "parent:none")
				}
				return append(f, more...)
			}
			base := fmt.Sprintf("pos=anonymous prop=%s parent=%s ctx=%s", p.name, parent, ctxNames[cx])
			type obs struct{ e, o, q string }
			var refObs []obs
			var kinds []string
			compared := false
			for di, dep := range c.deps() {
				q := depKey(dep, p)
				for oi, ord := range orders {
					var got []obs
					desc := fmt.Sprintf("%s order=%s dep=%s doc=%s", base, orderName(ord), dep, src)
					f := feats("order:"+orderName(ord), "dep:"+dep)
					ok := c.guard(ctx, desc, f, func() {
						bs := c.buildAnon(src)
						kinds = kinds[:0]
						for _, b := range bs {
							var o obs
							for _, i := range ord {
								switch i {
								case 0:
									o.e = canon(p.obsName(), false, getp(b.style, p, false))
								case 1:
									o.o = canon(p.obsName(), b.enclPseudo, getp(b.encl, p, false))
								case 2:
									o.q = canon(q.String(), false, b.style.Get(q))
								}
							}
							got = append(got, o)
							kinds = append(kinds, b.kind)
						}
					})
					ctx.Trans(1)
					if !ok {
						if di == 0 && oi == 0 {
							break
						}
						continue
					}
					if di == 0 && oi == 0 {
						refObs = got
						for i, o := range got {
							ctx.Count("anon-kind:"+kinds[i], 1)
							bf := append(f[:len(f):len(f)], "box:"+kinds[i])
							cs := fmt.Sprintf("%s box#%d(%s) doc=%s", base, i, kinds[i], src)
							if o.e == "<nil>" {
								c.fail(ctx, engine.Failure{Clause: "R1-total", Features: bf, Case: cs, Detail: "Get returned nil on an anonymous box"})
							}
							switch {
							case inh:
								compared = true
								ctx.Count("reach:R2-anon-inherited", 1)
								if o.e != o.o {
									c.fail(ctx, engine.Failure{Clause: "R2-anon-inherited", Features: bf, Case: cs,
										Detail: fmt.Sprintf("anonymous box has %s, its enclosing non-anonymous box has %s", o.e, o.o)})
								}
							case haveRef && p.name != "page" && family(p.name) != "bleed":
								compared = true
								ctx.Count("reach:R2-anon-initial", 1)
								if o.e != ref {
									c.fail(ctx, engine.Failure{Clause: "R2-anon-initial", Features: bf, Case: cs,
										Detail: fmt.Sprintf("anonymous box has %s, the initial value computes to %s", o.e, ref)})
								}
							}
						}
						continue
					}
					if len(got) != len(refObs) {
						c.fail(ctx, engine.Failure{Clause: "harness", Features: f, Case: desc, Detail: "box tree changed between two builds of the same document"})
						continue
					}
					for i := range got {
						if got[i].e != refObs[i].e || got[i].o != refObs[i].o {
							c.fail(ctx, engine.Failure{Clause: "R5-order", Features: append(f[:len(f):len(f)], "box:"+kinds[i]), Case: desc,
								Detail: fmt.Sprintf("box#%d(%s): order abc gave box=%s enclosing=%s; this order gave box=%s enclosing=%s", i, kinds[i], refObs[i].e, refObs[i].o, got[i].e, got[i].o)})
							break
						}
					}
				}
				if refObs == nil {
					break
				}
			}
			out := "panic"
			if refObs != nil {
				var sb strings.Builder
				for _, o := range refObs {
					sb.WriteString(o.e + ";")
				}
				out = sb.String()
			}
			ctx.Case(compared, out)
		}
	}
}
