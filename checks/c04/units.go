package c04

import (
	"fmt"
	"math"
	"reflect"
	"regexp"
	"strconv"
	"strings"

	pr "github.com/benoitkugler/webrender/css/properties"

	"verif/internal/engine"
)

// approxEq is deep equality with a relative tolerance of 1e-5 on floats (float32 arithmetic:
// 2.54cm * (96/2.54) is not exactly 96).
func approxEq(a, b reflect.Value, foldPx bool) bool {
	if a.IsValid() != b.IsValid() {
		return false
	}
	if !a.IsValid() {
		return true
	}
	if a.Type() != b.Type() {
		return false
	}
	switch a.Kind() {
	case reflect.Float32, reflect.Float64:
		x, y := a.Float(), b.Float()
		if x == y {
			return true
		}
		return math.Abs(x-y) <= 1e-5*math.Max(math.Abs(x), math.Abs(y))+1e-9
	case reflect.Interface, reflect.Ptr:
		if a.IsNil() || b.IsNil() {
			return a.IsNil() == b.IsNil()
		}
		return approxEq(a.Elem(), b.Elem(), foldPx)
	case reflect.Struct:
		if foldPx && a.Type() == dimensionType {
			// (no Interface(): the value may come from an unexported field)
			dim := func(v reflect.Value) pr.Dimension {
				return pr.Dimension{Value: pr.Float(v.FieldByName("Value").Float()), Unit: pr.Unit(v.FieldByName("Unit").Uint())}
			}
			x, y := dim(a), dim(b)
			return foldUnit(x) == foldUnit(y) && approxEq(reflect.ValueOf(x.Value), reflect.ValueOf(y.Value), false)
		}
		for i := 0; i < a.NumField(); i++ {
			if !approxEq(a.Field(i), b.Field(i), foldPx) {
				return false
			}
		}
		return true
	case reflect.Slice, reflect.Array:
		if a.Len() != b.Len() {
			return false
		}
		for i := 0; i < a.Len(); i++ {
			if !approxEq(a.Index(i), b.Index(i), foldPx) {
				return false
			}
		}
		return true
	case reflect.Map:
		if a.Len() != b.Len() {
			return false
		}
		for _, k := range a.MapKeys() {
			if !approxEq(a.MapIndex(k), b.MapIndex(k), foldPx) {
				return false
			}
		}
		return true
	case reflect.String:
		return a.String() == b.String()
	case reflect.Bool:
		return a.Bool() == b.Bool()
	case reflect.Int, reflect.Int8, reflect.Int16, reflect.Int32, reflect.Int64:
		return a.Int() == b.Int()
	case reflect.Uint, reflect.Uint8, reflect.Uint16, reflect.Uint32, reflect.Uint64:
		return a.Uint() == b.Uint()
	}
	return reflect.DeepEqual(a.Interface(), b.Interface())
}

func approx(a, b pr.CssProperty) bool {
	return approxEq(reflect.ValueOf(a), reflect.ValueOf(b), false)
}

// approxPx is approx modulo the two encodings of an absolute pixel length (Unit Px, or a
// unit-less number read as pixels: vertical-align, letter-spacing, size) and of zero.
func approxPx(a, b pr.CssProperty) bool {
	return approxEq(reflect.ValueOf(a), reflect.ValueOf(b), true)
}

var dimensionType = reflect.TypeOf(pr.Dimension{})

func foldUnit(d pr.Dimension) pr.Unit {
	if d.Unit == pr.Px || d.Unit == 0 || d.Value == 0 {
		return pr.Scalar
	}
	return d.Unit
}

// value computes a fresh style set and returns p on the element of the position.
func (c *check) value(s *spec, src, eng string) pr.CssProperty {
	ss := c.newStyles(src, eng, needsPage(s.pos))
	el := ss.level(posLevel[s.pos][0])
	if el == nil {
		panic("harness: no style for position " + posNames[s.pos])
	}
	return getp(el, s.p, false)
}

// absolute units: 1in = 96px = 72pt = 6pc = 2.54cm = 25.4mm = 101.6q
var absUnits = []string{"96px", "72pt", "6pc", "2.54cm", "25.4mm", "101.6q"}

// refFontSize is the reference's computed font size (px) of a level of the document of s:
// the nearest declared pixel size on the inheritance chain, 16px (medium) at the top.
// Only pixel font sizes are declared by the generator, except for the value under test.
func refFontSize(s *spec, level int) float64 {
	d := s.decls()
	for l := level; l >= 0; l = parentLevel[l] {
		fs := math.NaN()
		for _, decl := range d[l] {
			if strings.HasPrefix(decl, "font-size:") && strings.HasSuffix(decl, "px") {
				if v, err := strconv.ParseFloat(decl[len("font-size:"):len(decl)-2], 64); err == nil {
					fs = v
				}
			}
		}
		if !math.IsNaN(fs) {
			return fs
		}
	}
	return 16
}

func (c *check) runUnits(ctx *engine.Ctx, p *propInfo) {
	if len(p.templates) == 0 {
		ctx.Case(false, "no-length")
		return
	}
	ctx.Count("length_properties", 1)
	engines := []string{"pango"}
	nctx := 1
	if c.thorough {
		engines = append(engines, "gotext")
		nctx = 2
	}
	c.runKeywords(ctx, p, engines)
	if strings.HasSuffix(p.name, "-width") && kwZeroWithoutStyle(p) {
		// a border, outline or column-rule width computes to 0 without a style: the plain
		// context alone would compare 0 with 0
		nctx = 2
	}
	isFS := p.name == "font-size"
	broken := map[string]bool{} // units whose evaluation crashed: not repeated at every position
	for _, tmpl := range p.templates {
		emFailed := false
		for _, eng := range engines {
			for cx := 0; cx < nctx; cx++ {
				for pos := 0; pos < nPos; pos++ {
					// rootPseudo: the pseudo-elements of the root carry a font size of their own
					// (only the font-relative units are evaluated a second time)
					rootPseudo := false
					mk := func(l string) *spec {
						s := &spec{pos: pos, p: p, state: strings.ReplaceAll(tmpl, "{L}", l), ctx: cx, rootPseudo: rootPseudo}
						if isFS && pos != posRoot {
							s.parent = "20px"
						}
						return s
					}
					feats := func(unit string) []string {
						f := []string{"pos:" + posNames[pos], "prop:" + p.name, "fam:" + family(p.name), "ctx:" + ctxNames[cx], "engine:" + eng,
							"unit:" + unit, "tmpl:" + sanitize(tmpl)}
						if rootPseudo {
							f = append(f, "rootpseudo:foreign")
						}
						return f
					}
					eval := func(l, unit string) (pr.CssProperty, *spec, bool) {
						s := mk(l)
						src := s.html()
						var v pr.CssProperty
						desc := fmt.Sprintf("units %s engine=%s doc=%s", s.String(), eng, src)
						ok := c.guard(ctx, desc, feats(unit), func() { v = c.value(s, src, eng) })
						ctx.Trans(1)
						return v, s, ok
					}
					cmp := func(unit, l, pxl string, clause string) {
						if broken[unit] {
							return
						}
						got, s, ok := eval(l, unit)
						if !ok {
							broken[unit] = true
							ctx.Case(true, "panic")
							return
						}
						want, _, ok2 := eval(pxl, "px")
						if !ok2 {
							ctx.Case(true, "panic")
							return
						}
						ctx.Count("reach:"+clause+":"+unit, 1)
						ctx.Case(true, canon(p.name, false, got))
						if !approx(got, want) {
							if unit == "em" {
								emFailed = true
							}
							c.fail(ctx, engine.Failure{Clause: clause, Features: feats(unit), Case: "units " + s.String() + " engine=" + eng + " doc=" + s.html(),
								Detail: fmt.Sprintf("%s:%s computes to %s; expected the computed value of %s:%s = %s", p.name, s.state, canon(p.name, false, got), p.name, strings.ReplaceAll(tmpl, "{L}", pxl), canon(p.name, false, want))})
						}
					}
					// absolute units
					for _, u := range absUnits {
						cmp(strings.TrimLeft(u, "0123456789."), u, "1in", "R6-absolute")
					}
					// font-relative units: the reference font size is known from the declarations
					s0 := mk("1px")
					el := posLevel[pos][0]
					F := refFontSize(s0, el)
					if isFS {
						// on font-size itself em/ex/ch/% refer to the parent's font size
						if pos == posRoot {
							F = 16
						} else {
							F = refFontSize(s0, parentLevel[el])
						}
					}
					R := refFontSize(s0, lvHTML)
					if isFS && pos == posRoot {
						R = 16 // rem on the root's font-size refers to the initial value
					}
					px := func(x float64) string { return fmt.Sprintf("%gpx", x) }
					for _, rootPseudo = range []bool{false, true} {
						cmp("em", "2em", px(2*F), "R6-font-relative")
						cmp("rem", "2rem", px(2*R), "R6-font-relative")
						cmp("ex", "5ex", px(5*0.8*F), "R6-font-relative") // Ahem: x-height 0.8em
						cmp("ch", "3ch", px(3*F), "R6-font-relative")     // Ahem: advance of 0 is 1em
						if isFS && tmpl == "{L}" {
							cmp("%", "150%", px(1.5*F), "R6-font-relative")
						}
					}
				}
			}
		}
		// the sharing clause is evaluated only when each element alone gets its em right
		if !emFailed && !broken["em"] {
			c.sharedRule(ctx, p, tmpl)
		}
		if tmpl == p.templates[0] && !emFailed && len(broken) == 0 {
			c.mixedUnits(ctx, p, tmpl)
		}
	}
}

// font-relative units of the mixed documents: unit -> (declared length, factor of the font size
// in px; rem: of the root's 10px). Ahem: ex = 0.8em, ch = 1em.
var mixedUnitList = []struct {
	unit, length string
	factor       float64
}{{"em", "2em", 2}, {"ex", "5ex", 4}, {"ch", "3ch", 3}, {"rem", "2rem", 2}}

// mixedUnits: two users of the document-wide caches (the ex/ch ratio cache is shared by all
// the styles of a document and keyed by font). Every ordered pair of font-relative units on two
// sibling elements, on a parent and its child, and on two properties of one element, all with
// the same font, read in both orders; each value is compared with its own pixel reference.
func (c *check) mixedUnits(ctx *engine.Ctx, p *propInfo, tmpl string) {
	if p.name == "font-size" {
		return // the font sizes of the skeleton are the references
	}
	partner := &propInfo{name: "width", key: pr.PWidth.Key()}
	if p.name == "width" {
		partner = &propInfo{name: "height", key: pr.PHeight.Key()}
	}
	type arrangement struct {
		name   string
		f1, f2 float64 // font sizes of the two users
	}
	arrs := []arrangement{{"siblings", 30, 40}, {"parent-child", 30, 40}, {"same-element", 30, 30}}
	doc := func(arr string, v1, v2 string) string {
		d1, d2 := p.name+":"+strings.ReplaceAll(tmpl, "{L}", v1), p.name+":"+strings.ReplaceAll(tmpl, "{L}", v2)
		head := `<html style="font-family:ahem;font-size:10px"><body style="font-size:20px">`
		switch arr {
		case "siblings":
			return head + `<div style="font-size:30px;` + d1 + `">a</div><section style="font-size:40px;` + d2 + `">b</section></body></html>`
		case "parent-child":
			return head + `<div style="font-size:30px;` + d1 + `"><p style="font-size:40px;` + d2 + `">c</p></div></body></html>`
		}
		return head + `<div style="font-size:30px;` + d1 + `;` + partner.name + `:` + v2 + `">a</div></body></html>`
	}
	read := func(arr, src string, secondFirst bool, feats []string, desc string) (v1, v2 pr.CssProperty, ok bool) {
		ok = c.guard(ctx, desc, feats, func() {
			ss := c.newStyles(src, "pango", false)
			s1 := ss.sf.Get(ss.nodes["div"], "")
			s2, p2 := s1, partner
			switch arr {
			case "siblings":
				s2, p2 = ss.sf.Get(ss.nodes["section"], ""), p
			case "parent-child":
				s2, p2 = ss.sf.Get(ss.nodes["p"], ""), p
			}
			if secondFirst {
				v2 = s2.Get(p2.key)
				v1 = s1.Get(p.key)
			} else {
				v1 = s1.Get(p.key)
				v2 = s2.Get(p2.key)
			}
		})
		ctx.Trans(1)
		return
	}
	px := func(factor, f float64, unit string) string {
		if unit == "rem" {
			f = 10
		}
		return fmt.Sprintf("%gpx", factor*f)
	}
	for _, arr := range arrs {
		for _, u1 := range mixedUnitList {
			for _, u2 := range mixedUnitList {
				base := []string{"pos:mixed-units", "prop:" + p.name, "fam:" + family(p.name), "arr:" + arr.name, "units:" + u1.unit + "+" + u2.unit, "tmpl:" + sanitize(tmpl)}
				refSrc := doc(arr.name, px(u1.factor, arr.f1, u1.unit), px(u2.factor, arr.f2, u2.unit))
				w1, w2, ok := read(arr.name, refSrc, false, append(base[:len(base):len(base)], "order:reference"), "mixed-units reference prop="+p.name+" doc="+refSrc)
				if !ok {
					ctx.Case(false, "panic")
					continue
				}
				src := doc(arr.name, u1.length, u2.length)
				for _, secondFirst := range []bool{false, true} {
					order := map[bool]string{false: "first-then-second", true: "second-then-first"}[secondFirst]
					feats := append(base[:len(base):len(base)], "order:"+order)
					cs := "mixed-units prop=" + p.name + " arr=" + arr.name + " order=" + order + " doc=" + src
					g1, g2, ok := read(arr.name, src, secondFirst, feats, cs)
					if !ok {
						ctx.Case(true, "panic")
						continue
					}
					ctx.Count("reach:R6-mixed-units", 1)
					ctx.Case(true, canon(p.name, false, g1)+canon(p.name, false, g2))
					if !approx(g1, w1) || !approx(g2, w2) {
						c.fail(ctx, engine.Failure{Clause: "R6-mixed-units", Features: feats, Case: cs,
							Detail: fmt.Sprintf("first user (%s, font-size %gpx) has %s, expected %s; second user (%s, font-size %gpx) has %s, expected %s",
								u1.length, arr.f1, canon(p.name, false, g1), canon(p.name, false, w1), u2.length, arr.f2, canon(p.name, false, g2), canon(p.name, false, w2))})
					}
				}
			}
		}
	}
}

// sharedRule: one rule with a font-relative length matched by two elements with different
// font sizes; each must get its own absolute value, whichever is computed first.
func (c *check) sharedRule(ctx *engine.Ctx, p *propInfo, tmpl string) {
	val := strings.ReplaceAll(tmpl, "{L}", "2em")
	doc := func(divDecl, pDecl, rule string) string {
		return `<html style="font-family:ahem;font-size:10px"><head><style>` + rule + `</style></head><body style="font-size:20px"><div style="` + divDecl + `"><p style="` + pDecl + `">x</p></div></body></html>`
	}
	var shared string
	var wantDiv, wantP float64
	if p.name == "font-size" {
		shared = doc("", "", "div,p{font-size:"+val+"}")
		wantDiv, wantP = 40, 80
	} else {
		shared = doc("font-size:30px", "font-size:40px", "div,p{"+p.name+":"+val+"}")
		wantDiv, wantP = 60, 80
	}
	single := func(divPx, pPx float64) string {
		dv := p.name + ":" + strings.ReplaceAll(tmpl, "{L}", fmt.Sprintf("%gpx", divPx))
		pv := p.name + ":" + strings.ReplaceAll(tmpl, "{L}", fmt.Sprintf("%gpx", pPx))
		if p.name == "font-size" {
			return doc(dv, pv, "")
		}
		return doc("font-size:30px;"+dv, "font-size:40px;"+pv, "")
	}
	feats := func(order string) []string {
		return []string{"pos:shared-rule", "prop:" + p.name, "fam:" + family(p.name), "unit:em", "tmpl:" + sanitize(tmpl), "order:" + order}
	}
	get := func(src string, pFirst bool, order string) (dv, pv pr.CssProperty, ok bool) {
		ok = c.guard(ctx, "shared-rule prop="+p.name+" order="+order+" doc="+src, feats(order), func() {
			ss := c.newStyles(src, "pango", false)
			if pFirst {
				pv = getp(ss.level(lvP), p, false)
				dv = getp(ss.level(lvDiv), p, false)
			} else {
				dv = getp(ss.level(lvDiv), p, false)
				pv = getp(ss.level(lvP), p, false)
			}
		})
		ctx.Trans(1)
		return
	}
	wd, wp, ok := get(single(wantDiv, wantP), false, "reference")
	if !ok {
		ctx.Case(false, "panic")
		return
	}
	for _, pFirst := range []bool{false, true} {
		order := map[bool]string{false: "div-first", true: "p-first"}[pFirst]
		gd, gp, ok := get(shared, pFirst, order)
		if !ok {
			ctx.Case(true, "panic")
			continue
		}
		ctx.Count("reach:R6-shared-rule", 1)
		ctx.Case(true, canon(p.name, false, gd)+canon(p.name, false, gp))
		if !approx(gd, wd) || !approx(gp, wp) {
			c.fail(ctx, engine.Failure{Clause: "R6-shared-rule", Features: feats(order), Case: "shared-rule prop=" + p.name + " order=" + order + " doc=" + shared,
				Detail: fmt.Sprintf("div (font-size %gpx) has %s, expected %s; p (font-size %gpx) has %s, expected %s", wantDiv/2, canon(p.name, false, gd), canon(p.name, false, wd), wantP/2, canon(p.name, false, gp), canon(p.name, false, wp))})
		}
	}
}

// ---- keywords of the length-valued properties ------------------------------------------------

// lengthKeywords is the menu of the keyword alternatives of the length-valued properties, from
// their definition tables (CSS 2.1, Sizing 3, Flexbox 1, Grid 2, Backgrounds 3, Fonts 4, Text 3,
// Inline 3, Page 3, GCPM 3, Multicol 1, Align 3, Transforms 1): one symbol per keyword that can
// stand where a <length> can. The computer functions tell keywords from lengths by comparing
// strings (length_: auto, content; pixelLength, gap, wordSpacing: normal; verticalAlign; bleed;
// borderWidth; fontSize; size ...), one branch per keyword.
var lengthKeywords = []string{
	"auto", "none", "normal", "content", "min-content", "max-content", "fit-content", "stretch", "contain", "cover",
	"thin", "medium", "thick",
	"xx-small", "x-small", "small", "large", "x-large", "xx-large", "xxx-large", "larger", "smaller",
	"baseline", "sub", "super", "text-top", "text-bottom", "middle", "top", "bottom", "left", "right", "center",
	"subgrid", "auto-fill", "auto-fit",
	"a5", "a4", "a3", "b5", "b4", "jis-b5", "jis-b4", "letter", "legal", "ledger", "landscape", "portrait",
}

// searchKeywords fills p.kwValues for a length-valued property: every keyword of the menu the
// validator accepts alone, the pixel length alone, and for the templates with several slots the
// keyword in the first / in the last slot next to pixel lengths. A validator that accepts an
// identifier that is no keyword (bleed-*, tab-size, transform-origin take any identifier for a
// zero length; that is the validator's business, not this property's) is counted, and such
// "keywords" are left out: a keyword counts only when it validates to something else.
func (c *check) searchKeywords(p *propInfo) {
	if len(p.templates) == 0 || p.custom {
		return
	}
	bogus := validated(p, "c04-no-such-keyword")
	p.anyIdent = bogus != nil
	seen := map[string]bool{}
	add := func(value, kw, tmpl string) {
		if seen[value] {
			return
		}
		seen[value] = true
		v := validated(p, value)
		if v == nil || (kw != "" && bogus != nil && canon(p.name, false, v) == canon(p.name, false, bogus)) {
			return
		}
		p.kwValues = append(p.kwValues, kwValue{value: value, keyword: kw, tmpl: tmpl, decl: v})
	}
	for _, t := range p.templates {
		add(strings.ReplaceAll(t, "{L}", "96px"), "", t)
	}
	for _, kw := range lengthKeywords {
		add(kw, kw, "{L}")
		for _, t := range p.templates {
			if n := strings.Count(t, "{L}"); n >= 2 {
				first := strings.Replace(t, "{L}", kw, 1)
				add(strings.ReplaceAll(first, "{L}", "96px"), kw, t)
				i := strings.LastIndex(t, "{L}")
				last := t[:i] + kw + t[i+len("{L}"):]
				add(strings.ReplaceAll(last, "{L}", "96px"), kw, t)
			}
		}
	}
}

// kwExpect is the reference for a value made of keywords and pixel lengths only. Such a value
// has nothing relative in it: its computed value is the value as specified ("as specified, with
// lengths made absolute" in every definition table), except where the definition table says
// otherwise; those exceptions are listed here with their source.
//
//	same    the computed value is the validated declared value
//	zero    0px
//	length  an absolute length in px (the specification leaves the number to the user agent)
//	free    nothing is demanded
type kwRule int

const (
	kwSame kwRule = iota
	kwZero
	kwLength
	kwFree
)

// kwZeroWithoutStyle: p is a width that computes to 0 when its style is none or hidden.
func kwZeroWithoutStyle(p *propInfo) bool {
	switch family(p.name) {
	case "border-width", "outline", "column-rule":
		return strings.HasSuffix(p.name, "-width")
	}
	return false
}

func borderStyleOf(name string, cx int) string {
	// the border style the context declares next to the width (ctxDecls)
	want := strings.TrimSuffix(name, "-width") + "-style:"
	for _, d := range ctxDecls[cx] {
		if strings.HasPrefix(d, want) {
			return d[len(want):]
		}
	}
	return "none"
}

func kwExpect(p *propInfo, kv kwValue, cx int) (rule kwRule, px float64) {
	switch family(p.name) {
	case "border-width", "outline", "column-rule":
		if kwZeroWithoutStyle(p) {
			// Backgrounds 3 §3.3, UI 4 §3.2, Multicol 1 §4.4: absolute length; 0 if the style is none or hidden
			if st := borderStyleOf(p.name, cx); st == "none" || st == "hidden" {
				return kwZero, 0
			}
			if kv.keyword != "" {
				return kwLength, 0 // thin, medium, thick
			}
		}
	case "bleed":
		if kv.keyword == "auto" {
			// GCPM 3 / Page 3 §7.3: auto computes to 6pt if marks has crop, to zero otherwise
			for _, d := range ctxDecls[cx] {
				if d == "marks:crop" {
					return kwLength, 8
				}
			}
			return kwZero, 0
		}
	}
	switch p.name {
	case "font-size":
		if kv.keyword != "" {
			return kwLength, 0 // Fonts 4 §2.5: absolute length
		}
	case "word-spacing":
		if kv.keyword == "normal" {
			return kwZero, 0 // Text 3 §8.1: computed value: an absolute length (normal = 0)
		}
	case "letter-spacing":
		if kv.keyword == "normal" {
			return kwFree, 0 // CSS 2.1: 'normal' or absolute length; Text 3: an absolute length
		}
	case "vertical-align":
		if kv.keyword == "sub" || kv.keyword == "super" {
			// CSS 2.1 says as specified; the implementation stores the shift it will use
			// (±0.5em). The keyword is gone but nothing of the statement depends on it.
			return kwFree, 0
		}
	}
	return kwSame, 0
}

// refPxPerUnit: the fixed ratios of the statement (1in = 96px = 72pt = 6pc = 2.54cm = 25.4mm = 101.6q).
var refPxPerUnit = map[pr.Unit]float64{pr.In: 96, pr.Pt: 96.0 / 72, pr.Pc: 96.0 / 6, pr.Cm: 96 / 2.54, pr.Mm: 96 / 25.4, pr.Q: 96 / 101.6}

// kwReference is the computed value of a validated value without relative parts: the value
// itself, modulo two normalisations of the computed form (calibrations):
//   - size: the page-size keywords (a4, letter ...) are validated as a pair of lengths in their
//     natural absolute unit (mm, in); the computed value has them in px;
//   - border-image-outset / border-image-width: one to three values are expanded to the four
//     sides (top, right, bottom, left) as Backgrounds 3 §6.3 prescribes.
func kwReference(p *propInfo, decl pr.CssProperty) pr.CssProperty {
	switch v := decl.(type) {
	case pr.Point:
		if p.name == "size" {
			for i, d := range v {
				if f, ok := refPxPerUnit[d.Unit]; ok {
					v[i] = pr.Dimension{Value: pr.Float(float64(d.Value) * f), Unit: pr.Px}
				}
			}
			return v
		}
	case pr.Values:
		if p.name == "border-image-outset" || p.name == "border-image-width" {
			switch len(v) {
			case 1:
				return pr.Values{v[0], v[0], v[0], v[0]}
			case 2:
				return pr.Values{v[0], v[1], v[0], v[1]}
			case 3:
				return pr.Values{v[0], v[1], v[2], v[1]}
			}
		}
	}
	return decl
}

// pxOf: the value is one absolute pixel length (and nothing else).
func pxOf(v pr.CssProperty) (float64, bool) {
	if d, ok := v.(pr.DimOrS); ok && d.S == "" && (d.Unit == pr.Px || d.Unit == pr.Scalar || (d.Unit == 0 && d.Value == 0)) {
		return float64(d.Value), true
	}
	return 0, false
}

// runKeywords: block C, the part of the value space that is not a relative length. Every
// value of p.kwValues × position × context × engine; clause R6-keyword.
func (c *check) runKeywords(ctx *engine.Ctx, p *propInfo, engines []string) {
	if p.anyIdent {
		ctx.Count("validator-accepts-any-identifier", 1)
		ctx.Count("validator-accepts-any-identifier:"+p.name, 1)
	}
	for _, kv := range p.kwValues {
		if kv.keyword != "" {
			ctx.Count("length_keywords", 1)
		}
		for _, eng := range engines {
			for cx := 0; cx < c.nctx(); cx++ {
				rule, wantPx := kwExpect(p, kv, cx)
				for pos := 0; pos < nPos; pos++ {
					s := &spec{pos: pos, p: p, state: kv.value, ctx: cx}
					if p.name == "font-size" && pos != posRoot {
						s.parent = "20px"
					}
					unit := "px"
					if kv.keyword != "" {
						unit = "keyword"
					}
					feats := []string{"pos:" + posNames[pos], "prop:" + p.name, "fam:" + family(p.name), "ctx:" + ctxNames[cx], "engine:" + eng,
						"unit:" + unit, "tmpl:" + sanitize(kv.tmpl)}
					if kv.keyword != "" {
						feats = append(feats, "kw:"+kv.keyword)
					}
					src := s.html()
					var got pr.CssProperty
					desc := fmt.Sprintf("keyword %s engine=%s doc=%s", s.String(), eng, src)
					ok := c.guard(ctx, desc, feats, func() { got = c.value(s, src, eng) })
					ctx.Trans(1)
					if !ok {
						ctx.Case(true, "panic")
						continue
					}
					g := canon(p.name, false, got)
					ctx.Case(rule != kwFree, g)
					bad, want := false, ""
					switch rule {
					case kwSame:
						ctx.Count("reach:R6-keyword:as-specified", 1)
						ref := kwReference(p, kv.decl)
						want = canon(p.name, false, ref)
						bad = !approxPx(got, ref) && sameLength(g) != sameLength(want)
					case kwZero:
						ctx.Count("reach:R6-keyword:zero", 1)
						want = "0px"
						x, isPx := pxOf(got)
						bad = !isPx || x != 0
					case kwLength:
						ctx.Count("reach:R6-keyword:absolute-length", 1)
						want = "an absolute length in px"
						x, isPx := pxOf(got)
						bad = !isPx || x <= 0
						if wantPx != 0 {
							want = fmt.Sprintf("%gpx", wantPx)
							bad = !isPx || math.Abs(x-wantPx) > 1e-4
						}
					}
					if bad {
						c.fail(ctx, engine.Failure{Clause: "R6-keyword", Features: feats, Case: desc,
							Detail: fmt.Sprintf("%s:%s (validated as %s) computes to %s; expected %s", p.name, kv.value, canon(p.name, false, kv.decl), g, want)})
					}
				}
			}
		}
	}
}

var scalarUnitRe = regexp.MustCompile(`Unit:0x1\}`)

// sameLength folds the two encodings of an absolute pixel length (Unit Px, or a unit-less
// number read as pixels: vertical-align, letter-spacing, size) in a canonical form.
func sameLength(canonical string) string {
	return scalarUnitRe.ReplaceAllString(pxUnitRe.ReplaceAllString(canonical, "Unit:px}"), "Unit:px}")
}
