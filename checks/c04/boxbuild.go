package c04

import (
	"fmt"
	"sort"
	"strings"

	"github.com/benoitkugler/webrender/css/counters"
	pr "github.com/benoitkugler/webrender/css/properties"
	"github.com/benoitkugler/webrender/html/boxes"
	"github.com/benoitkugler/webrender/html/tree"
	"github.com/benoitkugler/webrender/images"
	"github.com/benoitkugler/webrender/utils"

	"verif/internal/engine"
)

// Block E: box building (boxes.BuildFormattingStructure) wraps, copies and rewrites styles:
// tables get a wrapper box to which some properties are moved, flex and grid containers wrap
// their text, list items get markers. The element styles are the ones the children inherit
// from, lazily; so (1) reading every property of every element before and after box building
// must give deep-equal values, (2) a style first read AFTER box building must have the values
// it has when read before, and (3) a child declaring `inherit` has the parent's computed value.

// containers whose boxes are wrapped, copied or completed by the box builder
var containerDisplays = []string{"table", "inline-table", "flex", "inline-flex", "grid", "list-item", "block", "inline-block", "table-cell"}

// tableWrapperProps reads pr.TableWrapperBoxProperties as data (the properties the box builder
// moves from the table box to its wrapper).
func tableWrapperProp(p *propInfo) (is bool) {
	defer func() { recover() }()
	return !p.custom && pr.TableWrapperBoxProperties.Has(p.key.KnownProp)
}

// boxDoc: a container with an explicit value of p and children of every kind that declare
// `inherit`: a block child, a caption, a row (and its cell), the ::before pseudo-element.
func boxDoc(p *propInfo, display, parent string, inherit bool) string {
	pd, cd := "", ""
	if parent != "" {
		pd = ";" + p.name + ":" + parent
	}
	if inherit {
		cd = ";" + p.name + ":inherit"
	}
	disp := func(d string) string {
		if p.name == "display" {
			return "order:0" // the display of the skeleton is what makes the boxes: not under test here
		}
		return "display:" + d
	}
	// (the UA sheet's ::marker rule is kept: a list item without marker style crashes the builder)
	carrier := "content:'z'"
	if p.name == "content" {
		carrier = "z-index:auto"
	}
	return `<html style="font-family:ahem;font-size:10px"><head style="display:none"><style>#par::before{` + carrier + cd + `}::marker{unicode-bidi:isolate}</style></head>` +
		`<body style="` + disp("block") + `"><div id="par" style="` + disp(display) + `;font-size:20px` + pd + `">` +
		`<p id="kid" style="` + disp("block") + cd + `">k</p>` +
		`<em id="cap" style="` + disp("table-caption") + cd + `">c</em>` +
		`<i id="row" style="` + disp("table-row") + cd + `"><b id="cell" style="` + disp("table-cell") + cd + `">d</b></i>t</div>` +
		`<div id="sib" style="` + disp("block") + `">s</div></body></html>`
}

type boxElem struct {
	name   string
	id     string // element id ("" = html / body by tag)
	pseudo string
}

var boxElems = []boxElem{{"html", "", ""}, {"body", "", ""}, {"par", "par", ""}, {"par::before", "par", "before"}, {"kid", "kid", ""},
	{"cap", "cap", ""}, {"row", "row", ""}, {"cell", "cell", ""}, {"sib", "sib", ""}}

type boxRun struct {
	doc *tree.HTML
	sf  *tree.StyleFor
	col tree.TargetCollector
	cs  counters.CounterStyle
	ids map[string]*utils.HTMLNode
}

func (c *check) newBoxRun(src string) *boxRun {
	doc, err := tree.NewHTML(utils.InputString(src), "", nil, "")
	if err != nil {
		panic("harness: NewHTML: " + err.Error())
	}
	doc.UAStyleSheet = c.emptyUA
	tc := c.textCtx("pango")
	r := &boxRun{doc: doc, col: tree.NewTargetCollector(), cs: make(counters.CounterStyle), ids: map[string]*utils.HTMLNode{}}
	var rules []tree.PageRule
	r.sf = tree.GetAllComputedStyles(doc, nil, false, tc.fonts, r.cs, &rules, &r.col, false, tc)
	it := doc.Root.Iter()
	for it.HasNext() {
		e := it.Next()
		if id := e.Get("id"); id != "" {
			r.ids[id] = e
		} else if e.Data == "html" || e.Data == "body" {
			r.ids[e.Data] = e
		}
	}
	return r
}

func (r *boxRun) build() {
	cache := images.NewCache()
	resolver := boxes.URLResolver{Fetch: r.doc.UrlFetcher, FetchImage: func(url, forcedMimeType string, orientation pr.SBoolFloat) images.Image {
		return images.GetImageFromUri(cache, r.doc.UrlFetcher, false, url, forcedMimeType, orientation)
	}}
	var footnotes []boxes.Box
	boxes.BuildFormattingStructure(r.doc.Root, r.sf, resolver, "", &r.col, r.cs, &footnotes)
}

// snapshot reads every property of the table on every element of the skeleton.
func (c *check) snapshot(r *boxRun) map[string]string {
	out := map[string]string{}
	for _, e := range boxElems {
		node := r.ids[e.id]
		if e.id == "" {
			node = r.ids[e.name]
		}
		if node == nil {
			continue
		}
		st := r.sf.Get(node, e.pseudo)
		if st == nil {
			continue
		}
		for _, p := range c.props {
			if p.custom {
				continue
			}
			out[e.name+" "+p.name] = canon(p.name, e.pseudo != "", st.Get(p.key))
		}
	}
	return out
}

func (c *check) runBoxBuilding(ctx *engine.Ctx, p *propInfo) {
	if p.custom {
		ctx.Case(false, "skipped")
		return
	}
	parents := []string{""}
	if p.declarable && len(p.values) > 0 {
		vals := c.explicitValues(p)
		if c.thorough && len(vals) > 3 {
			vals = vals[:3]
		}
		parents = vals
	}
	wrapper := tableWrapperProp(p)
	for _, display := range containerDisplays {
		for _, parent := range parents {
			inherit := p.declarable
			src := boxDoc(p, display, parent, inherit)
			feats := func(more ...string) []string {
				f := []string{"pos:box-building", "prop:" + p.name, "fam:" + family(p.name), "container:" + display}
				if wrapper {
					f = append(f, "table-wrapper-property")
				}
				if parent != "" {
					f = append(f, "parent:explicit", "val:"+sanitize(parent))
				} else {
					f = append(f, "parent:none")
				}
				return append(f, more...)
			}
			base := fmt.Sprintf("box-building prop=%s container=%s parent=%s", p.name, display, parent)
			var before, afterSame, afterFresh map[string]string
			ok1 := c.guard(ctx, base+" order=read-build-read doc="+src, feats("order:read-build-read"), func() {
				r := c.newBoxRun(src)
				before = c.snapshot(r)
				r.build()
				afterSame = c.snapshot(r)
			})
			ok2 := c.guard(ctx, base+" order=build-read doc="+src, feats("order:build-read"), func() {
				r := c.newBoxRun(src)
				r.build()
				afterFresh = c.snapshot(r)
			})
			ctx.Trans(2)
			if !ok1 {
				ctx.Case(true, "panic")
				continue
			}
			ctx.Case(true, before["par "+p.name]+"|"+before["kid "+p.name])
			cs := base + " doc=" + src
			// (3) inherit: the children have the container's computed value
			if inherit {
				want := before["par "+p.name]
				for _, e := range []string{"par::before", "kid", "cap", "row", "cell"} {
					if (e == "row" || e == "cell") && (family(p.name) == "margin" || family(p.name) == "padding") {
						continue // StyleFor.Get zeroes the margins of table-internal elements (used value)
					}
					if p.name == "content" && e == "par::before" {
						continue
					}
					ctx.Count("reach:R3-inherit-box-building", 1)
					if got := before[e+" "+p.name]; got != want {
						c.fail(ctx, engine.Failure{Clause: "R3-inherit", Features: feats("elem:"+e, "order:read-build-read"), Case: cs,
							Detail: fmt.Sprintf("%s declares %s:inherit and has %s; the container has %s", e, p.name, got, want)})
					}
				}
			}
			// (1) and (2): box building changes no computed value, whenever the styles are first read
			diff := func(name string, other map[string]string, clause, order string) {
				var keys []string
				for k, v := range before {
					if o, ok := other[k]; ok && o != v {
						keys = append(keys, k)
					}
				}
				sort.Strings(keys)
				ctx.Count("reach:"+clause, int64(len(before)))
				for i, k := range keys {
					if i >= 3 {
						break
					}
					f := strings.SplitN(k, " ", 2)
					c.fail(ctx, engine.Failure{Clause: clause, Features: feats("elem:"+f[0], "observed:"+f[1], "order:"+order), Case: cs,
						Detail: fmt.Sprintf("%s of %s: %s when read before box building, %s %s", f[1], f[0], before[k], other[k], name)})
				}
			}
			diff("when read again after box building", afterSame, "R7-box-building-preserves-styles", "read-build-read")
			if ok2 {
				diff("when first read after box building", afterFresh, "R7-box-building-preserves-styles", "build-read")
			}
		}
	}
}
