package c18

import (
	"github.com/benoitkugler/webrender/backend"
	"github.com/benoitkugler/webrender/css/parser"
	"github.com/benoitkugler/webrender/matrix"
	"github.com/benoitkugler/webrender/utils/testutils/tracer"
)

// Recording backend: a backend.Canvas that keeps the path operations together with the
// current transformation matrix in effect when they were issued. The CTM is tracked by the
// recorder itself (float64, save/restore on OnNewStack), not with the matrix package.

type fl = backend.Fl

// mat is the affine map x' = a x + c y + e ; y' = b x + d y + f.
type mat struct{ a, b, c, d, e, f float64 }

var ident = mat{1, 0, 0, 1, 0, 0}

// then returns the map "first n, then m" (m ∘ n).
func (m mat) after(n mat) mat {
	return mat{
		a: m.a*n.a + m.c*n.b, b: m.b*n.a + m.d*n.b,
		c: m.a*n.c + m.c*n.d, d: m.b*n.c + m.d*n.d,
		e: m.a*n.e + m.c*n.f + m.e, f: m.b*n.e + m.d*n.f + m.f,
	}
}

func (m mat) apply(x, y float64) (float64, float64) {
	return m.a*x + m.c*y + m.e, m.b*x + m.d*y + m.f
}

type opKind byte

const (
	opM     opKind = 'M'
	opL     opKind = 'L'
	opC     opKind = 'C'
	opZ     opKind = 'Z'
	opRect  opKind = 'R'
	opPaint opKind = 'P'
	opClip  opKind = 'K'
)

type op struct {
	k   opKind
	a   [6]float64 // raw arguments (user space of the call)
	ctm mat        // transformation in effect
}

type rec struct {
	*tracer.Drawer
	ops    []op
	ctm    mat
	root   *rec
	groups int // number of groups created (root only)
	calls  int // number of calls seen (root only), a cheap progress measure
}

func newRec() *rec {
	r := &rec{Drawer: tracer.NewDrawerNoOp(), ctm: ident}
	r.root = r
	return r
}

// callBudget bounds the number of backend calls of one case: a time-free progress measure.
// The largest legitimate case of this check issues a few hundred calls (reach counter
// "backend-calls-over-1000" stays 0); a reference cycle
// that is followed forever exceeds any bound. Exceeding it panics inside the backend call, which
// unwinds the runaway recursion before the goroutine stack overflows.
const callBudget = 5000

const budgetMsg = "c18: backend call budget exceeded (runaway recursion)"

func (r *rec) tick() {
	r.root.calls++
	if r.root.calls > callBudget {
		panic(budgetMsg)
	}
}

func (r *rec) add(k opKind, a ...float64) {
	o := op{k: k, ctm: r.ctm}
	copy(o.a[:], a)
	r.ops = append(r.ops, o)
	r.tick()
}

func (r *rec) State() backend.GraphicState { return r }
func (r *rec) NewGroup(x, y, w, h fl) backend.Canvas {
	r.root.groups++
	r.tick()
	g := &rec{Drawer: r.Drawer, ctm: ident, root: r.root}
	return g
}

func (r *rec) OnNewStack(f func()) {
	saved := r.ctm
	r.tick()
	f()
	r.ctm = saved
}

func (r *rec) Transform(mt matrix.Transform) {
	n := mat{float64(mt.A), float64(mt.B), float64(mt.C), float64(mt.D), float64(mt.E), float64(mt.F)}
	r.ctm = r.ctm.after(n)
	r.tick()
}

func (r *rec) GetTransform() matrix.Transform {
	r.tick()
	m := r.ctm
	return matrix.Transform{A: fl(m.a), B: fl(m.b), C: fl(m.c), D: fl(m.d), E: fl(m.e), F: fl(m.f)}
}

func (r *rec) MoveTo(x, y fl) { r.add(opM, float64(x), float64(y)) }
func (r *rec) LineTo(x, y fl) { r.add(opL, float64(x), float64(y)) }
func (r *rec) CubicTo(a, b, c, d, e, f fl) {
	r.add(opC, float64(a), float64(b), float64(c), float64(d), float64(e), float64(f))
}
func (r *rec) ClosePath() { r.add(opZ) }
func (r *rec) Rectangle(x, y, w, h fl) {
	r.add(opRect, float64(x), float64(y), float64(w), float64(h))
}
func (r *rec) Paint(p backend.PaintOp) { r.add(opPaint, float64(p)) }
func (r *rec) Clip(evenOdd bool)       { r.add(opClip) }

// cheap no-ops for the calls the svg package makes often
func (r *rec) SetColorRgba(parser.RGBA, bool)                                 { r.tick() }
func (r *rec) SetAlpha(fl, bool)                                              {}
func (r *rec) SetLineWidth(fl)                                                {}
func (r *rec) SetDash([]fl, fl)                                               {}
func (r *rec) SetStrokeOptions(backend.StrokeOptions)                         {}
func (r *rec) SetBlendingMode(string)                                         {}
func (r *rec) SetTextPaint(backend.PaintOp)                                   {}
func (r *rec) SetAlphaMask(backend.Canvas)                                    { r.tick() }
func (r *rec) SetColorPattern(backend.Canvas, fl, fl, matrix.Transform, bool) { r.tick() }
func (r *rec) DrawWithOpacity(fl, backend.Canvas)                             { r.tick() }
func (r *rec) DrawGradient(backend.GradientLayout, fl, fl)                    { r.tick() }
func (r *rec) SetBoundingBox(l, t, rr, b fl)                                  {}
func (r *rec) GetBoundingBox() (l, t, rr, b fl)                               { return 0, 0, 10, 10 }

var _ backend.Canvas = (*rec)(nil)
var _ backend.GraphicState = (*rec)(nil)
