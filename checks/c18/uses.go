package c18

import (
	"fmt"
	"sort"
	"strings"

	"verif/internal/engine"
)

// ---- family (e): several <use> of ONE definition ---------------------------------------------
//
// One definition (symbol, svg with and without a size of its own, svg with preserveAspectRatio,
// g, a rect sized in em) and a sequence of 1..3 (thorough 4) <use> elements referencing it,
// every sequence over a menu of <use> attribute sets (nothing, x/y, width+height, x+width+height,
// width alone, font-size, transform). The definition sits in <defs> before or after the
// instances, or is itself a drawn element before or after them.
//
// Oracle (no reference geometry needed): an instance is drawn like the same instance alone. With
// D = the operations of the document holding the definition only and P(u) = the operations the
// document {definition, u} adds to D, the document {definition, u1..uk} must produce exactly
// D and P(u1)..P(uk) in document order: the viewport a <use> gives to the referenced svg/symbol
// (SVG 1.1 §5.6: width/height of the use override those of the svg for THIS instance), its x/y,
// the attributes the instance inherits from it, belong to one instance and must not be seen by
// the next one nor by the definition when it is drawn itself.

type useTarget struct {
	src string // the definition, id "a"
	tag string
}

const useContent = `<rect width="3" height="4"/>`

var useTargets = []useTarget{
	{`<symbol id="a" viewBox="0 0 10 10">` + useContent + `</symbol>`, "target:symbol"},
	{`<svg id="a" width="80" height="80" viewBox="0 0 10 10">` + useContent + `</svg>`, "target:svg-sized"},
	{`<svg id="a" viewBox="0 0 10 10">` + useContent + `</svg>`, "target:svg-unsized"},
	{`<svg id="a" width="80" height="40" viewBox="0 0 10 10" preserveAspectRatio="xMinYMax slice">` + useContent + `</svg>`, "target:svg-par"},
	{`<g id="a">` + useContent + `</g>`, "target:g"},
	{`<rect id="a" width="1em" height="4"/>`, "target:rect-em"},
}

type useVariant struct {
	attrs string
	tag   string
	sized bool // gives width AND height
}

var useVariants = []useVariant{
	{``, "use:plain", false},
	{` x="5" y="2.5"`, "use:xy", false},
	{` width="100" height="20"`, "use:size", true},
	{` x="5" width="20" height="40"`, "use:x-size", true},
	{` width="30"`, "use:width-only", false},
	{` font-size="5"`, "use:font-size", false},
	{` transform="scale(2)"`, "use:transform", false},
}

var usePlacements = []string{"defs-first", "defs-last", "drawn-first", "drawn-last"}

type useFamily struct {
	maxK  int
	perTP int64 // sequences per (target, placement)
	total int64
}

func newUseFamily(thorough bool) *useFamily {
	f := &useFamily{maxK: 3}
	if thorough {
		f.maxK = 4
	}
	n := int64(len(useVariants))
	p := int64(1)
	for k := 1; k <= f.maxK; k++ {
		p *= n
		f.perTP += p
	}
	f.total = f.perTP * int64(len(useTargets)*len(usePlacements))
	return f
}

func (f *useFamily) name() string { return "use-instances" }
func (f *useFamily) units() int64 { return f.total }
func (f *useFamily) bounds() any {
	var ts, vs []string
	for _, t := range useTargets {
		ts = append(ts, t.src)
	}
	for _, v := range useVariants {
		vs = append(vs, "<use href=\"#a\""+v.attrs+"/>")
	}
	return map[string]any{"definitions": ts, "use_variants": vs, "placement_of_the_definition": usePlacements, "max_instances": f.maxK, "cases": f.total}
}

// decode: sequences shortest first; target and placement vary slowest.
func (f *useFamily) decode(u int64) (t useTarget, placement string, seq []int) {
	tp := u / f.perTP
	u %= f.perTP
	t = useTargets[tp/int64(len(usePlacements))]
	placement = usePlacements[tp%int64(len(usePlacements))]
	n := int64(len(useVariants))
	cnt := n
	k := 1
	for u >= cnt {
		u -= cnt
		cnt *= n
		k++
	}
	seq = make([]int, k)
	for i := k - 1; i >= 0; i-- {
		seq[i] = int(u % n)
		u /= n
	}
	return
}

func useDoc(t useTarget, placement string, seq []int) string {
	var uses strings.Builder
	for i, v := range seq {
		// both spellings of the reference
		if i%2 == 0 {
			fmt.Fprintf(&uses, `<use href="#a"%s/>`, useVariants[v].attrs)
		} else {
			fmt.Fprintf(&uses, `<use xlink:href="#a"%s/>`, useVariants[v].attrs)
		}
	}
	def := t.src
	if strings.HasPrefix(placement, "defs") {
		def = `<defs>` + def + `</defs>`
	}
	body := def + uses.String()
	if strings.HasSuffix(placement, "last") {
		body = uses.String() + def
	}
	return `<svg xmlns="http://www.w3.org/2000/svg" xmlns:xlink="http://www.w3.org/1999/xlink" width="100" height="100">` + body + `</svg>`
}

func useFeatures(t useTarget, placement string, seq []int) []string {
	set := map[string]bool{"ref-use": true, "use-instances": true, t.tag: true, "definition:" + placement: true, fmt.Sprintf("instances=%d", len(seq)): true}
	sized := false
	for i, v := range seq {
		uv := useVariants[v]
		set[uv.tag] = true
		if sized && !uv.sized {
			set["sized-then-unsized"] = true
		}
		sized = sized || uv.sized
		for _, w := range seq[:i] {
			if w != v {
				set["different-instances"] = true
			}
		}
	}
	if sized && strings.HasSuffix(placement, "drawn-last") {
		set["sized-then-definition"] = true
	}
	out := make([]string, 0, len(set))
	for k := range set {
		out = append(out, k)
	}
	sort.Strings(out)
	return out
}

// opKeys is the comparable form of a recording: one string per operation (kind, arguments,
// transformation in effect).
func opKeys(r *rec) []string {
	out := make([]string, len(r.ops))
	for i, o := range r.ops {
		out[i] = fmt.Sprintf("%c(%.4g %.4g %.4g %.4g %.4g %.4g)@[%.4g %.4g %.4g %.4g %.4g %.4g]", o.k,
			o.a[0], o.a[1], o.a[2], o.a[3], o.a[4], o.a[5], o.ctm.a, o.ctm.b, o.ctm.c, o.ctm.d, o.ctm.e, o.ctm.f)
	}
	return out
}

// strip removes d from the front (definition first) or the back of l.
func strip(l, d []string, front bool) ([]string, bool) {
	if len(l) < len(d) {
		return nil, false
	}
	if front {
		for i := range d {
			if l[i] != d[i] {
				return nil, false
			}
		}
		return l[len(d):], true
	}
	off := len(l) - len(d)
	for i := range d {
		if l[off+i] != d[i] {
			return nil, false
		}
	}
	return l[:off], true
}

func (f *useFamily) describe(u int64) any {
	t, p, seq := f.decode(u)
	return map[string]any{"document": useDoc(t, p, seq), "instances": len(seq)}
}

func (f *useFamily) run(u int64, ctx *engine.Ctx) {
	t, placement, seq := f.decode(u)
	feats := useFeatures(t, placement, seq)
	src := useDoc(t, placement, seq)
	desc := withFeat("use-instances "+src, feats)
	ctx.Trans(1)
	ctx.Count(fmt.Sprintf("use-instances:%d", len(seq)), 1)
	front := strings.HasSuffix(placement, "first")

	var whole, defOnly []string
	parts := make([][]string, len(seq))
	var key, problem string
	ok := ctx.GuardFail(desc, feats, func() {
		draw := func(s []int) ([]string, *rec) {
			r, err := render(useDoc(t, placement, s), 100, 100)
			if err != nil {
				problem = "rejected: " + err.Error()
				return nil, nil
			}
			return opKeys(r), r
		}
		var r *rec
		if whole, r = draw(seq); r == nil {
			return
		}
		noteCalls(ctx, r)
		key = traceKey(r)
		if defOnly, r = draw(nil); r == nil {
			return
		}
		for i, v := range seq {
			one, r := draw([]int{v})
			if r == nil {
				return
			}
			// (the spelling of the reference follows the position: not part of the geometry)
			p, ok := strip(one, defOnly, front)
			if !ok {
				problem = fmt.Sprintf("the document of the definition and <use href=\"#a\"%s/> alone does not draw the definition as the document of the definition alone does:\n  definition alone: %s\n  with the instance: %s", useVariants[v].attrs, strings.Join(defOnly, " "), strings.Join(one, " "))
				return
			}
			parts[i] = p
		}
	})
	if !ok {
		ctx.Case(true, "panic")
		return
	}
	if strings.HasPrefix(problem, "rejected") {
		ctx.Case(false, "rejected")
		ctx.Fail(engine.Failure{Clause: "reference-ignored", Features: feats, Case: desc, Detail: "valid document " + problem})
		return
	}
	nonTrivial := false
	for _, p := range parts {
		if len(p) > 0 {
			nonTrivial = true
		}
	}
	ctx.Case(nonTrivial, key)
	if problem != "" {
		ctx.Fail(engine.Failure{Clause: "use-instance-independent", Features: feats, Case: desc, Detail: problem})
		return
	}
	var want []string
	if front {
		want = append(want, defOnly...)
	}
	for _, p := range parts {
		want = append(want, p...)
	}
	if !front {
		want = append(want, defOnly...)
	}
	ctx.Count("use-instances:compared", 1)
	same := len(want) == len(whole)
	for i := 0; same && i < len(want); i++ {
		same = want[i] == whole[i]
	}
	if !same {
		ctx.Fail(engine.Failure{Clause: "use-instance-independent", Features: feats, Case: desc,
			Detail: fmt.Sprintf("the instances (and the definition) are not drawn as each of them is when alone:\n  each alone, in document order: %s\n  together: %s", strings.Join(want, " "), strings.Join(whole, " "))})
	}
}
