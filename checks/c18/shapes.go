package c18

import (
	"fmt"
	"math"
	"sort"
	"strconv"
	"strings"

	"verif/internal/engine"
)

// ---- family (b): basic shapes ---------------------------------------------------------------
//
// The outline drawn by the implementation (path operations, device space) is compared with the
// outline the specification defines as two point sets: every point of the drawn outline must be
// within tol of the reference outline and vice versa (two-sided Hausdorff distance on dense
// samplings). Order, direction, start point and the number of curves are free.

type pt struct{ x, y float64 }

// polyline sets: a list of polylines (each a list of points; a single point is allowed)
type outline [][]pt

func (o outline) empty() bool {
	for _, l := range o {
		if len(l) > 0 {
			return false
		}
	}
	return true
}

// implOutline samples the recorded operations (device space).
func implOutline(ops []op) outline {
	var out outline
	var cur []pt
	var sx, sy, px, py float64
	flush := func() {
		if len(cur) > 0 {
			out = append(out, cur)
		}
		cur = nil
	}
	for _, o := range ops {
		switch o.k {
		case opM:
			flush()
			x, y := o.ctm.apply(o.a[0], o.a[1])
			cur = []pt{{x, y}}
			sx, sy, px, py = o.a[0], o.a[1], o.a[0], o.a[1]
		case opL:
			if cur == nil {
				x, y := o.ctm.apply(px, py)
				cur = []pt{{x, y}}
			}
			x, y := o.ctm.apply(o.a[0], o.a[1])
			cur = append(cur, pt{x, y})
			px, py = o.a[0], o.a[1]
		case opC:
			if cur == nil {
				x, y := o.ctm.apply(px, py)
				cur = []pt{{x, y}}
			}
			const n = 48
			for s := 1; s <= n; s++ {
				x, y := cubicAt(px, py, o.a, float64(s)/n)
				x, y = o.ctm.apply(x, y)
				cur = append(cur, pt{x, y})
			}
			px, py = o.a[4], o.a[5]
		case opZ:
			if cur != nil {
				x, y := o.ctm.apply(sx, sy)
				cur = append(cur, pt{x, y})
			}
			flush()
			px, py = sx, sy
		case opRect:
			flush()
			x, y, w, h := o.a[0], o.a[1], o.a[2], o.a[3]
			var l []pt
			for _, c := range [][2]float64{{x, y}, {x + w, y}, {x + w, y + h}, {x, y + h}, {x, y}} {
				dx, dy := o.ctm.apply(c[0], c[1])
				l = append(l, pt{dx, dy})
			}
			out = append(out, l)
			px, py, sx, sy = x, y, x, y
		}
	}
	flush()
	return out
}

func distToOutline(p pt, o outline) float64 {
	best := math.Inf(1)
	for _, l := range o {
		if len(l) == 1 {
			if d := math.Hypot(p.x-l[0].x, p.y-l[0].y); d < best {
				best = d
			}
		}
		for i := 0; i+1 < len(l); i++ {
			if d := distPointSeg(p.x, p.y, l[i].x, l[i].y, l[i+1].x, l[i+1].y); d < best {
				best = d
			}
		}
	}
	return best
}

// densify inserts points so that consecutive points are at most step apart.
func densify(o outline, step float64) []pt {
	var out []pt
	for _, l := range o {
		for i, p := range l {
			out = append(out, p)
			if i+1 < len(l) {
				q := l[i+1]
				n := int(math.Hypot(q.x-p.x, q.y-p.y) / step)
				for s := 1; s <= n; s++ {
					t := float64(s) / float64(n+1)
					out = append(out, pt{p.x + t*(q.x-p.x), p.y + t*(q.y-p.y)})
				}
			}
		}
	}
	return out
}

// hausdorff returns the two directed distances (a -> b, b -> a) and the worst points.
func hausdorff(a, b outline, step float64) (dab, dba float64, pa, pb pt) {
	for _, p := range densify(a, step) {
		if d := distToOutline(p, b); d > dab {
			dab, pa = d, p
		}
	}
	for _, p := range densify(b, step) {
		if d := distToOutline(p, a); d > dba {
			dba, pb = d, p
		}
	}
	return
}

func bbox(o outline) [4]float64 {
	b := [4]float64{math.Inf(1), math.Inf(1), math.Inf(-1), math.Inf(-1)}
	for _, l := range o {
		for _, p := range l {
			b[0], b[1] = math.Min(b[0], p.x), math.Min(b[1], p.y)
			b[2], b[3] = math.Max(b[2], p.x), math.Max(b[3], p.y)
		}
	}
	return b
}

// edgeSpan returns the range of the free coordinate over the points of the outline that lie
// on the line y = c (vertical false) or x = c (vertical true).
func edgeSpan(o outline, vertical bool, c float64) (lo, hi float64) {
	lo, hi = math.Inf(1), math.Inf(-1)
	for _, l := range o {
		for _, p := range l {
			on, v := p.y, p.x
			if vertical {
				on, v = p.x, p.y
			}
			if math.Abs(on-c) < 1e-6 {
				lo, hi = math.Min(lo, v), math.Max(hi, v)
			}
		}
	}
	return
}

// reference outlines -----------------------------------------------------------------------

func ellipseArc(cx, cy, rx, ry, t0, t1 float64, n int) []pt {
	var l []pt
	for i := 0; i <= n; i++ {
		t := t0 + (t1-t0)*float64(i)/float64(n)
		l = append(l, pt{cx + rx*math.Cos(t), cy + ry*math.Sin(t)})
	}
	return l
}

// rectOutline: SVG 1.1 §9.2 / SVG 2 §10.2. rx, ry are the effective (clamped) radii.
func rectOutline(x, y, w, h, rx, ry float64) outline {
	if rx == 0 || ry == 0 {
		return outline{{{x, y}, {x + w, y}, {x + w, y + h}, {x, y + h}, {x, y}}}
	}
	const n = 64
	h2 := math.Pi / 2
	var l []pt
	l = append(l, pt{x + rx, y}, pt{x + w - rx, y})
	l = append(l, ellipseArc(x+w-rx, y+ry, rx, ry, -h2, 0, n)...)
	l = append(l, pt{x + w, y + h - ry})
	l = append(l, ellipseArc(x+w-rx, y+h-ry, rx, ry, 0, h2, n)...)
	l = append(l, pt{x + rx, y + h})
	l = append(l, ellipseArc(x+rx, y+h-ry, rx, ry, h2, 2*h2, n)...)
	l = append(l, pt{x, y + ry})
	l = append(l, ellipseArc(x+rx, y+ry, rx, ry, 2*h2, 3*h2, n)...)
	return outline{l}
}

// attribute values --------------------------------------------------------------------------

// attrVal is an attribute value of the alphabet: the text and what it means.
type attrVal struct {
	text    string // "" = attribute absent
	v       float64
	percent bool
}

func av(text string) attrVal {
	if text == "" {
		return attrVal{}
	}
	if strings.HasSuffix(text, "%") {
		f, _ := strconv.ParseFloat(strings.TrimSuffix(text, "%"), 64)
		return attrVal{text: text, v: f, percent: true}
	}
	f, err := strconv.ParseFloat(text, 64)
	if err != nil {
		panic("bad attribute value in the alphabet: " + text)
	}
	return attrVal{text: text, v: f}
}

func avs(texts ...string) []attrVal {
	var out []attrVal
	for _, t := range texts {
		out = append(out, av(t))
	}
	return out
}

// resolve against a percentage reference.
func (a attrVal) resolve(ref float64) float64 {
	if a.percent {
		return a.v * ref / 100
	}
	return a.v
}

func (a attrVal) attr(name string) string {
	if a.text == "" {
		return ""
	}
	return " " + name + `="` + a.text + `"`
}

// viewport of the shape documents (no viewBox): percentages of x/width refer to vpW, of
// y/height to vpH, of r to sqrt((vpW²+vpH²)/2).
const (
	vpW = 100.0
	vpH = 50.0
)

// shape kinds and their alphabets ---------------------------------------------------------

type shapeKind struct {
	name  string
	attrs []string    // attribute names
	menus [][]attrVal // one menu per attribute
	lists []string    // for polyline/polygon: the points attribute values
}

type shapeFamily struct {
	kinds  []shapeKind
	counts []int64
	starts []int64
	total  int64
	batch  int64
}

var pointLists = []string{
	"", "10,10", "10,10 -5,2.5", "10,10 -5,2.5 0,7", "10,10 -5,2.5 0,7 .5,-8",
	"10 10 -5 2.5 0 7", "10,10,-5,2.5,0,7", "10,10-5,2.5 0,7.5.5", " 10,10\n-5,2.5\t0,7 ",
	"1e1,1e1 -5e0,25e-1 0,7", "10,10 -5,2.5 0", "10,10 -5,2.5 0,7 3", "0,0 10,0 10,10 0,10", "10,10 10,10 10,10",
	"+10,+10 -5,2.5 0,7",
}

func newShapeFamily(thorough bool) *shapeFamily {
	f := &shapeFamily{batch: 4}
	f.kinds = []shapeKind{
		{name: "rect", attrs: []string{"x", "y", "width", "height", "rx", "ry"}, menus: [][]attrVal{
			avs("", "10", "-5"), avs("", "2.5", "10%"),
			avs("", "0", "10", "-5", "2.5", "50%", "40"), avs("", "0", "10", "-5", "50%", "20"),
			avs("", "0", "2.5", "10", "30", "10%"), avs("", "0", "2.5", "5", "30"),
		}},
		{name: "circle", attrs: []string{"cx", "cy", "r"}, menus: [][]attrVal{
			avs("", "10", "-5", "50%"), avs("", "2.5", "50%"), avs("", "0", "10", "2.5", "-5", "20%", "1e1", ".5"),
		}},
		{name: "ellipse", attrs: []string{"cx", "cy", "rx", "ry"}, menus: [][]attrVal{
			avs("", "10", "-5", "50%"), avs("", "2.5"), avs("0", "10", "2.5", "-5", "20%"), avs("0", "10", "5", "-5", "20%"),
		}},
		{name: "line", attrs: []string{"x1", "y1", "x2", "y2"}, menus: [][]attrVal{
			avs("", "10", "-5", "2.5", "50%"), avs("", "10", "-5", "2.5"), avs("", "10", "-5", "2.5"), avs("", "10", "0", "50%"),
		}},
		{name: "polyline", lists: pointLists},
		{name: "polygon", lists: pointLists},
	}
	if thorough {
		r := &f.kinds[0]
		r.menus[0] = append(r.menus[0], av("50%"))
		r.menus[1] = append(r.menus[1], av("-5"))
		r.menus[4] = append(r.menus[4], av("5"))
		r.menus[5] = append(r.menus[5], av("10%"))
		c := &f.kinds[1]
		c.menus[1] = append(c.menus[1], av("-5"))
		c.menus[2] = append(c.menus[2], av("40"), av("+5"))
		e := &f.kinds[2]
		e.menus[1] = append(e.menus[1], av("-5"), av("50%"))
		e.menus[2] = append(e.menus[2], av("40"))
		l := &f.kinds[3]
		l.menus[1] = append(l.menus[1], av("50%"))
		l.menus[2] = append(l.menus[2], av("0"), av("50%"))
	}
	for _, k := range f.kinds {
		n := int64(1)
		if k.lists != nil {
			n = int64(len(k.lists))
		} else {
			for _, m := range k.menus {
				n *= int64(len(m))
			}
		}
		f.counts = append(f.counts, n)
		f.starts = append(f.starts, f.total)
		f.total += (n + f.batch - 1) / f.batch
	}
	return f
}

func (f *shapeFamily) name() string { return "shapes" }
func (f *shapeFamily) units() int64 { return f.total }
func (f *shapeFamily) bounds() any {
	m := map[string]any{"viewport": []float64{vpW, vpH}}
	for i, k := range f.kinds {
		e := map[string]any{"cases": f.counts[i]}
		if k.lists != nil {
			e["points"] = k.lists
		} else {
			for j, a := range k.attrs {
				var t []string
				for _, v := range k.menus[j] {
					if v.text == "" {
						t = append(t, "(absent)")
					} else {
						t = append(t, v.text)
					}
				}
				e[a] = t
			}
		}
		m[k.name] = e
	}
	return m
}

func (f *shapeFamily) locate(u int64) (ki int, lo, hi int64) {
	ki = len(f.kinds) - 1
	for ki > 0 && f.starts[ki] > u {
		ki--
	}
	lo = (u - f.starts[ki]) * f.batch
	hi = lo + f.batch
	if hi > f.counts[ki] {
		hi = f.counts[ki]
	}
	return
}

// pick decodes case i of kind k into one value per attribute.
func (k *shapeKind) pick(i int64) []attrVal {
	out := make([]attrVal, len(k.menus))
	for j := len(k.menus) - 1; j >= 0; j-- {
		n := int64(len(k.menus[j]))
		out[j] = k.menus[j][i%n]
		i /= n
	}
	return out
}

func (f *shapeFamily) describe(u int64) any {
	ki, lo, hi := f.locate(u)
	k := &f.kinds[ki]
	src, _, _, _ := k.build(lo)
	return map[string]any{"kind": k.name, "first": src, "cases": hi - lo}
}

// parsePointList is the reference reading of a points attribute (SVG number grammar, comma
// or white space separated, an odd last coordinate is dropped).
func parsePointList(s string) ([]pt, int) {
	var nums []float64
	i := 0
	isDigit := func(c byte) bool { return c >= '0' && c <= '9' }
	for i < len(s) {
		c := s[i]
		if c == ' ' || c == '\t' || c == '\n' || c == '\r' || c == ',' {
			i++
			continue
		}
		j := i
		if s[j] == '+' || s[j] == '-' {
			j++
		}
		for j < len(s) && isDigit(s[j]) {
			j++
		}
		if j < len(s) && s[j] == '.' {
			j++
			for j < len(s) && isDigit(s[j]) {
				j++
			}
		}
		if j < len(s) && (s[j] == 'e' || s[j] == 'E') {
			k := j + 1
			if k < len(s) && (s[k] == '+' || s[k] == '-') {
				k++
			}
			if k < len(s) && isDigit(s[k]) {
				for k < len(s) && isDigit(s[k]) {
					k++
				}
				j = k
			}
		}
		v, err := strconv.ParseFloat(s[i:j], 64)
		if err != nil {
			panic("reference cannot read point list " + s)
		}
		nums = append(nums, v)
		i = j
	}
	var out []pt
	for k := 0; k+1 < len(nums); k += 2 {
		out = append(out, pt{nums[k], nums[k+1]})
	}
	return out, len(nums)
}

// build returns the document of case i, the reference outline, the tolerance and the
// feature tags.
// rectGeom is the resolved geometry of a rendered rect (reference values).
type rectGeom struct {
	ok                 bool
	x, y, w, h, rx, ry float64
}

func (k *shapeKind) build(i int64) (src string, ref outline, tol float64, feats []string) {
	src, ref, tol, feats, _ = k.build2(i)
	return
}

func (k *shapeKind) build2(i int64) (src string, ref outline, tol float64, feats []string, rg rectGeom) {
	set := map[string]bool{"shape-" + k.name: true}
	var elem string
	tol = 1e-3
	if k.lists != nil {
		pl := k.lists[i]
		elem = fmt.Sprintf(`<%s points="%s"/>`, k.name, pl)
		pts, nnum := parsePointList(pl)
		if len(pts) > 0 {
			l := append([]pt(nil), pts...)
			if k.name == "polygon" {
				l = append(l, pts[0])
				set["closed"] = true
			}
			ref = outline{l}
		} else {
			set["no-point"] = true
		}
		if strings.ContainsAny(pl, "eE") {
			set["exponent"] = true
		}
		if nnum%2 == 1 {
			set["odd-coordinate-count"] = true
		}
	} else {
		vals := k.pick(i)
		var sb strings.Builder
		sb.WriteString("<" + k.name)
		get := map[string]attrVal{}
		for j, a := range k.attrs {
			sb.WriteString(vals[j].attr(a))
			get[a] = vals[j]
			if vals[j].percent {
				set["percent-"+a] = true
			}
		}
		sb.WriteString("/>")
		elem = sb.String()
		diag := math.Sqrt((vpW*vpW + vpH*vpH) / 2)
		switch k.name {
		case "rect":
			x, y := get["x"].resolve(vpW), get["y"].resolve(vpH)
			w, h := get["width"].resolve(vpW), get["height"].resolve(vpH)
			rxv, ryv := get["rx"], get["ry"]
			rx, ry := rxv.resolve(vpW), ryv.resolve(vpH)
			if rxv.text == "" {
				rx = ry
			} else if ryv.text == "" {
				ry = rx
			}
			if rxv.text != "" && ryv.text != "" && rx != ry {
				set["rx-ne-ry"] = true
			}
			if w < 0 || h < 0 {
				set["negative-size"] = true
			}
			if w == 0 || h == 0 {
				set["zero-size"] = true
			}
			if w > 0 && h > 0 {
				if rx > w/2 {
					rx = w / 2
					set["rx-clamped"] = true
				}
				if ry > h/2 {
					ry = h / 2
					set["ry-clamped"] = true
				}
				if rx > 0 && ry > 0 {
					set["rounded"] = true
				}
				ref = rectOutline(x, y, w, h, rx, ry)
				rg = rectGeom{true, x, y, w, h, rx, ry}
				if rx == 0 || ry == 0 {
					rg.rx, rg.ry = 0, 0 // square corners
				}
				tol = 1e-3 * math.Max(1, math.Max(rx, ry))
			}
		case "circle", "ellipse":
			cx, cy := get["cx"].resolve(vpW), get["cy"].resolve(vpH)
			var rx, ry float64
			if k.name == "circle" {
				rx = get["r"].resolve(diag)
				ry = rx
			} else {
				rx, ry = get["rx"].resolve(vpW), get["ry"].resolve(vpH)
			}
			if rx < 0 || ry < 0 {
				set["negative-radius"] = true
			}
			if rx == 0 || ry == 0 {
				set["zero-radius"] = true
			}
			if rx > 0 && ry > 0 {
				ref = outline{ellipseArc(cx, cy, rx, ry, 0, 2*math.Pi, 256)}
				tol = 1e-3 * math.Max(1, math.Max(rx, ry))
			}
		case "line":
			x1, y1 := get["x1"].resolve(vpW), get["y1"].resolve(vpH)
			x2, y2 := get["x2"].resolve(vpW), get["y2"].resolve(vpH)
			ref = outline{{{x1, y1}, {x2, y2}}}
			if x1 == x2 && y1 == y2 {
				set["zero-length"] = true
			}
		}
	}
	src = `<svg xmlns="http://www.w3.org/2000/svg">` + elem + `</svg>`
	for ft := range set {
		feats = append(feats, ft)
	}
	sort.Strings(feats)
	return
}

func (f *shapeFamily) run(u int64, ctx *engine.Ctx) {
	ki, lo, hi := f.locate(u)
	k := &f.kinds[ki]
	for i := lo; i < hi; i++ {
		src, ref, tol, feats, rg := k.build2(i)
		desc := withFeat("shape "+src, feats)
		ctx.Trans(1)
		var r *rec
		var err error
		if !ctx.GuardFail(desc, feats, func() { r, err = render(src, vpW, vpH) }) {
			ctx.Case(true, "panic")
			continue
		}
		if err != nil {
			ctx.Case(false, "rejected")
			ctx.Fail(engine.Failure{Clause: "shape-accepted", Features: feats, Case: desc, Detail: "valid shape rejected: " + err.Error()})
			continue
		}
		noteCalls(ctx, r)
		var pathOps []op
		painted := false
		for _, o := range r.ops {
			if o.k == opPaint {
				if len(pathOps) > 0 {
					painted = true
				}
				continue
			}
			if o.k != opClip {
				pathOps = append(pathOps, o)
			}
		}
		got := implOutline(pathOps)
		ctx.Case(!got.empty(), traceKey(r))
		ctx.Count("shape:"+k.name, 1)
		switch {
		case ref.empty() && !got.empty():
			ctx.Fail(engine.Failure{Clause: "shape-not-rendered", Features: feats, Case: desc,
				Detail: "the element must not be rendered (zero or negative size/radius, or no point) but path operations were issued: " + copsString(fromImpl(pathOps))})
		case !ref.empty() && got.empty():
			ctx.Fail(engine.Failure{Clause: "shape-outline", Features: feats, Case: desc, Detail: "nothing was drawn"})
		case !ref.empty():
			ctx.Count("outline-compared:"+k.name, 1)
			// extent: the bounding box of the drawn outline is the one of the specified outline
			// (position, size, radii), whatever the quality of the curves
			gb, rb := bbox(got), bbox(ref)
			for j := 0; j < 4; j++ {
				if d := math.Abs(gb[j] - rb[j]); d > tol || math.IsNaN(d) {
					ctx.Fail(engine.Failure{Clause: "shape-extent", Features: feats, Case: desc,
						Detail: fmt.Sprintf("extent of the drawn outline [x %.5g..%.5g, y %.5g..%.5g] differs from the specified one [x %.5g..%.5g, y %.5g..%.5g]\ngot: %s",
							gb[0], gb[2], gb[1], gb[3], rb[0], rb[2], rb[1], rb[3], copsString(fromImpl(pathOps)))})
					break
				}
			}
			if rg.ok {
				// corner radii: the straight part of the top edge spans [x+rx, x+w-rx], the one of
				// the right edge [y+ry, y+h-ry]
				x0, x1 := edgeSpan(got, false, rg.y)
				y0, y1 := edgeSpan(got, true, rg.x+rg.w)
				wx0, wx1, wy0, wy1 := rg.x+rg.rx, rg.x+rg.w-rg.rx, rg.y+rg.ry, rg.y+rg.h-rg.ry
				if math.Abs(x0-wx0) > 1e-3 || math.Abs(x1-wx1) > 1e-3 || math.Abs(y0-wy0) > 1e-3 || math.Abs(y1-wy1) > 1e-3 {
					ctx.Fail(engine.Failure{Clause: "rect-corner-radii", Features: feats, Case: desc,
						Detail: fmt.Sprintf("effective corner radii: the outline follows the top edge over x in [%.5g,%.5g] and the right edge over y in [%.5g,%.5g]; rx=%g ry=%g give [%.5g,%.5g] and [%.5g,%.5g]\ngot: %s",
							x0, x1, y0, y1, rg.rx, rg.ry, wx0, wx1, wy0, wy1, copsString(fromImpl(pathOps)))})
				}
			}
			dIR, dRI, pI, pR := hausdorff(got, ref, 0.5)
			if dIR > tol || dRI > tol || math.IsNaN(dIR) || math.IsNaN(dRI) {
				ctx.Fail(engine.Failure{Clause: "shape-outline", Features: feats, Case: desc,
					Detail: fmt.Sprintf("drawn outline deviates from the specified one (tolerance %.4g): drawn point (%.4g,%.4g) is %.4g away from the reference outline; reference point (%.4g,%.4g) is %.4g away from the drawn outline\ngot: %s",
						tol, pI.x, pI.y, dIR, pR.x, pR.y, dRI, copsString(fromImpl(pathOps)))})
			}
			if !painted {
				ctx.Fail(engine.Failure{Clause: "shape-painted", Features: feats, Case: desc, Detail: "the outline is never painted (no Paint after the path)"})
			}
		}
	}
}
