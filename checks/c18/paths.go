package c18

import (
	"fmt"
	"sort"
	"strconv"
	"strings"

	"verif/internal/engine"
)

// ---- family (a): path data ----------------------------------------------------------------

var pathCmds = []byte("MmLlHhVvCcSsQqTtAaZz")

// value pool of coordinates. The design's {0, 10, -5, 2.5} plus values that exercise the
// number grammar (.5, -.5) and make every argument distinct inside one group.
var pool = []float64{10, -5, 2.5, 0, 7, 0.5, -8, 3, -0.5, 4}

// arc menu: rx ry x-axis-rotation large-arc sweep
var arcMenu = [][5]float64{
	{20, 20, 0, 0, 1},   // circle, small arc, positive sweep
	{20, 20, 0, 1, 0},   // circle, large arc, negative sweep
	{20, 12, 30, 0, 0},  // rotated ellipse
	{20, 12, 30, 1, 1},  //
	{5, 3, 30, 1, 0},    // radii usually too small: scaled (F.6.6)
	{1, 1, 0, 0, 1},     // radii too small
	{0, 5, 0, 0, 1},     // rx = 0: straight line
	{5, 0, 45, 1, 1},    // ry = 0: straight line
	{-20, 12, 30, 0, 1}, // negative radius: absolute value
	{20, 12, -60, 1, 0}, // negative rotation
}

const nVariants = 10

// deviations of a sequence of k segments:
//
//	0 none; 1 initial moveto relative ("m"); 2 initial moveto with a second pair (implicit
//	lineto); 3 both; 3+j (1<=j<=k) segment j has a second argument group (implicit repetition)
type pathBlock struct {
	k         int
	allDevs   bool
	variants  []int // nil: one rotating variant (seq index mod nVariants)
	spellings []spelling
	nseq      int64
	ndev      int64
	start     int64
}

type pathFamily struct {
	blocks   []pathBlock
	specials [][]seg
	total    int64 // units of the blocks; the special paths come after
}

// parseCanonical reads a path written in the canonical spelling of this package (command
// letter, arguments separated by single blanks). Only used to write the special paths below.
func parseCanonical(d string) []seg {
	var segs []seg
	i := 0
	for i < len(d) {
		c := d[i]
		i++
		j := i
		for j < len(d) && !(d[j] >= 'A' && d[j] <= 'Z' || d[j] >= 'a' && d[j] <= 'z') {
			j++
		}
		s := seg{cmd: c}
		for _, f := range strings.Fields(d[i:j]) {
			v, err := strconv.ParseFloat(f, 64)
			if err != nil {
				panic("bad special path " + d)
			}
			s.args = append(s.args, v)
		}
		if n := nargs(c); (n == 0 && len(s.args) != 0) || (n > 0 && (len(s.args) == 0 || len(s.args)%n != 0)) {
			panic("bad special path " + d)
		}
		segs = append(segs, s)
		i = j
	}
	return segs
}

// special paths: forced collisions that the generic argument assignment does not produce
// (identical arc end points, radii that fit exactly, zero-length segments, the examples of
// the specification, long implicit repetitions).
var specialPaths = []string{
	"M10 10a20 20 0 0 1 0 0l5 5",
	"M10 10A20 20 0 0 1 10 10L0 0",
	"M10 10A0 0 0 0 1 10 10L0 0",
	"M0 0A20 20 0 1 1 40 0",
	"M0 0A20 20 0 0 0 40 0",
	"M0 0A10 10 0 0 0 40 0",
	"M0 0A10 5 90 0 1 40 0",
	"M600 350l50 -25a25 25 -30 0 1 50 -25l50 -25a25 50 -30 0 1 50 -25l50 -25",
	"M300 200h-150a150 150 0 1 0 150 -150z",
	"M275 175v-150a150 150 0 0 0 -150 150z",
	"M10 -5L10 -5",
	"M0 0c0 0 0 0 0 0s0 0 5 5",
	"M10 10ZZL5 5ZZ",
	"M10 10zm5 5l5 0",
	"M10 10l5 0zm5 5l5 0zl0 5z",
	"M10 10 20 20 30 10z",
	"m10 10 5 5 -5 5zl-5 0 0 -5z",
	"M0 0T10 10T20 0",
	"M0 0Q5 5 10 0T20 0t10 0 10 0",
	"M0 0C0 5 5 5 5 0S10 -5 10 0s5 5 5 0 5 -5 5 0",
	"M0 0H10V10H0Z",
	"M0 0h10v10h-10z",
	"M0 0H10 20 5V1 2 3h1 1v-1 -1",
	"M1 2 3 4 5 6m1 1 1 1M0 0",
	"M0.5 0.5 0.5 0.5l-0.5 0.5 0.5 -0.5",
	"M0 0l0.5 -0.5 0.5 0.5q0.5 0.5 0.5 -0.5",
	"M100 200C100 100 250 100 250 200S400 300 400 200",
	"M200 300Q400 50 600 300T1000 300",
	"M0 0L10 0L10 10ZM20 0L30 0L30 10Zm5 5l1 0l0 1z",
	"M0 0a20 12 30 0 1 10 5 20 12 30 0 1 10 5z",
}

func pow(b, e int) int64 {
	r := int64(1)
	for i := 0; i < e; i++ {
		r *= int64(b)
	}
	return r
}

func newPathFamily(thorough bool) *pathFamily {
	all := make([]int, nVariants)
	for i := range all {
		all[i] = i
	}
	var spells []spelling
	for s := spCanonical + 1; s < nSpellings; s++ {
		spells = append(spells, s)
	}
	canon := []spelling{spCanonical}
	f := &pathFamily{}
	kSem, kSpell := 3, 2
	if thorough {
		kSem, kSpell = 4, 3
	}
	// semantics: every sequence, every deviation, every variant, canonical spelling
	for k := 0; k <= kSem; k++ {
		f.blocks = append(f.blocks, pathBlock{k: k, allDevs: true, variants: all, spellings: canon})
	}
	// spellings: shorter sequences, every deviation, 3 variants, every non-canonical spelling
	for k := 0; k <= kSpell; k++ {
		f.blocks = append(f.blocks, pathBlock{k: k, allDevs: true, variants: []int{0, 3, 7}, spellings: spells})
	}
	// spellings on the longest sequences: no deviation, one rotating variant
	f.blocks = append(f.blocks, pathBlock{k: kSpell + 1, allDevs: false, variants: nil, spellings: spells})
	for i := range f.blocks {
		b := &f.blocks[i]
		b.nseq = pow(len(pathCmds), b.k)
		b.ndev = 1
		if b.allDevs {
			b.ndev = int64(4 + b.k)
		}
		b.start = f.total
		f.total += b.nseq * b.ndev
	}
	for _, d := range specialPaths {
		f.specials = append(f.specials, parseCanonical(d))
	}
	return f
}

func (f *pathFamily) name() string { return "paths" }
func (f *pathFamily) units() int64 { return f.total + int64(len(f.specials)) }

func (f *pathFamily) bounds() any {
	var bl []any
	var cases int64
	for _, b := range f.blocks {
		nv := len(b.variants)
		if b.variants == nil {
			nv = 1
		}
		var sn []string
		for _, s := range b.spellings {
			sn = append(sn, spellingNames[s])
		}
		n := b.nseq * b.ndev * int64(nv) * int64(len(b.spellings))
		cases += n
		bl = append(bl, map[string]any{"segments_after_initial_moveto": b.k, "sequences": b.nseq, "deviations": b.ndev, "variants": nv, "spellings": sn, "cases_upper_bound": n})
	}
	cases += int64(len(f.specials)) * int64(nSpellings)
	return map[string]any{"commands": string(pathCmds), "value_pool": pool, "arc_menu": arcMenu, "blocks": bl, "special_paths_in_every_spelling": specialPaths, "cases_upper_bound": cases}
}

func (f *pathFamily) decode(u int64) (b *pathBlock, seq int64, dev int) {
	k := len(f.blocks) - 1
	for k > 0 && f.blocks[k].start > u {
		k--
	}
	b = &f.blocks[k]
	u -= b.start
	return b, u / b.ndev, int(u % b.ndev)
}

// buildSegs returns the segments of (k, seq, dev, variant), or nil when the deviation does
// not apply (a second argument group on a closepath).
func buildSegs(k int, seq int64, dev int, v int) []seg {
	cmds := make([]byte, k)
	for j := k - 1; j >= 0; j-- {
		cmds[j] = pathCmds[seq%int64(len(pathCmds))]
		seq /= int64(len(pathCmds))
	}
	mk := func(c byte, p int, groups int) seg {
		n := nargs(c)
		s := seg{cmd: c}
		base := v + 3*p
		for g := 0; g < groups; g++ {
			if c == 'A' || c == 'a' {
				m := arcMenu[(v+p+g)%len(arcMenu)]
				s.args = append(s.args, m[0], m[1], m[2], m[3], m[4],
					pool[(base+2*g)%len(pool)], pool[(base+2*g+1)%len(pool)])
				continue
			}
			for i := 0; i < n; i++ {
				s.args = append(s.args, pool[(base+g*n+i)%len(pool)])
			}
		}
		return s
	}
	first := byte('M')
	if dev == 1 || dev == 3 {
		first = 'm'
	}
	g0 := 1
	if dev == 2 || dev == 3 {
		g0 = 2
	}
	segs := []seg{mk(first, 0, g0)}
	for j, c := range cmds {
		g := 1
		if dev == 4+j {
			if nargs(c) == 0 {
				return nil
			}
			g = 2
		}
		segs = append(segs, mk(c, j+1, g))
	}
	return segs
}

// pathFeatures computes feature tags from the input alone.
func pathFeatures(segs []seg, sp spelling, ref []refOp) []string {
	set := map[string]bool{}
	if sp != spCanonical {
		set["spell-"+spellingNames[sp]] = true
	}
	// closepath chain: a closepath that closes a sub-path started implicitly after a closepath
	sinceZ := -1 // -1: current sub-path was started by a moveto; >=0: started by a closepath, n drawing segments since
	for _, s := range segs {
		n := nargs(s.cmd)
		if n > 0 && len(s.args) > n {
			if s.cmd == 'A' || s.cmd == 'a' {
				set["arc-implicit-repeat"] = true
			}
		}
		switch s.cmd {
		case 'M', 'm':
			sinceZ = -1
		case 'Z', 'z':
			if sinceZ > 0 {
				set["closepath-chain"] = true
			}
			sinceZ = 0
		default:
			if sinceZ >= 0 {
				sinceZ++
			}
			if s.cmd == 'A' || s.cmd == 'a' {
				set["arc"] = true
				for g := 0; g*7 < len(s.args); g++ {
					if s.args[g*7] < 0 || s.args[g*7+1] < 0 {
						set["arc-negative-radius"] = true
					}
				}
			}
		}
	}
	for _, r := range ref {
		if r.k != rArc {
			continue
		}
		switch r.arc.class {
		case arcOmit:
			set["arc-identical-endpoints"] = true
		case arcLine:
			set["arc-zero-radius"] = true
		default:
			if r.arc.scaled {
				set["arc-radii-scaled"] = true
			}
		}
	}
	out := make([]string, 0, len(set))
	for k := range set {
		out = append(out, k)
	}
	sort.Strings(out)
	return out
}

func (f *pathFamily) run(u int64, ctx *engine.Ctx) {
	if u >= f.total {
		segs := f.specials[u-f.total]
		ref := interp(segs)
		for sp := spCanonical; sp < nSpellings; sp++ {
			runPathCase(ctx, segs, ref, sp)
		}
		return
	}
	b, seq, dev := f.decode(u)
	variants := b.variants
	if variants == nil {
		variants = []int{int(seq % nVariants)}
	}
	for _, v := range variants {
		segs := buildSegs(b.k, seq, dev, v)
		if segs == nil {
			continue
		}
		ref := interp(segs)
		for _, sp := range b.spellings {
			runPathCase(ctx, segs, ref, sp)
		}
	}
}

func pathDoc(d string) string {
	return `<svg xmlns="http://www.w3.org/2000/svg"><path fill="none" stroke="red" d="` + d + `"/></svg>`
}

func runPathCase(ctx *engine.Ctx, segs []seg, ref []refOp, sp spelling) {
	d := printPath(segs, sp)
	feats := pathFeatures(segs, sp, ref)
	desc := withFeat(fmt.Sprintf("path d=%q (%s spelling of %q)", d, spellingNames[sp], canonPath(segs)), feats)
	ctx.Trans(1)
	var r *rec
	var err error
	if !ctx.GuardFail(desc, feats, func() { r, err = render(pathDoc(d), 100, 100) }) {
		ctx.Case(true, "panic")
		return
	}
	if err != nil {
		ctx.Case(false, "rejected")
		ctx.Fail(engine.Failure{Clause: "path-accepted", Features: feats, Case: desc,
			Detail: "valid path data rejected: " + err.Error()})
		return
	}
	noteCalls(ctx, r)
	// reach counters
	for _, ro := range ref {
		switch ro.k {
		case rArc:
			ctx.Count("arc-"+map[arcClass]string{arcOmit: "identical-endpoints", arcLine: "zero-radius", arcEllipse: "ellipse"}[ro.arc.class], 1)
		case rZ:
			ctx.Count("closepath", 1)
		}
	}
	for _, ft := range feats {
		if ft == "closepath-chain" || ft == "arc-implicit-repeat" || ft == "arc-radii-scaled" {
			ctx.Count("feature:"+ft, 1)
		}
	}
	var pathOps []op
	for _, o := range r.ops {
		if o.k != opPaint && o.k != opClip {
			pathOps = append(pathOps, o)
		}
	}
	ctx.Case(len(pathOps) > 0, traceKey(r))
	for _, mm := range comparePath(ref, pathOps) {
		ctx.Fail(engine.Failure{Clause: mm.clause, Features: feats, Case: desc,
			Detail: mm.detail + "\nreference: " + refString(ref) + "\ngot:       " + copsString(fromImpl(pathOps))})
	}
}

func (f *pathFamily) describe(u int64) any {
	if u >= f.total {
		return map[string]any{"special_path": specialPaths[u-f.total], "spellings": "all"}
	}
	b, seq, dev := f.decode(u)
	v := 0
	if b.variants == nil {
		v = int(seq % nVariants)
	}
	segs := buildSegs(b.k, seq, dev, v)
	var sn []string
	for _, s := range b.spellings {
		sn = append(sn, spellingNames[s])
	}
	nv := len(b.variants)
	if nv == 0 {
		nv = 1
	}
	if segs == nil {
		return map[string]any{"skipped": "second argument group on a closepath"}
	}
	return map[string]any{"first_path": canonPath(segs), "deviation": dev, "variants": nv, "spellings": strings.Join(sn, ",")}
}
