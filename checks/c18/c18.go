// Package c18: SVG shapes and paths are drawn with the geometry SVG defines.
//
// Four families of cases, all enumerated exhaustively within stated bounds and all run through
// the real svg.Parse + (*SVGImage).Draw onto a recording backend:
//
//	(a) path data: every sequence of <= 3 (thorough 4) commands out of the 20 SVG path
//	    commands after an initial moveto, with deviations (relative initial moveto, implicit
//	    repetition of an argument group on one segment), 10 argument variants, printed in 9
//	    spellings; compared with an independent interpreter (exact for line/cubic/quadratic
//	    segments, geometric clauses for arcs);
//	(b) basic shapes against the outline the specification defines (two-sided Hausdorff
//	    distance between the drawn outline and the reference outline);
//	(c) viewBox x viewport x preserveAspectRatio against the SVG 2 §8.2 equivalent transform,
//	    observed as the transformation in effect when the content is drawn;
//	(d) reference graphs on <= 3 ids for use, gradient href, pattern, marker, clip-path, mask:
//	    must terminate without crashing and still draw the part that references nothing;
//	(e) every sequence of <= 3 (thorough 4) <use> instances of one definition: each instance
//	    (and the definition itself) is drawn as it is when alone.
package c18

import (
	"fmt"
	"io"
	"strings"

	"github.com/benoitkugler/webrender/logger"
	"github.com/benoitkugler/webrender/svg"

	"verif/internal/engine"
)

// family is an index-addressable sub-space.
type family interface {
	name() string
	units() int64
	run(u int64, ctx *engine.Ctx)
	describe(u int64) any
	bounds() any
}

type check struct {
	fams   []family
	starts []int64
}

func init() { engine.Register(&check{}) }

func (c *check) ID() string { return "C18" }

func (c *check) Init(tier string, seed int64) engine.Space {
	logger.WarningLogger.SetOutput(io.Discard)
	logger.ProgressLogger.SetOutput(io.Discard)
	thorough := tier == "thorough"
	c.fams = []family{
		newPathFamily(thorough),
		newShapeFamily(thorough),
		newViewboxFamily(thorough),
		newRefFamily(thorough),
		newUseFamily(thorough),
	}
	c.starts = c.starts[:0]
	var total int64
	bounds := map[string]any{}
	for _, f := range c.fams {
		c.starts = append(c.starts, total)
		total += f.units()
		bounds[f.name()] = f.bounds()
	}
	return engine.Space{
		Units: total, Chunk: 512, Level: "model_checking",
		Rule:   "five index-addressable families, simplest first: (a) path data = every command sequence up to the stated length after an initial moveto x deviations (relative initial moveto, second argument group on the initial moveto or on one segment) x argument variants x spellings; (b) every combination of the listed attribute values for rect/circle/ellipse/line/polyline/polygon; (c) every viewBox x viewport x preserveAspectRatio x placement (root / nested svg); (d) every directed graph on <= 3 ids (thorough: 4 for use and the single-reference kinds) plus a dangling id, per reference kind; (e) every definition x placement of the definition x sequence of <use> attribute sets up to the stated number of instances. A case is non-trivial when the image was accepted and path operations reached the backend, so that the geometry clauses were evaluated.",
		Bounds: bounds,
		Assumptions: []string{
			"coordinates outside the value pool {10,-5,2.5,0,7,0.5,-8,3,-0.5,4} and arc parameters outside the 10-entry menu behave like the listed ones",
			"only error-free path data is generated; error recovery ('render up to the first error') is not asserted",
			"closepath directly after closepath is not required to reach the backend; an explicit MoveTo to the sub-path start after ClosePath is accepted as well as none",
			"curves approximating elliptical arcs, circles and rounded corners are accepted within 1e-3 of the radius (the classical 4-curve circle is at 2.7e-4)",
			"rect rx/ry: negative values and 'auto' are outside the alphabet (SVG 1.1 and SVG 2 disagree); ellipse with a missing rx or ry likewise",
			"bounding boxes (gradient/pattern placement), text, images, filters and stroking parameters are not part of this property",
		},
	}
}

func (c *check) locate(u int64) (family, int64) {
	k := len(c.fams) - 1
	for k > 0 && c.starts[k] > u {
		k--
	}
	return c.fams[k], u - c.starts[k]
}

func (c *check) Run(u int64, ctx *engine.Ctx) {
	f, i := c.locate(u)
	f.run(i, ctx)
}

func (c *check) Describe(u int64) any {
	f, i := c.locate(u)
	return map[string]any{"family": f.name(), "unit": i, "cases": f.describe(i)}
}

// FeaturesOf recovers the feature tags of a case from its description (used by the master
// for cases that killed their worker). Every description ends with " #feat:a,b,c".
func (c *check) FeaturesOf(desc string) []string {
	i := strings.LastIndex(desc, " #feat:")
	if i < 0 {
		return nil
	}
	s := desc[i+len(" #feat:"):]
	if s == "" {
		return nil
	}
	return strings.Split(s, ",")
}

func withFeat(desc string, feats []string) string {
	return desc + " #feat:" + strings.Join(feats, ",")
}

// render parses and draws src onto a fresh recorder of the given size.
// It must be called inside a Guard.
func render(src string, w, h float64) (*rec, error) {
	img, err := svg.Parse(strings.NewReader(src), "", nil, nil)
	if err != nil {
		return nil, err
	}
	r := newRec()
	img.Draw(r, fl(w), fl(h), nil)
	return r, nil
}

// noteCalls keeps evidence that the backend call budget is far above what terminating cases need.
func noteCalls(ctx *engine.Ctx, r *rec) {
	if r != nil && r.calls > 1000 {
		ctx.Count("backend-calls-over-1000", 1)
	}
}

// traceKey is a canonical form of the recorded path operations (device space).
func traceKey(r *rec) string {
	if r == nil {
		return "rejected"
	}
	var sb strings.Builder
	for _, o := range r.ops {
		sb.WriteByte(byte(o.k))
		n := 0
		switch o.k {
		case opM, opL:
			n = 2
		case opC:
			n = 6
		case opRect:
			n = 4
		}
		for i := 0; i+1 < n || i < n; i += 2 {
			if i+1 < n {
				x, y := o.a[i], o.a[i+1]
				if o.k == opRect && i == 2 {
					// width/height: linear part only
					x, y = o.ctm.a*x+o.ctm.c*y, o.ctm.b*x+o.ctm.d*y
				} else {
					x, y = o.ctm.apply(x, y)
				}
				fmt.Fprintf(&sb, "%.3f,%.3f;", x, y)
			}
		}
	}
	return sb.String()
}
