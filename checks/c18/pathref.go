package c18

import (
	"fmt"
	"math"
	"strconv"
	"strings"
)

// ---- path model -------------------------------------------------------------------------

// seg is one path command with one or more argument groups.
type seg struct {
	cmd  byte
	args []float64 // len = groups * nargs(cmd); arc flags are 0/1
}

func nargs(c byte) int {
	switch c {
	case 'M', 'm', 'L', 'l', 'T', 't':
		return 2
	case 'H', 'h', 'V', 'v':
		return 1
	case 'C', 'c':
		return 6
	case 'S', 's', 'Q', 'q':
		return 4
	case 'A', 'a':
		return 7
	}
	return 0
}

// ---- reference interpreter (SVG 1.1 §8.3, SVG 2 §9.3, arcs: appendix F.6 / B.2) ---------------

type refKind byte

const (
	rM   refKind = 'M'
	rL   refKind = 'L'
	rC   refKind = 'C'
	rZ   refKind = 'Z'
	rArc refKind = 'A'
)

type refOp struct {
	k refKind
	a [6]float64 // M,L: x y ; C: x1 y1 x2 y2 x y
	// arcs
	arc arcRef
}

type arcClass byte

const (
	arcOmit    arcClass = 'o' // identical end points: the segment is omitted
	arcLine    arcClass = 'l' // a zero radius: straight line
	arcEllipse arcClass = 'e'
)

type arcRef struct {
	class          arcClass
	x1, y1, x2, y2 float64
	rx, ry, phi    float64 // corrected radii, rotation in radians
	cx, cy         float64
	theta1, dtheta float64
	scaled         bool // radii were too small and have been scaled up
}

// arcCenter implements the conversion from endpoint to center parameterization
// (SVG 1.1 F.6.5 and F.6.6).
func arcCenter(x1, y1, rx, ry, rotDeg float64, large, sweep bool, x2, y2 float64) arcRef {
	out := arcRef{x1: x1, y1: y1, x2: x2, y2: y2}
	if x1 == x2 && y1 == y2 {
		out.class = arcOmit
		return out
	}
	if rx == 0 || ry == 0 {
		out.class = arcLine
		return out
	}
	out.class = arcEllipse
	rx, ry = math.Abs(rx), math.Abs(ry)
	phi := rotDeg * math.Pi / 180
	cosp, sinp := math.Cos(phi), math.Sin(phi)
	dx, dy := (x1-x2)/2, (y1-y2)/2
	x1p := cosp*dx + sinp*dy
	y1p := -sinp*dx + cosp*dy
	lambda := x1p*x1p/(rx*rx) + y1p*y1p/(ry*ry)
	if lambda > 1 {
		s := math.Sqrt(lambda)
		rx *= s
		ry *= s
		out.scaled = true
	}
	num := rx*rx*ry*ry - rx*rx*y1p*y1p - ry*ry*x1p*x1p
	den := rx*rx*y1p*y1p + ry*ry*x1p*x1p
	co := 0.0
	if num > 0 && den > 0 {
		co = math.Sqrt(num / den)
	}
	if large == sweep {
		co = -co
	}
	cxp := co * rx * y1p / ry
	cyp := -co * ry * x1p / rx
	out.cx = cosp*cxp - sinp*cyp + (x1+x2)/2
	out.cy = sinp*cxp + cosp*cyp + (y1+y2)/2
	ang := func(ux, uy, vx, vy float64) float64 {
		return math.Atan2(ux*vy-uy*vx, ux*vx+uy*vy)
	}
	ux, uy := (x1p-cxp)/rx, (y1p-cyp)/ry
	vx, vy := (-x1p-cxp)/rx, (-y1p-cyp)/ry
	out.theta1 = ang(1, 0, ux, uy)
	d := ang(ux, uy, vx, vy)
	if !sweep && d > 0 {
		d -= 2 * math.Pi
	} else if sweep && d < 0 {
		d += 2 * math.Pi
	}
	if out.scaled || math.Abs(math.Abs(d)-math.Pi) < 1e-7 {
		// exactly half an ellipse: the sign comes from the sweep flag alone
		if sweep {
			d = math.Pi
		} else {
			d = -math.Pi
		}
	}
	out.dtheta = d
	out.rx, out.ry, out.phi = rx, ry, phi
	return out
}

// interp is the reference interpreter. It returns the expected operations.
func interp(segs []seg) []refOp {
	var out []refOp
	var cx, cy, sx, sy float64
	var pcx, pcy float64 // previous control point
	prev := byte(0)
	for _, s := range segs {
		n := nargs(s.cmd)
		rel := s.cmd >= 'a'
		up := s.cmd &^ 32
		if up == 'Z' {
			out = append(out, refOp{k: rZ})
			cx, cy = sx, sy
			prev = 'Z'
			continue
		}
		for g := 0; g*n < len(s.args); g++ {
			a := s.args[g*n : g*n+n]
			cmd := up
			if up == 'M' && g > 0 {
				cmd = 'L'
			}
			ax := func(i int) float64 {
				if rel {
					return cx + a[i]
				}
				return a[i]
			}
			ay := func(i int) float64 {
				if rel {
					return cy + a[i]
				}
				return a[i]
			}
			switch cmd {
			case 'M':
				x, y := ax(0), ay(1)
				out = append(out, refOp{k: rM, a: [6]float64{x, y}})
				cx, cy, sx, sy = x, y, x, y
			case 'L':
				x, y := ax(0), ay(1)
				out = append(out, refOp{k: rL, a: [6]float64{x, y}})
				cx, cy = x, y
			case 'H':
				x := ax(0)
				out = append(out, refOp{k: rL, a: [6]float64{x, cy}})
				cx = x
			case 'V':
				y := a[0]
				if rel {
					y += cy
				}
				out = append(out, refOp{k: rL, a: [6]float64{cx, y}})
				cy = y
			case 'C':
				x1, y1, x2, y2, x, y := ax(0), ay(1), ax(2), ay(3), ax(4), ay(5)
				out = append(out, refOp{k: rC, a: [6]float64{x1, y1, x2, y2, x, y}})
				pcx, pcy = x2, y2
				cx, cy = x, y
			case 'S':
				x1, y1 := cx, cy
				if prev == 'C' || prev == 'S' {
					x1, y1 = 2*cx-pcx, 2*cy-pcy
				}
				x2, y2, x, y := ax(0), ay(1), ax(2), ay(3)
				out = append(out, refOp{k: rC, a: [6]float64{x1, y1, x2, y2, x, y}})
				pcx, pcy = x2, y2
				cx, cy = x, y
			case 'Q':
				qx, qy, x, y := ax(0), ay(1), ax(2), ay(3)
				out = append(out, refOp{k: rC, a: [6]float64{cx + 2.0/3*(qx-cx), cy + 2.0/3*(qy-cy), x + 2.0/3*(qx-x), y + 2.0/3*(qy-y), x, y}})
				pcx, pcy = qx, qy
				cx, cy = x, y
			case 'T':
				qx, qy := cx, cy
				if prev == 'Q' || prev == 'T' {
					qx, qy = 2*cx-pcx, 2*cy-pcy
				}
				x, y := ax(0), ay(1)
				out = append(out, refOp{k: rC, a: [6]float64{cx + 2.0/3*(qx-cx), cy + 2.0/3*(qy-cy), x + 2.0/3*(qx-x), y + 2.0/3*(qy-y), x, y}})
				pcx, pcy = qx, qy
				cx, cy = x, y
			case 'A':
				x, y := ax(5), ay(6)
				out = append(out, refOp{k: rArc, arc: arcCenter(cx, cy, a[0], a[1], a[2], a[3] != 0, a[4] != 0, x, y)})
				cx, cy = x, y
			}
			prev = cmd
		}
	}
	return out
}

// ---- spellings --------------------------------------------------------------------------

type spelling int

const (
	spCanonical spelling = iota // M10 10L-5 2.5
	spWsp                       // blanks, tabs, newlines around everything
	spComma                     // commas between all numbers
	spCommaWsp                  // " , " / " ," / ", " separators
	spCompact                   // no separators where the grammar allows, .5 / -.5, glued arc flags
	spExpLower                  // every number with an exponent: 1e1, 25e-1
	spExpUpper                  // 1E1, 25E-1
	spExpPlus                   // 1e+1, .25e+1
	spPlusSign                  // +10, +2.5
	nSpellings
)

var spellingNames = [...]string{"canonical", "wsp", "comma", "comma-wsp", "compact", "exp-lower", "exp-upper", "exp-plus", "plus-sign"}

func fmtPlain(v float64) string { return strconv.FormatFloat(v, 'f', -1, 64) }

// fmtNoLeadingZero prints 0.5 as .5 and -0.5 as -.5
func fmtNoLeadingZero(v float64) string {
	s := fmtPlain(v)
	if strings.HasPrefix(s, "0.") {
		return s[1:]
	}
	if strings.HasPrefix(s, "-0.") {
		return "-" + s[2:]
	}
	return s
}

// fmtExp prints v as <integer mantissa>e<exp> (mantissa without fraction), e.g. 10 -> 1e1,
// 2.5 -> 25e-1, -5 -> -5e0, 0 -> 0e0
func fmtExp(v float64, e string, plus bool) string {
	if plus {
		// mantissa/10 with a positive exponent: 10 -> 1e+1, 2.5 -> .25e+1, -5 -> -.5e+1
		m := fmtNoLeadingZero(v / 10)
		if v == 0 {
			m = "0"
		}
		return m + e + "+1"
	}
	if v == 0 {
		return "0" + e + "0"
	}
	s := fmtPlain(v)
	neg := strings.HasPrefix(s, "-")
	s = strings.TrimPrefix(s, "-")
	exp := 0
	if i := strings.IndexByte(s, '.'); i >= 0 {
		exp = -(len(s) - i - 1)
		s = strings.TrimLeft(s[:i]+s[i+1:], "0")
	} else {
		for len(s) > 1 && strings.HasSuffix(s, "0") {
			s = s[:len(s)-1]
			exp++
		}
	}
	if neg {
		s = "-" + s
	}
	return s + e + strconv.Itoa(exp)
}

// printPath prints the segments in the given spelling.
func printPath(segs []seg, sp spelling) string {
	var sb strings.Builder
	wsps := []string{" ", "\t", "\n", "  "}
	cws := []string{" , ", " ,", ", ", ","}
	k := 0
	for _, s := range segs {
		if sp == spWsp {
			sb.WriteString(wsps[k%4])
			k++
		}
		sb.WriteByte(s.cmd)
		if sp == spWsp {
			sb.WriteString(wsps[k%4])
			k++
		}
		n := nargs(s.cmd)
		arc := s.cmd == 'A' || s.cmd == 'a'
		prevTok := "" // previous number token of this segment
		prevFlag := false
		for i, a := range s.args {
			flag := arc && (i%7 == 3 || i%7 == 4)
			var tok string
			switch {
			case flag:
				tok = fmtPlain(a)
			case sp == spCompact:
				tok = fmtNoLeadingZero(a)
			case sp == spExpLower:
				tok = fmtExp(a, "e", false)
			case sp == spExpUpper:
				tok = fmtExp(a, "E", false)
			case sp == spExpPlus:
				tok = fmtExp(a, "e", true)
			case sp == spPlusSign:
				tok = fmtPlain(a)
				if a >= 0 {
					tok = "+" + tok
				}
			default:
				tok = fmtPlain(a)
			}
			if i > 0 {
				switch sp {
				case spWsp:
					sb.WriteString(wsps[k%4])
					k++
				case spComma:
					sb.WriteByte(',')
				case spCommaWsp:
					sb.WriteString(cws[k%4])
					k++
				case spCompact:
					need := true
					switch {
					case prevFlag: // a flag is a single character: nothing can be glued to it
						need = false
					case flag:
						need = true
					case tok[0] == '-':
						need = false
					case tok[0] == '.' && strings.Contains(prevTok, "."):
						need = false
					}
					if need {
						sb.WriteByte(' ')
					}
				default:
					sb.WriteByte(' ')
				}
			}
			sb.WriteString(tok)
			prevTok, prevFlag = tok, flag
		}
		_ = n
	}
	if sp == spWsp {
		sb.WriteString(" ")
	}
	return sb.String()
}

func canonPath(segs []seg) string { return printPath(segs, spCanonical) }

// ---- comparison -------------------------------------------------------------------------

const epsExact = 1e-4

func near(a, b float64) bool { return math.Abs(a-b) <= epsExact }

// canonOps normalises an operation list with respect to closepath:
//   - a closepath directly following a closepath is dropped (closing an empty sub-path)
//   - a drawing operation directly following a closepath implicitly starts a new sub-path at
//     the start point of the closed one; the implicit moveto is made explicit
type cop struct {
	k refKind
	a [6]float64
}

func fromImpl(ops []op) []cop {
	var out []cop
	for _, o := range ops {
		switch o.k {
		case opM:
			out = append(out, cop{k: rM, a: o.a})
		case opL:
			out = append(out, cop{k: rL, a: o.a})
		case opC:
			out = append(out, cop{k: rC, a: o.a})
		case opZ:
			out = append(out, cop{k: rZ})
		case opRect:
			out = append(out, cop{k: 'R', a: o.a})
		}
	}
	return out
}

func (c cop) String() string {
	switch c.k {
	case rM, rL:
		return fmt.Sprintf("%c(%.4g %.4g)", c.k, c.a[0], c.a[1])
	case rC:
		return fmt.Sprintf("C(%.4g %.4g %.4g %.4g %.4g %.4g)", c.a[0], c.a[1], c.a[2], c.a[3], c.a[4], c.a[5])
	case 'R':
		return fmt.Sprintf("R(%.4g %.4g %.4g %.4g)", c.a[0], c.a[1], c.a[2], c.a[3])
	}
	return string(rune(c.k))
}

func copsString(l []cop) string {
	var sb strings.Builder
	for i, c := range l {
		if i > 0 {
			sb.WriteByte(' ')
		}
		sb.WriteString(c.String())
	}
	return sb.String()
}

func refString(l []refOp) string {
	var sb strings.Builder
	for i, r := range l {
		if i > 0 {
			sb.WriteByte(' ')
		}
		if r.k == rArc {
			a := r.arc
			switch a.class {
			case arcOmit:
				sb.WriteString("ARC(omitted)")
			case arcLine:
				fmt.Fprintf(&sb, "ARC(line to %.4g %.4g)", a.x2, a.y2)
			default:
				fmt.Fprintf(&sb, "ARC(c=%.4g,%.4g r=%.4g,%.4g phi=%.3g th1=%.3g dth=%.3g -> %.4g %.4g)", a.cx, a.cy, a.rx, a.ry, a.phi, a.theta1, a.dtheta, a.x2, a.y2)
			}
			continue
		}
		sb.WriteString(cop{k: r.k, a: r.a}.String())
	}
	return sb.String()
}

// mismatch describes a violated clause.
type mismatch struct {
	clause string
	detail string
}

// cubicAt evaluates a cubic Bézier.
func cubicAt(p0x, p0y float64, a [6]float64, t float64) (float64, float64) {
	u := 1 - t
	b0, b1, b2, b3 := u*u*u, 3*u*u*t, 3*u*t*t, t*t*t
	return b0*p0x + b1*a[0] + b2*a[2] + b3*a[4], b0*p0y + b1*a[1] + b2*a[3] + b3*a[5]
}

func distPointSeg(px, py, ax, ay, bx, by float64) float64 {
	dx, dy := bx-ax, by-ay
	l2 := dx*dx + dy*dy
	if l2 == 0 {
		return math.Hypot(px-ax, py-ay)
	}
	t := ((px-ax)*dx + (py-ay)*dy) / l2
	if t < 0 {
		t = 0
	} else if t > 1 {
		t = 1
	}
	return math.Hypot(px-(ax+t*dx), py-(ay+t*dy))
}

const (
	arcRadialTol = 1e-3 // relative distance to the ellipse, in the unit-circle space of the ellipse
	arcAngleTol  = 2e-2 // radians, on the total swept angle
	arcSamples   = 8
)

// matchArc consumes the implementation operations that draw the arc a, starting at impl[i]
// with current point (px,py). It returns the index after the consumed operations.
//
// maxN bounds the number of operations the arc may take. It is used for zero-radius arcs
// (straight lines): the operations that the rest of the reference needs at least are not
// available to the arc, which resolves the ambiguity between the line of the arc and an
// identical zero-length line that follows it when one of the two is missing.
func matchArc(a arcRef, impl []cop, i int, px, py float64, maxN int) (int, *mismatch) {
	if maxN < 0 {
		maxN = 0
	}
	if i+maxN < len(impl) {
		impl = impl[:i+maxN]
	}
	switch a.class {
	case arcOmit:
		// nothing has to be drawn; degenerate segments staying on the point are tolerated
		for i < len(impl) && degenerateAt(impl[i], a.x1, a.y1) {
			i++
		}
		return i, nil
	case arcLine:
		// a straight line from (x1,y1) to (x2,y2): LineTo, or curves lying on the segment
		start := i
		for i < len(impl) && (impl[i].k == rL || impl[i].k == rC) {
			c := impl[i]
			var ex, ey float64
			if c.k == rL {
				ex, ey = c.a[0], c.a[1]
				if distPointSeg(ex, ey, a.x1, a.y1, a.x2, a.y2) > 1e-3 {
					break
				}
			} else {
				ok := true
				for s := 1; s <= arcSamples; s++ {
					x, y := cubicAt(px, py, c.a, float64(s)/arcSamples)
					if distPointSeg(x, y, a.x1, a.y1, a.x2, a.y2) > 1e-3 {
						ok = false
					}
				}
				if !ok {
					break
				}
				ex, ey = c.a[4], c.a[5]
			}
			px, py = ex, ey
			i++
			if near(px, a.x2) && near(py, a.y2) {
				return i, nil
			}
		}
		got := "nothing"
		if i > start {
			got = copsString(impl[start:i])
		} else if i < len(impl) {
			got = "next op " + impl[i].String()
		}
		return i, &mismatch{"arc-zero-radius-line", fmt.Sprintf("an arc with a zero radius is a straight line to (%g,%g); got %s", a.x2, a.y2, got)}
	}
	// ellipse
	cosp, sinp := math.Cos(a.phi), math.Sin(a.phi)
	norm := func(x, y float64) (float64, float64) {
		dx, dy := x-a.cx, y-a.cy
		return (cosp*dx + sinp*dy) / a.rx, (-sinp*dx + cosp*dy) / a.ry
	}
	ux, uy := norm(px, py)
	lastAng := math.Atan2(uy, ux)
	acc := 0.0
	start := i
	for i < len(impl) && impl[i].k == rC {
		c := impl[i]
		for s := 1; s <= arcSamples; s++ {
			x, y := cubicAt(px, py, c.a, float64(s)/arcSamples)
			nx, ny := norm(x, y)
			if rho := math.Hypot(nx, ny); math.Abs(rho-1) > arcRadialTol || math.IsNaN(rho) {
				return i, &mismatch{"arc-on-ellipse", fmt.Sprintf("curve %d of the arc leaves the ellipse: point (%.5g,%.5g) at relative radius %.5f; curve %s from (%.5g,%.5g)", i-start+1, x, y, rho, c, px, py)}
			}
			ang := math.Atan2(ny, nx)
			d := ang - lastAng
			for d > math.Pi {
				d -= 2 * math.Pi
			}
			for d <= -math.Pi {
				d += 2 * math.Pi
			}
			acc += d
			lastAng = ang
		}
		px, py = c.a[4], c.a[5]
		i++
		if math.Abs(acc-a.dtheta) <= arcAngleTol {
			break
		}
		if math.Abs(acc) > math.Abs(a.dtheta)+arcAngleTol {
			break
		}
	}
	if i == start {
		got := "end of path"
		if i < len(impl) {
			got = impl[i].String()
		}
		return i, &mismatch{"arc-drawn", fmt.Sprintf("no curve drawn for the arc to (%g,%g): next op %s", a.x2, a.y2, got)}
	}
	if math.Abs(acc-a.dtheta) > arcAngleTol {
		return i, &mismatch{"arc-sweep", fmt.Sprintf("swept angle %.4f rad, expected %.4f rad (large-arc/sweep choice)", acc, a.dtheta)}
	}
	if !near(px, a.x2) || !near(py, a.y2) {
		return i, &mismatch{"arc-end-point", fmt.Sprintf("arc ends at (%.5g,%.5g), expected (%.5g,%.5g)", px, py, a.x2, a.y2)}
	}
	return i, nil
}

func degenerateAt(c cop, x, y float64) bool {
	switch c.k {
	case rL:
		return near(c.a[0], x) && near(c.a[1], y)
	case rC:
		return near(c.a[0], x) && near(c.a[1], y) && near(c.a[2], x) && near(c.a[3], y) && near(c.a[4], x) && near(c.a[5], y)
	}
	return false
}

// comparePath compares the implementation's operations with the reference. Closepath
// placement is compared separately from the drawing segments: the function returns at most
// one mismatch per clause family.
func comparePath(ref []refOp, implOps []op) []mismatch {
	impl := dropImplicitMoves(fromImpl(implOps))
	ref = dropImplicitMovesRef(ref)
	var out []mismatch
	var consumed []int // per non-closepath reference operation: implementation operations taken

	// 1. drawing segments, closepaths removed on both sides
	var r2 []refOp
	for _, r := range ref {
		if r.k != rZ {
			r2 = append(r2, r)
		}
	}
	var i2 []cop
	for _, c := range impl {
		if c.k != rZ {
			i2 = append(i2, c)
		}
	}
	// current point bookkeeping needs the closepaths: compute, for both lists, the current
	// point before each op from the reference (closepath moves it to the sub-path start)
	segOK := true
	{
		// need[k] = number of operations the reference operations after index k need at least
		need := make([]int, len(ref)+1)
		for k := len(ref) - 1; k >= 0; k-- {
			need[k] = need[k+1]
			switch {
			case ref[k].k == rZ, ref[k].k == rArc && ref[k].arc.class == arcOmit:
			default:
				need[k]++
			}
		}
		var px, py float64
		var sx, sy float64
		i := 0
		ri := 0
		consumed = consumed[:0]
		for rk, r := range ref {
			if r.k == rZ {
				px, py = sx, sy
				continue
			}
			ri++
			if r.k == rArc {
				maxN := len(i2) // elliptical arcs end by their own criterion (sweep and end point)
				if r.arc.class == arcLine {
					maxN = len(i2) - i - need[rk+1]
				}
				ni, mm := matchArc(r.arc, i2, i, px, py, maxN)
				if mm != nil {
					out = append(out, *mm)
					segOK = false
					break
				}
				consumed = append(consumed, ni-i)
				i = ni
				px, py = r.arc.x2, r.arc.y2
				continue
			}
			consumed = append(consumed, 1)
			if i >= len(i2) {
				out = append(out, mismatch{"segments", fmt.Sprintf("operation %d missing: expected %s", ri, cop{k: r.k, a: r.a})})
				segOK = false
				break
			}
			c := i2[i]
			same := c.k == r.k
			if same {
				n := 2
				if r.k == rC {
					n = 6
				}
				for j := 0; j < n; j++ {
					if !near(c.a[j], r.a[j]) {
						same = false
					}
				}
			}
			if !same {
				out = append(out, mismatch{"segments", fmt.Sprintf("operation %d: expected %s got %s", ri, cop{k: r.k, a: r.a}, c)})
				segOK = false
				break
			}
			i++
			switch r.k {
			case rM:
				px, py, sx, sy = r.a[0], r.a[1], r.a[0], r.a[1]
			case rL:
				px, py = r.a[0], r.a[1]
			case rC:
				px, py = r.a[4], r.a[5]
			}
		}
		if segOK && i < len(i2) {
			out = append(out, mismatch{"segments", fmt.Sprintf("%d unexpected extra operation(s): %s", len(i2)-i, copsString(i2[i:]))})
			segOK = false
		}
	}
	if !segOK {
		return out
	}

	// 2. closepath placement: the sequence of "number of drawing operations (L, C; arcs
	// counted through their end) since the previous closepath or moveto" is not comparable
	// when arcs expand to several curves, so compare the *pattern*: positions of closepaths
	// relative to reference segments. Because the drawing segments matched one to one above,
	// replay both lists in parallel.
	refPat := closePattern(ref, nil)
	implPat := closePatternImpl(ref, impl, consumed)
	if refPat != implPat {
		out = append(out, mismatch{"closepath", fmt.Sprintf("closepath placement: expected %s got %s (S = drawing segment, M = moveto, Z = closepath)", refPat, implPat)})
	}
	return out
}

// dropImplicitMoves removes a moveto that directly follows a closepath and targets the start
// point of the sub-path just closed: after a closepath the next sub-path starts there anyway
// (SVG 1.1 §8.3.3), so "Z L" and "Z M(start) L" describe the same path. The same
// normalisation is applied to the reference, so that an input spelling the moveto out compares
// equal as well.
func dropImplicitMoves(l []cop) []cop {
	out := l[:0:0]
	var sx, sy float64
	for i, c := range l {
		if c.k == rM {
			if i > 0 && l[i-1].k == rZ && near(c.a[0], sx) && near(c.a[1], sy) {
				continue
			}
			sx, sy = c.a[0], c.a[1]
		}
		out = append(out, c)
	}
	return out
}

func dropImplicitMovesRef(l []refOp) []refOp {
	out := l[:0:0]
	var sx, sy float64
	for i, c := range l {
		if c.k == rM {
			if i > 0 && l[i-1].k == rZ && near(c.a[0], sx) && near(c.a[1], sy) {
				continue
			}
			sx, sy = c.a[0], c.a[1]
		}
		out = append(out, c)
	}
	return out
}

// closePattern prints the reference as a string over {M,S,Z}, consecutive closepaths
// collapsed.
func closePattern(ref []refOp, _ []cop) string {
	var sb strings.Builder
	last := byte(0)
	for _, r := range ref {
		var ch byte
		switch r.k {
		case rM:
			ch = 'M'
		case rZ:
			ch = 'Z'
		case rArc:
			if r.arc.class == arcOmit {
				continue
			}
			ch = 'S'
		default:
			ch = 'S'
		}
		if ch == 'Z' && last == 'Z' {
			continue
		}
		sb.WriteByte(ch)
		last = ch
	}
	return sb.String()
}

// closePatternImpl prints the implementation operations in the same alphabet; the curves of
// one arc count as one segment. consumed gives, for each reference operation that is not a
// closepath, the number of implementation operations that matched it.
func closePatternImpl(ref []refOp, impl []cop, consumed []int) string {
	var sb strings.Builder
	last := byte(0)
	emit := func(ch byte) {
		if ch == 'Z' && last == 'Z' {
			return
		}
		sb.WriteByte(ch)
		last = ch
	}
	i := 0
	skipZ := func() {
		for i < len(impl) && impl[i].k == rZ {
			emit('Z')
			i++
		}
	}
	k := 0
	for _, r := range ref {
		if r.k == rZ {
			continue
		}
		skipZ()
		n := consumed[k]
		k++
		switch {
		case r.k == rM:
			emit('M')
		case r.k == rArc && r.arc.class == arcOmit:
		default:
			emit('S')
		}
		for n > 0 && i < len(impl) {
			if impl[i].k == rZ {
				emit('Z') // a closepath in the middle of the curves of an arc
			} else {
				n--
			}
			i++
		}
	}
	skipZ()
	return sb.String()
}
