package c18

import (
	"fmt"
	"sort"
	"strings"

	"verif/internal/engine"
)

// ---- family (d): reference graphs ------------------------------------------------------------
//
// n <= 3 definitions with ids a, b, c; each definition references a subset of {a, b, c, zz}
// (zz is never defined: a dangling reference); the document references a. For the kinds whose
// reference is a single attribute of the definition itself (gradient href, pattern href) the
// graph is functional: each definition references at most one id.
//
// Oracle: parsing and drawing terminate (no panic, no fatal error, backend call budget not
// exceeded) and the part of the image that references nothing - a rectangle placed before
// everything else - is still drawn and painted.

var refIDs = []string{"a", "b", "c", "d"}

const dangling = "zz"

type refKind2 struct {
	name       string
	functional bool
	maxN       int
}

type refBlock struct {
	kind   int
	n      int
	count  int64
	start  int64
	extras int // functional kinds: number of "has content/stops" bits (= n)
}

type refFamily struct {
	kinds  []refKind2
	blocks []refBlock
	total  int64
}

func newRefFamily(thorough bool) *refFamily {
	f := &refFamily{}
	fn := 3
	if thorough {
		fn = 4
	}
	f.kinds = []refKind2{
		{"use", false, fn}, {"gradient-href", true, fn}, {"pattern", false, 3}, {"pattern-href", true, fn},
		{"marker", false, 3}, {"clip-path", false, 3}, {"mask", false, 3},
	}
	for ki, k := range f.kinds {
		for n := 1; n <= k.maxN; n++ {
			b := refBlock{kind: ki, n: n, start: f.total}
			if k.functional {
				b.count = pow(n+2, n) * pow(2, n)
				b.extras = n
			} else {
				b.count = pow(2, n*(n+1))
			}
			f.total += b.count
			f.blocks = append(f.blocks, b)
		}
	}
	return f
}

func (f *refFamily) name() string { return "references" }
func (f *refFamily) units() int64 { return f.total }
func (f *refFamily) bounds() any {
	m := map[string]any{}
	for _, b := range f.blocks {
		k := f.kinds[b.kind]
		e, _ := m[k.name].(map[string]any)
		if e == nil {
			e = map[string]any{"functional_graph": k.functional}
			m[k.name] = e
		}
		e[fmt.Sprintf("graphs_on_%d_ids", b.n)] = b.count
	}
	m["ids"] = "a, b, c (d in the thorough tier for use and the functional kinds) + undefined id zz; the document references a"
	return m
}

// graph: edges[i] = targets of definition i, as indices (len(ids) = dangling)
type refGraph struct {
	kind    string
	n       int
	edges   [][]int
	content []bool // functional kinds: definition i has its own stops / content
}

func (f *refFamily) decode(u int64) refGraph {
	k := len(f.blocks) - 1
	for k > 0 && f.blocks[k].start > u {
		k--
	}
	b := f.blocks[k]
	u -= b.start
	g := refGraph{kind: f.kinds[b.kind].name, n: b.n, edges: make([][]int, b.n)}
	if f.kinds[b.kind].functional {
		g.content = make([]bool, b.n)
		for i := 0; i < b.n; i++ {
			g.content[i] = u%2 == 1
			u /= 2
		}
		for i := 0; i < b.n; i++ {
			c := int(u % int64(b.n+2)) // 0: none, 1..n: id, n+1: dangling
			u /= int64(b.n + 2)
			if c > 0 {
				g.edges[i] = []int{c - 1}
			}
		}
		return g
	}
	for i := 0; i < b.n; i++ {
		for t := 0; t <= b.n; t++ {
			if u%2 == 1 {
				g.edges[i] = append(g.edges[i], t)
			}
			u /= 2
		}
	}
	return g
}

func (g refGraph) id(t int) string {
	if t >= g.n {
		return dangling
	}
	return refIDs[t]
}

func (g refGraph) String() string {
	var parts []string
	for i, e := range g.edges {
		var ts []string
		for _, t := range e {
			ts = append(ts, g.id(t))
		}
		s := refIDs[i] + "->{" + strings.Join(ts, ",") + "}"
		if g.content != nil && g.content[i] {
			s += "*"
		}
		parts = append(parts, s)
	}
	return g.kind + " " + strings.Join(parts, " ")
}

// features of the graph, from the graph alone.
func (g refGraph) features() []string {
	set := map[string]bool{"ref-" + g.kind: true}
	// reachability from a (index 0)
	reach := make([]bool, g.n)
	var visit func(i int)
	danglingReach, danglingAny := false, false
	visit = func(i int) {
		if reach[i] {
			return
		}
		reach[i] = true
		for _, t := range g.edges[i] {
			if t >= g.n {
				danglingReach = true
				continue
			}
			visit(t)
		}
	}
	visit(0)
	for _, e := range g.edges {
		for _, t := range e {
			if t >= g.n {
				danglingAny = true
			}
		}
	}
	// cycles: length of the shortest cycle through each node
	cycleLen := func(s int) int {
		dist := map[int]int{}
		q := []int{}
		for _, t := range g.edges[s] {
			if t < g.n {
				if t == s {
					return 1
				}
				if _, ok := dist[t]; !ok {
					dist[t] = 1
					q = append(q, t)
				}
			}
		}
		for len(q) > 0 {
			x := q[0]
			q = q[1:]
			for _, t := range g.edges[x] {
				if t >= g.n {
					continue
				}
				if t == s {
					return dist[x] + 1
				}
				if _, ok := dist[t]; !ok {
					dist[t] = dist[x] + 1
					q = append(q, t)
				}
			}
		}
		return 0
	}
	anyCycle := false
	for i := 0; i < g.n; i++ {
		if l := cycleLen(i); l > 0 {
			anyCycle = true
			if reach[i] {
				set["cycle-reachable"] = true
				switch l {
				case 1:
					set["self-loop"] = true
				default:
					set[fmt.Sprintf("cycle-%d", l)] = true
				}
			} else {
				set["cycle-unreachable"] = true
			}
		}
	}
	if !anyCycle {
		set["acyclic"] = true
	}
	if danglingReach {
		set["dangling-reachable"] = true
	} else if danglingAny {
		set["dangling-unreachable"] = true
	}
	var out []string
	for k := range set {
		out = append(out, k)
	}
	sort.Strings(out)
	return out
}

const baseRect = `<rect width="3" height="4"/>`

func ref(id string) string { return "url(#" + id + ")" }

// doc builds the document of the graph.
func (g refGraph) doc() string {
	var defs strings.Builder
	var root string
	markerAttrs := []string{"marker-start", "marker-mid", "marker-end", "marker"}
	for i := 0; i < g.n; i++ {
		id := refIDs[i]
		e := g.edges[i]
		switch g.kind {
		case "use":
			fmt.Fprintf(&defs, `<g id="%s"><rect x="20" width="1" height="1"/>`, id)
			for j, t := range e {
				if j%2 == 0 {
					fmt.Fprintf(&defs, `<use xlink:href="#%s"/>`, g.id(t))
				} else {
					fmt.Fprintf(&defs, `<use href="#%s" x="1"/>`, g.id(t))
				}
			}
			defs.WriteString(`</g>`)
		case "gradient-href":
			tag := "linearGradient"
			if i == 1 {
				tag = "radialGradient"
			}
			fmt.Fprintf(&defs, `<%s id="%s"`, tag, id)
			if len(e) > 0 {
				fmt.Fprintf(&defs, ` href="#%s"`, g.id(e[0]))
			}
			defs.WriteString(`>`)
			if g.content[i] {
				defs.WriteString(`<stop offset="0" stop-color="red"/><stop offset="1" stop-color="blue"/>`)
			}
			fmt.Fprintf(&defs, `</%s>`, tag)
		case "pattern":
			fmt.Fprintf(&defs, `<pattern id="%s" width="4" height="4" patternUnits="userSpaceOnUse">`, id)
			if len(e) == 0 {
				defs.WriteString(`<rect width="2" height="2"/>`)
			}
			for j, t := range e {
				attr := "fill"
				if j%2 == 1 {
					attr = `fill="none" stroke`
				}
				fmt.Fprintf(&defs, `<rect x="%d" width="2" height="2" %s="%s"/>`, j, attr, ref(g.id(t)))
			}
			defs.WriteString(`</pattern>`)
		case "pattern-href":
			fmt.Fprintf(&defs, `<pattern id="%s" width="4" height="4" patternUnits="userSpaceOnUse"`, id)
			if len(e) > 0 {
				fmt.Fprintf(&defs, ` xlink:href="#%s"`, g.id(e[0]))
			}
			defs.WriteString(`>`)
			if g.content[i] {
				defs.WriteString(`<rect width="2" height="2"/>`)
			}
			defs.WriteString(`</pattern>`)
		case "marker":
			fmt.Fprintf(&defs, `<marker id="%s" markerWidth="2" markerHeight="2">`, id)
			if len(e) == 0 {
				defs.WriteString(`<path d="M0 0L1 1L2 0"/>`)
			}
			for j, t := range e {
				fmt.Fprintf(&defs, `<path d="M0 0L1 1L2 0" %s="%s"/>`, markerAttrs[(i+j)%len(markerAttrs)], ref(g.id(t)))
			}
			defs.WriteString(`</marker>`)
		case "clip-path":
			// the first reference sits on the clipPath element itself, the others on its children
			fmt.Fprintf(&defs, `<clipPath id="%s"`, id)
			rest := e
			if len(e) > 0 && i%2 == 0 {
				fmt.Fprintf(&defs, ` clip-path="%s"`, ref(g.id(e[0])))
				rest = e[1:]
			}
			defs.WriteString(`>`)
			if len(rest) == 0 {
				defs.WriteString(`<rect width="5" height="5"/>`)
			}
			for _, t := range rest {
				fmt.Fprintf(&defs, `<rect width="5" height="5" clip-path="%s"/>`, ref(g.id(t)))
			}
			defs.WriteString(`</clipPath>`)
		case "mask":
			fmt.Fprintf(&defs, `<mask id="%s">`, id)
			if len(e) == 0 {
				defs.WriteString(`<rect width="5" height="5" fill="white"/>`)
			}
			for _, t := range e {
				fmt.Fprintf(&defs, `<rect width="5" height="5" fill="white" mask="%s"/>`, ref(g.id(t)))
			}
			defs.WriteString(`</mask>`)
		}
	}
	switch g.kind {
	case "use":
		root = `<use href="#a"/>`
	case "gradient-href", "pattern", "pattern-href":
		root = `<rect x="20" width="8" height="8" fill="url(#a)"/>`
	case "marker":
		root = `<path d="M20 0L25 5L30 0" marker-start="url(#a)"/>`
	case "clip-path":
		root = `<rect x="20" width="8" height="8" clip-path="url(#a)"/>`
	case "mask":
		root = `<rect x="20" width="8" height="8" mask="url(#a)"/>`
	}
	return `<svg xmlns="http://www.w3.org/2000/svg" xmlns:xlink="http://www.w3.org/1999/xlink">` + baseRect + `<defs>` + defs.String() + `</defs>` + root + `</svg>`
}

func (f *refFamily) describe(u int64) any {
	g := f.decode(u)
	return map[string]any{"graph": g.String(), "document": g.doc()}
}

func (f *refFamily) run(u int64, ctx *engine.Ctx) {
	g := f.decode(u)
	feats := g.features()
	src := g.doc()
	desc := withFeat("references ["+g.String()+"] "+src, feats)
	ctx.Trans(1)
	ctx.Count("graphs:"+g.kind, 1)
	for _, ft := range feats {
		if strings.HasPrefix(ft, "cycle") || strings.HasPrefix(ft, "self") || strings.HasPrefix(ft, "dangling") {
			ctx.Count("graphs-with:"+ft, 1)
		}
	}
	var r *rec
	var err error
	pi, skipped := ctx.Guard(desc, func() { r, err = render(src, 100, 100) })
	if skipped {
		return
	}
	if pi != nil {
		ctx.Case(true, "panic")
		if strings.Contains(pi.Msg, "backend call budget exceeded") {
			ctx.Fail(engine.Failure{Clause: "reference-cycle-terminates", Features: feats, Case: desc,
				Detail: fmt.Sprintf("drawing did not finish within %d backend calls: the reference cycle is followed forever (the budget ran out in %s)", callBudget, pi.Site)})
		} else {
			ctx.Fail(engine.Failure{Clause: "panic", Site: pi.Site, Features: feats, Case: desc, Detail: pi.Msg})
		}
		return
	}
	if err != nil {
		ctx.Case(false, "rejected")
		ctx.Fail(engine.Failure{Clause: "reference-ignored", Features: feats, Case: desc,
			Detail: "the whole image is rejected instead of ignoring the reference: " + err.Error()})
		return
	}
	noteCalls(ctx, r)
	// the non-referencing part: Rectangle(0,0,3,4) followed by Paint, at top level
	base := false
	for i, o := range r.ops {
		if o.k == opRect && o.a == [6]float64{0, 0, 3, 4} && o.ctm == ident && i+1 < len(r.ops) && r.ops[i+1].k == opPaint {
			base = true
		}
	}
	ctx.Case(base, fmt.Sprintf("%s ops=%d groups=%d", g.kind, len(r.ops), r.groups))
	if !base {
		ctx.Fail(engine.Failure{Clause: "non-referencing-part-drawn", Features: feats, Case: desc,
			Detail: "the rectangle that references nothing was not drawn and painted; ops: " + copsString(fromImpl(r.ops))})
	}
}
