package c18

import (
	"fmt"
	"math"
	"sort"
	"strings"

	"verif/internal/engine"
)

// ---- family (c): viewBox x viewport x preserveAspectRatio --------------------------------------
//
// Oracle: SVG 2 §8.2 "equivalent transform of an SVG viewport" (= SVG 1.1 §7.7/7.8):
// the user space of the content is mapped by translate(tx,ty) scale(sx,sy) where
// sx = ew/vbw, sy = eh/vbh; align != none: meet -> both = min, slice -> both = max;
// tx = ex - vbx*sx, ty = ey - vby*sy, plus (ew - vbw*sx)/2 for xMid, (ew - vbw*sx) for xMax
// (same for y). A viewBox with zero width or height disables rendering of the element.
// Observed as the transformation in effect when the content rectangle is drawn.

type vbox struct {
	text       string
	x, y, w, h float64
}

var viewBoxes = []vbox{
	{"0 0 10 10", 0, 0, 10, 10},
	{"5 5 20 10", 5, 5, 20, 10},
	{"-5 -2.5 10 20", -5, -2.5, 10, 20},
	{"0,0,10,10", 0, 0, 10, 10},
	{"5,5 , 20 10", 5, 5, 20, 10},
	{"0 0 0 10", 0, 0, 0, 10},
	{"0 0 10 0", 0, 0, 10, 0},
}

var viewportsQuick = [][2]float64{{20, 20}, {40, 20}, {20, 40}}
var viewportsThorough = [][2]float64{{20, 20}, {40, 20}, {20, 40}, {10, 10}, {100, 30}, {7.5, 20}}

var viewBoxesThorough = []vbox{
	{"0 0 20 20", 0, 0, 20, 20},
	{"1e1 0 1e1 20", 10, 0, 10, 20},
	{" 0  0\t10 2.5 ", 0, 0, 10, 2.5},
	{"0 0 0 0", 0, 0, 0, 0},
}

var aligns = []string{"xMinYMin", "xMidYMin", "xMaxYMin", "xMinYMid", "xMidYMid", "xMaxYMid", "xMinYMax", "xMidYMax", "xMaxYMax"}

type viewboxFamily struct {
	pars      []string // preserveAspectRatio values, "" = absent
	boxes     []vbox
	viewports [][2]float64
	total     int64
}

func newViewboxFamily(thorough bool) *viewboxFamily {
	f := &viewboxFamily{boxes: viewBoxes, viewports: viewportsQuick}
	if thorough {
		f.boxes = append(append([]vbox(nil), viewBoxes...), viewBoxesThorough...)
		f.viewports = viewportsThorough
	}
	f.pars = append(f.pars, "", "none", "none slice")
	for _, a := range aligns {
		f.pars = append(f.pars, a, a+" meet", a+" slice")
	}
	// one unit = one (viewBox, viewport, placement); the unit loops over preserveAspectRatio
	f.total = int64(len(f.boxes) * len(f.viewports) * 2)
	return f
}

func (f *viewboxFamily) name() string { return "viewbox" }
func (f *viewboxFamily) units() int64 { return f.total }
func (f *viewboxFamily) bounds() any {
	var vb []string
	for _, v := range f.boxes {
		vb = append(vb, v.text)
	}
	return map[string]any{"viewBox": vb, "viewport": f.viewports, "preserveAspectRatio": f.pars, "placement": []string{"root svg (viewport = size given to Draw)", "nested svg x=5 y=2.5 width/height = viewport"},
		"cases": f.total * int64(len(f.pars))}
}

func (f *viewboxFamily) decode(u int64) (vb vbox, vp [2]float64, nested bool) {
	nested = u%2 == 1
	u /= 2
	vp = f.viewports[u%int64(len(f.viewports))]
	u /= int64(len(f.viewports))
	vb = f.boxes[u]
	return
}

// expectedViewTransform is the reference (SVG 2 §8.2).
func expectedViewTransform(vb vbox, ex, ey, ew, eh float64, par string) mat {
	align, mos := "xMidYMid", "meet"
	if par != "" {
		fs := strings.Fields(par)
		align = fs[0]
		if len(fs) > 1 {
			mos = fs[1]
		}
	}
	sx, sy := ew/vb.w, eh/vb.h
	if align != "none" {
		if mos == "slice" {
			sx = math.Max(sx, sy)
		} else {
			sx = math.Min(sx, sy)
		}
		sy = sx
	}
	tx, ty := ex-vb.x*sx, ey-vb.y*sy
	if align != "none" {
		switch align[1:4] {
		case "Mid":
			tx += (ew - vb.w*sx) / 2
		case "Max":
			tx += ew - vb.w*sx
		}
		switch align[5:8] {
		case "Mid":
			ty += (eh - vb.h*sy) / 2
		case "Max":
			ty += eh - vb.h*sy
		}
	}
	return mat{sx, 0, 0, sy, tx, ty}
}

func (f *viewboxFamily) build(vb vbox, vp [2]float64, nested bool, par string) (src string, want mat, disabled bool, feats []string, w, h float64) {
	set := map[string]bool{}
	pa := ""
	if par != "" {
		pa = ` preserveAspectRatio="` + par + `"`
	}
	zero := vb.w == 0 || vb.h == 0
	if zero {
		// rendering disabled whatever the alignment: keep the region coarse
	} else if par != "" {
		fs := strings.Fields(par)
		set["align-"+fs[0]] = true
		if len(fs) > 1 {
			set[fs[1]] = true
		}
	} else {
		set["par-absent"] = true
	}
	content := `<rect width="3" height="4"/>`
	if vb.w == 0 || vb.h == 0 {
		disabled = true
		set["viewbox-zero-size"] = true
	}
	if strings.Contains(vb.text, ",") {
		set["viewbox-commas"] = true
	}
	if vb.x != 0 || vb.y != 0 {
		set["viewbox-origin"] = true
	}
	if nested {
		set["nested-svg"] = true
		w, h = 100, 100
		src = fmt.Sprintf(`<svg xmlns="http://www.w3.org/2000/svg"><svg x="5" y="2.5" width="%g" height="%g" viewBox="%s"%s>%s</svg></svg>`, vp[0], vp[1], vb.text, pa, content)
		if !disabled {
			want = expectedViewTransform(vb, 5, 2.5, vp[0], vp[1], par)
		}
	} else {
		set["root-svg"] = true
		w, h = vp[0], vp[1]
		src = fmt.Sprintf(`<svg xmlns="http://www.w3.org/2000/svg" viewBox="%s"%s>%s</svg>`, vb.text, pa, content)
		if !disabled {
			want = expectedViewTransform(vb, 0, 0, vp[0], vp[1], par)
		}
	}
	if !disabled {
		r := (vp[0] / vb.w) / (vp[1] / vb.h)
		switch {
		case math.Abs(r-1) < 1e-9:
			set["same-aspect"] = true
		case r > 1:
			set["viewport-wider"] = true
		default:
			set["viewport-taller"] = true
		}
	}
	for k := range set {
		feats = append(feats, k)
	}
	sort.Strings(feats)
	return
}

func (f *viewboxFamily) describe(u int64) any {
	vb, vp, nested := f.decode(u)
	src, _, _, _, _, _ := f.build(vb, vp, nested, "")
	return map[string]any{"first": src, "viewport": vp, "preserveAspectRatio_values": len(f.pars)}
}

func (f *viewboxFamily) run(u int64, ctx *engine.Ctx) {
	vb, vp, nested := f.decode(u)
	for _, par := range f.pars {
		src, want, disabled, feats, w, h := f.build(vb, vp, nested, par)
		desc := withFeat(fmt.Sprintf("viewbox %s drawn at %gx%g", src, w, h), feats)
		ctx.Trans(1)
		var r *rec
		var err error
		if !ctx.GuardFail(desc, feats, func() { r, err = render(src, w, h) }) {
			ctx.Case(true, "panic")
			continue
		}
		if err != nil {
			ctx.Case(false, "rejected")
			ctx.Fail(engine.Failure{Clause: "viewbox-accepted", Features: feats, Case: desc, Detail: "valid document rejected: " + err.Error()})
			continue
		}
		noteCalls(ctx, r)
		// the content rectangle: Rectangle(0,0,3,4)
		var content *op
		for i := range r.ops {
			o := &r.ops[i]
			if o.k == opRect && o.a == [6]float64{0, 0, 3, 4} {
				content = o
			}
		}
		ctx.Case(content != nil, traceKey(r))
		if disabled {
			ctx.Count("viewbox-zero-size", 1)
			if content != nil {
				ctx.Fail(engine.Failure{Clause: "viewbox-zero-disables-rendering", Features: feats, Case: desc,
					Detail: fmt.Sprintf("a viewBox of zero width or height disables rendering of the element, but its content was drawn with transform %v", content.ctm)})
			}
			continue
		}
		if content == nil {
			ctx.Fail(engine.Failure{Clause: "viewbox-content-drawn", Features: feats, Case: desc, Detail: "the content rectangle was not drawn"})
			continue
		}
		ctx.Count("viewbox-transform-compared", 1)
		g := content.ctm
		d := math.Max(math.Max(math.Abs(g.a-want.a), math.Abs(g.b-want.b)), math.Max(math.Abs(g.c-want.c), math.Abs(g.d-want.d)))
		d = math.Max(d, math.Max(math.Abs(g.e-want.e), math.Abs(g.f-want.f)))
		if d > 1e-4 || math.IsNaN(d) {
			ctx.Fail(engine.Failure{Clause: "viewbox-transform", Features: feats, Case: desc,
				Detail: fmt.Sprintf("transform in effect for the content: got [%.5g %.5g %.5g %.5g %.5g %.5g], SVG 2 §8.2 gives [%.5g %.5g %.5g %.5g %.5g %.5g]", g.a, g.b, g.c, g.d, g.e, g.f, want.a, want.b, want.c, want.d, want.e, want.f)})
		}
	}
}
