package c16

// Reference painter: CSS 2.1 Appendix E evaluated over the element tree and the computed
// styles of the generated document. It does not look at the box tree of the implementation
// and shares no code with html/document/stacking.go.
//
// Construction (DESIGN Appendix A item 9): one pre-order walk assigns every element to its
// nearest stacking context (items of layers 3, 8, 9) or to its nearest painting root (floats
// of layer 5); lists are filled in pre-order, so "tree order" is the order of the lists and a
// stable sort by z-index gives (z-index, tree order). Pseudo stacking contexts (floats,
// positioned boxes with z-index:auto, inline-blocks) make only their non-positioned content
// atomic.

import (
	"fmt"
	"sort"
	"strings"
)

// ---- deviations -------------------------------------------------------------------------------

type dev uint8

const (
	dRel dev = iota
	dAbs
	dFloat
	dIBlock
	dInline
	dCell
	dZm2
	dZm1
	dZ0
	dZ1
	dZ2
	dOpacity
	dTransform
	dOverflow
	dOutline // border + outline of unique colours
	nDev
)

var devName = [nDev]string{"rel", "abs", "float", "iblock", "inline", "cell", "z-2", "z-1", "z0", "z1", "z2", "opacity", "transform", "overflow", "outline"}

var devCSS = [nDev]string{
	"position:relative", "position:absolute", "float:left", "display:inline-block", "display:inline", "display:table-cell",
	"z-index:-2", "z-index:-1", "z-index:0", "z-index:1", "z-index:2",
	"opacity:.5", "transform:translate(0)", "overflow:hidden", "",
}

func isZ(d dev) bool       { return d >= dZm2 && d <= dZ2 }
func isDisplay(d dev) bool { return d == dIBlock || d == dInline || d == dCell }

// kind = the set of deviations of one box (at most two), sorted.
type kind []dev

func (k kind) has(d dev) bool {
	for _, x := range k {
		if x == d {
			return true
		}
	}
	return false
}

func (k kind) String() string {
	if len(k) == 0 {
		return "static"
	}
	var p []string
	for _, d := range k {
		p = append(p, devName[d])
	}
	return strings.Join(p, "+")
}

func compatible(a, b dev) bool {
	if a == b {
		return false
	}
	if isZ(a) && isZ(b) {
		return false
	}
	if isDisplay(a) && isDisplay(b) {
		return false
	}
	if (a == dRel && b == dAbs) || (a == dAbs && b == dRel) {
		return false
	}
	return true
}

// allKinds: the empty kind, the 15 single deviations, the 91 compatible pairs (simplest first).
func allKinds() []kind {
	out := []kind{{}}
	for d := dev(0); d < nDev; d++ {
		out = append(out, kind{d})
	}
	for a := dev(0); a < nDev; a++ {
		for b := a + 1; b < nDev; b++ {
			if compatible(a, b) {
				out = append(out, kind{a, b})
			}
		}
	}
	return out
}

func kindByName(s string) kind {
	if s == "static" {
		return kind{}
	}
	var k kind
	for _, p := range strings.Split(s, "+") {
		found := false
		for d := dev(0); d < nDev; d++ {
			if devName[d] == p {
				k = append(k, d)
				found = true
			}
		}
		if !found {
			panic("c16: unknown deviation " + p)
		}
	}
	sort.Slice(k, func(i, j int) bool { return k[i] < k[j] })
	return k
}

// ---- events -----------------------------------------------------------------------------------

const (
	evBg = 'g'
	evBo = 'b'
	evTx = 't'
	evOl = 'o'
)

type ev struct {
	box int  // 1..4
	k   byte // evBg, evBo, evTx, evOl
}

func (e ev) String() string {
	n := map[byte]string{evBg: "bg", evBo: "bo", evTx: "tx", evOl: "ol"}[e.k]
	return n + boxName(e.box)
}

// glyphs: the text of box i (1-based) is glyphs[i-1]; boxes are named A…Z, then #27, #28…
const glyphs = "abcdefghijklmnopqrstuvwxyzABCDEFGHIJ"

func boxName(id int) string {
	if id >= 1 && id <= 26 {
		return string(rune('A' + id - 1))
	}
	return fmt.Sprintf("#%d", id)
}

func evString(l []ev) string {
	var sb strings.Builder
	for i, e := range l {
		if i > 0 {
			sb.WriteByte(' ')
		}
		sb.WriteString(e.String())
	}
	return sb.String()
}

// ---- model ------------------------------------------------------------------------------------

type mbox struct {
	id       int // 0 = the virtual root (html/body: root stacking context, no paint of its own)
	parent   *mbox
	children []*mbox
	kind     kind
	zover    *int // many-siblings family: the z-index value (any integer) declared on the box

	// computed style (CSS 2.1 §9.7 applied)
	positioned bool
	float      bool
	display    string // block | inline | inline-block | table-cell
	zint       bool   // positioned with an integer z-index
	z          int
	opacity    bool
	transform  bool // transform declared AND the element is transformable (not a non-replaced inline)
	overflow   bool // overflow:hidden declared AND the element is a block container
	outline    bool // border + outline

	realSC bool // root; positioned with integer z-index; opacity < 1; transform
	scLike bool // realSC, or overflow != visible (implementation choice; the statement demands atomicity)
	free   bool // scLike only because of overflow and not positioned: position in the parent not asserted
	pseudo bool // float / positioned z-index:auto / inline-block that is not scLike

	items  []*mbox // scLike only: positioned descendants and child contexts assigned to this context, pre-order
	floats []*mbox // painting roots only: non-positioned floats assigned to this root, pre-order
}

func (b *mbox) zlevel() int {
	if b.scLike && b.zint {
		return b.z
	}
	return 0
}

func (b *mbox) plain() bool { return !b.scLike && !b.pseudo }

// inSubtree reports whether x is b or a descendant of b.
func (b *mbox) contains(x *mbox) bool {
	for ; x != nil; x = x.parent {
		if x == b {
			return true
		}
	}
	return false
}

// pseudoAncestors counts the pseudo contexts between b and its nearest enclosing stacking context.
func (b *mbox) pseudoAncestors() int {
	n := 0
	for a := b.parent; a != nil && !a.scLike; a = a.parent {
		if a.pseudo {
			n++
		}
	}
	return n
}

type model struct {
	root  *mbox
	boxes []*mbox // index id-1, pre-order
}

// newModel builds the element tree. parents[i] is the index of the parent box of box i (-1 = body).
func newModel(parents []int, kinds []kind) *model { return newModelZ(parents, kinds, nil) }

// newModelZ: zs[i] != nil declares z-index:*zs[i] on box i (used instead of a z deviation).
func newModelZ(parents []int, kinds []kind, zs []*int) *model {
	m := &model{root: &mbox{id: 0, display: "block", realSC: true, scLike: true}}
	for i := range parents {
		b := &mbox{id: i + 1, kind: kinds[i]}
		if zs != nil {
			b.zover = zs[i]
		}
		m.boxes = append(m.boxes, b)
		p := m.root
		if parents[i] >= 0 {
			p = m.boxes[parents[i]]
		}
		b.parent = p
		p.children = append(p.children, b)
		b.compute()
	}
	assign(m.root, m.root, m.root)
	return m
}

func (b *mbox) compute() {
	k := b.kind
	abs := k.has(dAbs)
	b.positioned = abs || k.has(dRel)
	b.float = k.has(dFloat) && !abs // §9.7: position:absolute forces float:none
	b.display = "block"
	switch {
	case k.has(dInline):
		b.display = "inline"
	case k.has(dIBlock):
		b.display = "inline-block"
	case k.has(dCell):
		b.display = "table-cell"
	}
	if abs || b.float { // §9.7: display is blockified
		b.display = "block"
	}
	for _, d := range k {
		if isZ(d) {
			zi := map[dev]int{dZm2: -2, dZm1: -1, dZ0: 0, dZ1: 1, dZ2: 2}[d]
			if b.positioned { // z-index applies to positioned elements only
				b.zint, b.z = true, zi
			}
		}
	}
	if b.zover != nil && b.positioned {
		b.zint, b.z = true, *b.zover
	}
	b.opacity = k.has(dOpacity)
	b.transform = k.has(dTransform) && b.display != "inline" // transformable elements only
	b.overflow = k.has(dOverflow) && b.display != "inline"   // overflow applies to block containers
	b.outline = k.has(dOutline)
	b.realSC = b.zint || b.opacity || b.transform
	b.scLike = b.realSC || b.overflow
	b.free = b.overflow && !b.realSC && !b.positioned
	b.pseudo = !b.scLike && (b.positioned || b.float || b.display == "inline-block")
}

// assign: one pre-order walk. sc = nearest enclosing stacking context, root = nearest painting root.
func assign(n, sc, root *mbox) {
	for _, c := range n.children {
		switch {
		case c.scLike || c.positioned:
			sc.items = append(sc.items, c)
		case c.float:
			root.floats = append(root.floats, c)
		}
		nsc, nroot := sc, root
		if c.scLike {
			nsc, nroot = c, c
		} else if c.pseudo {
			nroot = c
		}
		assign(c, nsc, nroot)
	}
}

func own(b *mbox, out *[]ev) {
	if b.id == 0 {
		return
	}
	*out = append(*out, ev{b.id, evBg})
	if b.outline {
		*out = append(*out, ev{b.id, evBo})
	}
}

func text(b *mbox, out *[]ev) {
	if b.id != 0 {
		*out = append(*out, ev{b.id, evTx})
	}
}

// paint emits the Appendix E sequence (without outlines) of the painting root p.
func paint(p *mbox, out *[]ev) {
	inlineRoot := p.display == "inline"
	// 1, 2: background and borders of the element forming the context (block equivalents)
	if !inlineRoot {
		own(p, out)
	}
	var neg, zero, pos []*mbox
	for _, it := range p.items {
		switch z := it.zlevel(); {
		case z < 0:
			neg = append(neg, it)
		case z == 0:
			zero = append(zero, it)
		default:
			pos = append(pos, it)
		}
	}
	sort.SliceStable(neg, func(i, j int) bool { return neg[i].zlevel() < neg[j].zlevel() })
	sort.SliceStable(pos, func(i, j int) bool { return pos[i].zlevel() < pos[j].zlevel() })
	// 3: negative z-index child contexts
	for _, it := range neg {
		paint(it, out)
	}
	// 4: in-flow, non-positioned, block-level descendants: backgrounds and borders
	layer4(p, out)
	// 5: non-positioned floats
	for _, f := range p.floats {
		paint(f, out)
	}
	// 6, 7: inline content (the element itself when it is inline, then the line boxes of the
	// element and of its in-flow block-level descendants in tree order)
	if inlineRoot {
		own(p, out)
	}
	text(p, out)
	for _, c := range p.children {
		content(c, out)
	}
	// 8: positioned descendants with z-index auto/0 and child contexts at level 0, tree order
	for _, it := range zero {
		paint(it, out)
	}
	// 9: positive z-index child contexts
	for _, it := range pos {
		paint(it, out)
	}
}

func layer4(n *mbox, out *[]ev) {
	cs := n.children
	for i := 0; i < len(cs); i++ {
		c := cs[i]
		if c.display == "table-cell" {
			// consecutive table-cell siblings share one anonymous table (CSS 2.1 §17.2.1); the table
			// is painted as a unit at its tree position: all cell backgrounds, then all cell borders
			j := i
			for j < len(cs) && cs[j].display == "table-cell" {
				j++
			}
			run := cs[i:j]
			for _, r := range run {
				if r.plain() {
					*out = append(*out, ev{r.id, evBg})
				}
			}
			for _, r := range run {
				if r.plain() && r.outline {
					*out = append(*out, ev{r.id, evBo})
				}
			}
			for _, r := range run {
				if r.plain() {
					layer4(r, out)
				}
			}
			i = j - 1
			continue
		}
		if !c.plain() {
			continue
		}
		if c.display == "block" {
			own(c, out)
			layer4(c, out)
		}
		// plain inline boxes: no block-level in-flow descendants inside the alphabet
	}
}

func content(c *mbox, out *[]ev) {
	if c.scLike || (c.pseudo && (c.positioned || c.float)) {
		return // painted in another layer
	}
	if c.pseudo { // inline-block: atomic, in place
		paint(c, out)
		return
	}
	if c.display == "inline" {
		own(c, out)
	}
	text(c, out)
	for _, ch := range c.children {
		content(ch, out)
	}
}

// expected returns the reference sequence of background, border and text events.
func (m *model) expected() []ev {
	var out []ev
	paint(m.root, &out)
	return out
}

// outside names the reason why an arrangement is outside the modelled region ("" = inside):
//   - an in-flow block-level or table-cell child of a display:inline box (the inline box would be split);
//   - transform or overflow on a display:inline box: neither property applies to non-replaced inline
//     boxes, and whether such a box nevertheless forms a stacking context is not settled by the
//     specifications (CSS Transforms 1 §3 vs "Applies to: transformable elements"); not asserted.
func (m *model) outside() string {
	for _, b := range m.boxes {
		if b.display == "inline" && (b.kind.has(dTransform) || b.kind.has(dOverflow)) {
			return "transform-or-overflow-on-inline-box"
		}
	}
	for _, b := range m.boxes {
		if b.parent.id != 0 && b.parent.display == "inline" {
			if !(b.display == "inline" || b.display == "inline-block" || b.float || b.kind.has(dAbs)) {
				return "in-flow-block-inside-inline"
			}
		}
	}
	return ""
}

// reach names the Appendix E situations the arrangement exercises (for the evidence's reach counters).
func (m *model) reach() []string {
	set := map[string]bool{}
	all := append([]*mbox{m.root}, m.boxes...)
	for _, b := range all {
		zs := map[int]int{}
		for ii, it := range b.items {
			z := it.zlevel()
			zs[z]++
			switch {
			case z < 0:
				set["layer 3 (negative context)"] = true
			case z > 0:
				set["layer 9 (positive context)"] = true
			default:
				set["layer 8 (positioned auto / level 0)"] = true
			}
			// assigned to a context that is not the nearest painting root: hoisted out of a pseudo context
			for a := it.parent; a != b; a = a.parent {
				if a.pseudo {
					set["positioned descendant hoisted out of a pseudo context"] = true
				}
			}
			if n := it.pseudoAncestors(); n >= 1 {
				if n >= 2 {
					set["positioned descendant hoisted out of two nested pseudo contexts"] = true
				}
				// the list of the real context is not empty when the hoisted box is inserted, and the
				// earlier item is not one of its own pseudo ancestors: the insertion index matters
				for _, e := range b.items[:ii] {
					if !e.contains(it) {
						set["hoisted positioned descendant inserted after an earlier item of the same context"] = true
						if it.zlevel() == e.zlevel() {
							set["hoisted positioned descendant tied with an earlier item of the same context"] = true
						}
					}
				}
			}
		}
		npos, nneg, tiePos, tieNeg := 0, 0, false, false
		for z, n := range zs {
			if z > 0 {
				npos += n
				tiePos = tiePos || n >= 2
			}
			if z < 0 {
				nneg += n
				tieNeg = tieNeg || n >= 2
			}
		}
		if (npos >= 13 && tiePos) || (nneg >= 13 && tieNeg) {
			set["tie among ≥ 13 child contexts of one sign (beyond the insertion-sort range of sort.Slice)"] = true
		}
		for z, n := range zs {
			if n >= 2 && z < 0 {
				set["tie among negative z-index contexts"] = true
			}
			if n >= 2 && z > 0 {
				set["tie among positive z-index contexts"] = true
			}
			if n >= 2 && z == 0 {
				set["several items in layer 8"] = true
			}
		}
		if len(zs) >= 3 {
			set["three distinct z levels in one context"] = true
		}
		if len(b.floats) > 0 {
			set["layer 5 (float)"] = true
		}
		if b.id != 0 && b.pseudo && b.display == "inline-block" {
			set["inline-block painted atomically in the inline layer"] = true
		}
		if b.id != 0 && b.plain() {
			set["plain "+b.display+" box"] = true
		}
		if b.free {
			set["overflow unit with free position"] = true
		}
	}
	var out []string
	for k := range set {
		out = append(out, k)
	}
	sort.Strings(out)
	return out
}
