// Package c16: boxes are painted in CSS stacking order.
//
// Bounded exhaustive enumeration of arrangements of 2–4 coloured boxes × per-box deviations
// (position, float, display, z-index, opacity, transform, overflow, border+outline, table cell),
// preceded by three small families: many tied siblings of one context, boxes fragmented over a page
// break (paged.go: the continuation of an earlier box and the later boxes of its layer), and nested dispatch (one kind
// per branch of the dispatch closure of stacking.go on the arrangements with two and more levels of
// nesting: positioned boxes inside nested fake contexts with earlier items in the real context).
// Every document is rendered by the real pipeline onto the recording backend; the sequence of
// fill colours (Paint) and texts (DrawText) is compared with a CSS 2.1 Appendix E reference
// painter that works on the element tree and the computed styles only (ref.go).
package c16

import (
	"fmt"
	"os"
	"sort"
	"strings"

	"verif/internal/engine"
	"verif/internal/rec"
	"verif/internal/render"
)

type sub struct {
	many   []manyCase  // the many-siblings family (shapes and lists unused)
	paged  []pagedCase // the paged family (shapes and lists unused)
	name   string
	shapes [][]int  // parent vectors (pre-order forests under body)
	lists  [][]kind // menu of kinds per box
	size   int64
	start  int64
}

type check struct {
	subs  []*sub
	units int64
}

func init() { engine.Register(&check{}) }

func (c *check) ID() string { return "C16" }

// ---- shapes -----------------------------------------------------------------------------------

// shapes returns every pre-order forest of n boxes as parent vectors (−1 = child of body) whose
// nesting depth is at most maxDepth.
func shapes(n, maxDepth int) [][]int {
	var out [][]int
	var rec func(p []int)
	depth := func(p []int, i int) int {
		d := 0
		for p[i] >= 0 {
			i = p[i]
			d++
		}
		return d
	}
	rec = func(p []int) {
		if len(p) == n {
			out = append(out, append([]int(nil), p...))
			return
		}
		if len(p) == 0 {
			rec([]int{-1})
			return
		}
		// the parent of the next box in pre-order is body or any box on the chain from the last box up.
		// simplest first: flat before nested
		var chain []int
		for a := len(p) - 1; a >= 0; a = p[a] {
			chain = append(chain, a)
		}
		cands := []int{-1}
		for i := len(chain) - 1; i >= 0; i-- {
			cands = append(cands, chain[i])
		}
		for _, a := range cands {
			q := append(append([]int(nil), p...), a)
			if depth(q, len(q)-1) <= maxDepth {
				rec(q)
			}
		}
	}
	rec(nil)
	return out
}

// deeper returns the shapes of l whose nesting depth is at least minDepth.
func deeper(l [][]int, minDepth int) [][]int {
	var out [][]int
	for _, p := range l {
		max := 0
		for i := range p {
			d := 0
			for a := p[i]; a >= 0; a = p[a] {
				d++
			}
			if d > max {
				max = d
			}
		}
		if max >= minDepth {
			out = append(out, p)
		}
	}
	return out
}

func shapeString(p []int) string {
	var sb strings.Builder
	var w func(i int)
	w = func(i int) {
		sb.WriteByte(byte('A' + i))
		first := true
		for j := range p {
			if p[j] == i {
				if first {
					sb.WriteByte('(')
					first = false
				}
				w(j)
			}
		}
		if !first {
			sb.WriteByte(')')
		}
	}
	for j := range p {
		if p[j] == -1 {
			w(j)
		}
	}
	return sb.String()
}

// ---- kind menus -------------------------------------------------------------------------------

func kindsOf(names ...string) []kind {
	var out []kind
	for _, n := range names {
		out = append(out, kindByName(n))
	}
	return out
}

var (
	core16 = []string{"static", "rel", "abs", "float", "iblock", "inline", "cell", "opacity", "transform", "overflow", "outline",
		"rel+z-1", "rel+z0", "rel+z1", "rel+z2", "abs+z1"}
	// one kind per branch of the dispatch closure of NewStackingContextFromBox: plain block (hoisting passes
	// through), positioned z-index:auto (in flow / through the AbsolutePlaceholder alias), float, inline-block
	// (the three "fake" contexts that hand the list of the enclosing real context down), and the two ways of being
	// a real context at level 0 (so that the items tie with each other: their order is tree order alone), plus one
	// negative level (an item that lands in the list of the wrong context is painted in the wrong layer)
	branch8 = []string{"static", "rel", "abs", "float", "iblock", "opacity", "rel+z0", "rel+z-1"}
	chain6  = []string{"static", "rel", "float", "iblock", "opacity", "rel+z-1"}
	small8  = []string{"static", "rel", "float", "iblock", "opacity", "rel+z-1", "rel+z0", "rel+z1"}
	mid12   = []string{"static", "rel", "abs", "float", "iblock", "inline", "opacity", "overflow", "rel+z-1", "rel+z0", "rel+z1", "rel+z2"}
	mid32   = []string{"static", "rel", "abs", "float", "iblock", "inline", "cell", "z-2", "z-1", "z0", "z1", "z2", "opacity", "transform", "overflow", "outline",
		"rel+z-2", "rel+z-1", "rel+z0", "rel+z1", "rel+z2", "abs+z-1", "abs+z0", "abs+z1",
		"rel+float", "z1+opacity", "rel+opacity", "rel+overflow", "float+overflow", "iblock+opacity", "inline+opacity", "rel+inline"}
)

func minus(all []kind, drop []kind) []kind {
	d := map[string]bool{}
	for _, k := range drop {
		d[k.String()] = true
	}
	var out []kind
	for _, k := range all {
		if !d[k.String()] {
			out = append(out, k)
		}
	}
	return out
}

func rep(l []kind, n int) [][]kind {
	out := make([][]kind, n)
	for i := range out {
		out[i] = l
	}
	return out
}

func (c *check) build(tier string) {
	all := allKinds()
	c.subs = nil
	add := func(name string, sh [][]int, lists [][]kind) {
		s := &sub{name: name, shapes: sh, lists: lists, size: int64(len(sh))}
		for _, l := range lists {
			s.size *= int64(len(l))
		}
		c.subs = append(c.subs, s)
	}
	// Small families first: a run cut by its deadline loses the tail of the order, never these.
	// (1) many-siblings family: ties among ≥ 13 child contexts of one sign in one context
	ms := manyCases()
	c.subs = append(c.subs, &sub{name: "many siblings: n ∈ {13,14,16,20,33} positioned siblings of one stacking context × z-index patterns with ties × {absolute, relative} × {children of the root context, children of a positioned z-index:0 box}", many: ms, size: int64(len(ms))})
	// (1b) paged family: boxes fragmented over a page break; the continuation of an earlier box and later boxes
	pgs := pagedCases()
	c.subs = append(c.subs, &sub{name: "paged: body > A B <forced page break> C on 100px pages, A and/or B with 130px of breakable content (split over the page break) × 10 kinds per box", paged: pgs, size: int64(len(pgs))})
	// (2) nested-dispatch family: the kinds that take one branch each of the dispatch closure, on every
	// arrangement of 3 boxes and on every arrangement of 4 boxes with two or three levels of nesting: a
	// positioned / context-forming box inside one or two nested fake contexts (positioned z-index:auto, float,
	// inline-block) or plain boxes, with and without earlier and later items in the same real stacking context
	b8 := kindsOf(branch8...)
	add("nested dispatch: 3 boxes, 8 dispatch-branch kinds", shapes(3, 2), rep(b8, 3))
	add("nested dispatch: 4 boxes, two or three levels of nesting, 8 dispatch-branch kinds", deeper(shapes(4, 3), 2), rep(b8, 4))
	if tier == "thorough" {
		add("nested dispatch: 5 boxes, two to four levels of nesting, 6 kinds", deeper(shapes(5, 4), 2), rep(kindsOf(chain6...), 5))
	}
	add("2 boxes, every kind (≤ 2 deviations per box)", shapes(2, 1), rep(all, 2))
	if tier == "thorough" {
		m32, c16k := kindsOf(mid32...), kindsOf(core16...)
		add("3 boxes, 32 kinds", shapes(3, 2), rep(m32, 3))
		rest := minus(all, m32)
		for j := 0; j < 3; j++ {
			l := rep(c16k, 3)
			l[j] = rest
			add(fmt.Sprintf("3 boxes, box %c any of the other %d kinds, the others 16 core kinds", 'A'+j, len(rest)), shapes(3, 2), l)
		}
		add("4 boxes, 12 kinds", shapes(4, 3), rep(kindsOf(mid12...), 4))
	} else {
		add("3 boxes, 16 core kinds", shapes(3, 2), rep(kindsOf(core16...), 3))
		add("4 boxes, 8 kinds, one level of nesting", shapes(4, 1), rep(kindsOf(small8...), 4))
	}
	// development aid: VERIF_C16_SUBS=paged,many restricts the run to the sub-spaces whose name starts with
	// one of the given words (reported in the bounds)
	if only := os.Getenv("VERIF_C16_SUBS"); only != "" {
		var keep []*sub
		for _, s := range c.subs {
			for _, w := range strings.Split(only, ",") {
				if strings.HasPrefix(s.name, w) {
					keep = append(keep, s)
					break
				}
			}
		}
		c.subs = keep
	}
	c.units = 0
	for _, s := range c.subs {
		s.start = c.units
		c.units += s.size
	}
}

func (c *check) Init(tier string, seed int64) engine.Space {
	c.build(tier)
	var bs []map[string]any
	for _, s := range c.subs {
		var sh []string
		for _, p := range s.shapes {
			sh = append(sh, shapeString(p))
		}
		var menus [][]string
		for i, l := range s.lists {
			if i > 0 && len(l) == len(s.lists[i-1]) && len(l) > 0 && l[len(l)-1].String() == s.lists[i-1][len(l)-1].String() {
				menus = append(menus, []string{"same as previous box"})
				continue
			}
			var names []string
			for _, k := range l {
				names = append(names, k.String())
			}
			menus = append(menus, names)
		}
		if s.many != nil {
			var pats []string
			for _, p := range manyPatterns {
				pats = append(pats, p.name)
			}
			bs = append(bs, map[string]any{"name": s.name, "sibling_counts": manyN, "z_patterns": pats, "cases": s.size})
			continue
		}
		if s.paged != nil {
			bs = append(bs, map[string]any{"name": s.name, "kinds_per_box": paged10, "tall_boxes": []string{"A", "B", "A and B"}, "cases": s.size})
			continue
		}
		bs = append(bs, map[string]any{"name": s.name, "shapes": sh, "kinds_per_box": menus, "cases": s.size})
	}
	return engine.Space{
		Units: c.units, Chunk: 48, Level: "model_checking", CaseCPUs: 8,
		Rule: "sub-spaces in the listed order, the small families first (a run cut by its deadline loses the tail of the order): (family many-siblings: every listed sibling count × z-index pattern × positioning × nesting; expected order = stable sort by z-index, tree order among ties) + (family paged: three sibling boxes A B C of every kind of a 10-kind menu, a forced page break before C, A and/or B holding breakable content taller than the page: on every page the paint events present follow the Appendix E order of the whole document, so the continuation of an earlier box precedes the later boxes of its layer) + (family nested dispatch: one kind per branch of the dispatch closure of NewStackingContextFromBox on every arrangement of 3 boxes and every arrangement of 4 (thorough: 5) boxes with ≥ 2 levels of nesting: positioned and context-forming boxes inside nested fake contexts, with earlier and later items of the same real stacking context, levels 0 (ties) and −1) + deviation-bounded product: every arrangement (pre-order forest of 2–4 boxes under body) × every assignment of a kind (set of ≤ 2 deviations from the menu) to every box, kinds listed simplest first; arrangements with an in-flow block-level child of a display:inline box are outside the alphabet and skipped (counted); a case is non-trivial when the Appendix E order differs from document order; transitions = edges of the deviation lattice (deviations present in the case)",
		Bounds: map[string]any{
			"restricted_to_sub_spaces(dev)": os.Getenv("VERIF_C16_SUBS"),
			"deviation_menu":                devName[:], "deviation_css": devCSS[:], "sub_spaces": bs, "max_deviations_per_box": 2,
		},
		Assumptions: []string{
			"one page (except the paged family: two to four pages; which fragment of a box lies on which page is read from the pages, not predicted), LTR, Ahem 10px; no explicit sizes and white-space:nowrap: no line is ever broken, so each inline box is one fragment (calibration: without nowrap an inline box holding an inline-block inside two nested shrink-to-fit absolute boxes is split over two lines and paints its background twice)",
			"the position (layer) of a box that is a stacking context only because of overflow:hidden and is not positioned is not asserted (implementation choice): only its atomicity and the order inside and outside it",
			"outlines: only the per-box order (after the box's own background, border and text), their presence and their atomicity are asserted, not their position among other boxes (Appendix E allows step 10 or in place)",
			"in-flow block-level children of display:inline boxes, block-in-inline splitting and inline boxes broken over lines are outside the alphabet",
			"tables: only anonymous tables around table-cell boxes (cell backgrounds, then cell borders, then cell content)",
		},
	}
}

// ---- cases ------------------------------------------------------------------------------------

type acase struct {
	sub     *sub
	parents []int
	kinds   []kind
	// many-siblings family only
	many  *manyCase
	paged *pagedCase // paged family only
	zs    []*int     // declared z-index per box (nil = none)
	extra []string   // extra declarations per box
}

// ---- many-siblings family -----------------------------------------------------------------------

type manyPattern struct {
	name string
	z    func(i, n int) int
}

var manyN = []int{13, 14, 16, 20, 33}

var manyPatterns = []manyPattern{
	{"all equal 1", func(i, n int) int { return 1 }},
	{"all equal -1", func(i, n int) int { return -1 }},
	{"cyclic 1,2,3", func(i, n int) int { return i%3 + 1 }},
	{"cyclic -1,-2,-3", func(i, n int) int { return -(i%3 + 1) }},
	{"alternating 2,1", func(i, n int) int { return 2 - i%2 }},
	{"alternating -1,-2", func(i, n int) int { return -1 - i%2 }},
	{"descending with repeats", func(i, n int) int { return (n-1-i)/3 + 1 }},
	{"descending with repeats, negative", func(i, n int) int { return -(i/3 + 1) }},
	{"ascending with repeats", func(i, n int) int { return i/2 + 1 }},
	{"one low value last among equals", func(i, n int) int {
		if i == n-1 {
			return 1
		}
		return 2
	}},
	{"one high value first among equals", func(i, n int) int {
		if i == 0 {
			return 3
		}
		return 2
	}},
	{"squares mod 4, positive", func(i, n int) int { return (i*i)%4 + 1 }},
	{"squares mod 5, negative", func(i, n int) int { return -((i*i)%5 + 1) }},
	{"mixed sign -1,1,1,2", func(i, n int) int { return []int{-1, 1, 1, 2}[i%4] }},
	{"mixed sign 2,-1,-1,-2,1,-1", func(i, n int) int { return []int{2, -1, -1, -2, 1, -1}[i%6] }},
	{"mixed sign with 0: 1,0,-1,1,-1,-1,1", func(i, n int) int { return []int{1, 0, -1, 1, -1, -1, 1}[i%7] }},
}

type manyCase struct {
	n, pat int
	abs    bool // position:absolute;top:0;left:0, else position:relative shifted back onto the first sibling
	nested bool // siblings are children of a position:relative;z-index:0 box
}

func manyCases() []manyCase {
	var out []manyCase
	for _, nested := range []bool{false, true} {
		for _, abs := range []bool{true, false} {
			for _, n := range manyN {
				for p := range manyPatterns {
					out = append(out, manyCase{n: n, pat: p, abs: abs, nested: nested})
				}
			}
		}
	}
	return out
}

func (mc *manyCase) acase(s *sub) acase {
	cs := acase{sub: s, many: mc}
	first := 0
	if mc.nested {
		z := 0
		cs.parents = append(cs.parents, -1)
		cs.kinds = append(cs.kinds, kind{dRel})
		cs.zs = append(cs.zs, &z)
		cs.extra = append(cs.extra, "z-index:0")
		first = 1
	}
	for i := 0; i < mc.n; i++ {
		z := manyPatterns[mc.pat].z(i, mc.n)
		cs.parents = append(cs.parents, first-1)
		cs.zs = append(cs.zs, &z)
		if mc.abs {
			cs.kinds = append(cs.kinds, kind{dAbs})
			cs.extra = append(cs.extra, fmt.Sprintf("top:0;left:0;z-index:%d", z))
		} else {
			cs.kinds = append(cs.kinds, kind{dRel})
			cs.extra = append(cs.extra, fmt.Sprintf("top:%dpx;z-index:%d", -10*i, z))
		}
	}
	return cs
}

func (c *check) decode(u int64) acase {
	for _, s := range c.subs {
		if u < s.start+s.size {
			i := u - s.start
			if s.many != nil {
				return s.many[i].acase(s)
			}
			if s.paged != nil {
				return s.paged[i].acase(s)
			}
			cs := acase{sub: s}
			cs.parents = s.shapes[i%int64(len(s.shapes))]
			i /= int64(len(s.shapes))
			n := len(s.lists)
			cs.kinds = make([]kind, n)
			for b := n - 1; b >= 0; b-- {
				l := s.lists[b]
				cs.kinds[b] = l[i%int64(len(l))]
				i /= int64(len(l))
			}
			return cs
		}
	}
	panic("c16: unit out of range")
}

func (cs acase) desc() string {
	if mc := cs.many; mc != nil {
		pos := "relative"
		if mc.abs {
			pos = "absolute"
		}
		var zl []string
		for _, z := range cs.zs {
			zl = append(zl, fmt.Sprint(*z))
		}
		return fmt.Sprintf("many-siblings n=%d position=%s nested=%v pattern=%q z=[%s]", mc.n, pos, mc.nested, manyPatterns[mc.pat].name, strings.Join(zl, ","))
	}
	var ks []string
	for _, k := range cs.kinds {
		ks = append(ks, k.String())
	}
	return "shape=" + shapeString(cs.parents) + " kinds=" + strings.Join(ks, "/")
}

const prelude = `<style>@page{size:400px 400px;margin:0} html,body{margin:0;font-family:ahem;font-size:10px;line-height:1;white-space:nowrap}</style><body>`

func boxCSS(id int, k kind) string {
	parts := []string{fmt.Sprintf("background:#%02x0000", id)}
	for _, d := range k {
		if d == dOutline {
			parts = append(parts, fmt.Sprintf("border:2px solid #%02x0100;outline:2px solid #%02x0200", id, id))
		} else {
			parts = append(parts, devCSS[d])
		}
	}
	return strings.Join(parts, ";")
}

func (cs acase) body() string {
	var sb strings.Builder
	var w func(i int)
	w = func(i int) {
		css := boxCSS(i+1, cs.kinds[i])
		if cs.extra != nil {
			css += ";" + cs.extra[i]
		}
		fmt.Fprintf(&sb, `<div style="%s">%c`, css, glyphs[i])
		for j := range cs.parents {
			if cs.parents[j] == i {
				w(j)
			}
		}
		sb.WriteString("</div>")
	}
	for j := range cs.parents {
		if cs.parents[j] == -1 {
			w(j)
		}
	}
	return sb.String()
}

// features: tags computed from the input alone. Region tags name the regions of the input space
// with a semantic peculiarity; family tags ("has:…") say which families of deviations occur.
func (cs acase) features(m *model) []string {
	set := map[string]bool{}
	family := [nDev]string{"positioned", "positioned", "float", "inline-level", "inline-level", "cell", "z-index", "z-index", "z-index", "z-index", "z-index",
		"opacity", "transform", "overflow", "outline"}
	if cs.many != nil {
		set["many-siblings"] = true
		set["has:z-index"] = true
	}
	for i, k := range cs.kinds {
		b := m.boxes[i]
		for _, d := range k {
			set["has:"+family[d]] = true
			// z-index other than 0 on a non-positioned box that forms a stacking context by another
			// property: z-index does not apply, the context is painted at level 0
			if isZ(d) && d != dZ0 && !b.positioned {
				for _, o := range []dev{dOpacity, dTransform, dOverflow} {
					if k.has(o) {
						set["static-z+"+devName[o]] = true
					}
				}
			}
		}
		if b.outline {
			for a := b.parent; a != nil; a = a.parent {
				if a.overflow {
					set["overflow>outline"] = true
				}
			}
		}
		if b.parent.id != 0 {
			set["has:nesting"] = true
		}
		// an item of a stacking context (positioned box or child context) that sits inside one / several
		// nested pseudo contexts (positioned z-index:auto, float, inline-block) of that context
		if n := b.pseudoAncestors(); n >= 1 && (b.scLike || b.positioned) {
			set["pseudo>item"] = true
			if n >= 2 {
				set["pseudo>pseudo>item"] = true
			}
		}
	}
	var out []string
	for k := range set {
		out = append(out, k)
	}
	sort.Strings(out)
	return out
}

// ---- oracle -----------------------------------------------------------------------------------

func filter(l []ev, keep func(ev) bool) []ev {
	var out []ev
	for _, e := range l {
		if keep(e) {
			out = append(out, e)
		}
	}
	return out
}

func sameSeq(a, b []ev) bool {
	if len(a) != len(b) {
		return false
	}
	for i := range a {
		if a[i] != b[i] {
			return false
		}
	}
	return true
}

func documentOrder(m *model) []ev {
	var out []ev
	for _, b := range m.boxes {
		own(b, &out)
		text(b, &out)
	}
	return out
}

func (c *check) Run(u int64, ctx *engine.Ctx) {
	if u == 0 {
		if msg := refSelfTest(); msg != "" {
			ctx.Fail(engine.Failure{Clause: "reference-selftest", Case: "reference painter examples", Detail: msg})
		}
	}
	cs := c.decode(u)
	if cs.paged != nil {
		runPaged(ctx, cs)
		return
	}
	m := newModelZ(cs.parents, cs.kinds, cs.zs)
	if why := m.outside(); why != "" {
		ctx.Count("skipped:"+why, 1)
		return
	}
	desc := cs.desc()
	feats := cs.features(m)
	html := prelude + cs.body()
	var res *render.Result
	var err error
	if !ctx.GuardFail(desc, feats, func() { res, err = render.Render(render.Options{HTML: html, Engine: "pango", PageBound: 20}) }) {
		ctx.Case(true, "panic")
		return
	}
	ndev := 0
	for i, k := range cs.kinds {
		ndev += len(k)
		if cs.zs != nil && cs.zs[i] != nil {
			ndev++
		}
	}
	ctx.Trans(int64(ndev))
	fail := func(clause, detail string) {
		ctx.Fail(engine.Failure{Clause: clause, Features: feats, Case: desc, Detail: detail + "\nhtml: " + cs.body()})
	}
	if err != nil || res == nil || res.Rec == nil || len(res.Rec.Pages) != 1 {
		ctx.Case(false, "not-one-page")
		fail("one-page", fmt.Sprintf("the document must render onto exactly one page (err=%v)", err))
		return
	}
	o := observe(rec.Flat(res.Rec.Pages[0].Events), len(m.boxes))
	got := o.collapsed()
	want := m.expected()
	ctx.Case(!sameSeq(want, documentOrder(m)), evString(got))
	for _, r := range m.reach() {
		ctx.Count("situation:"+r, 1)
	}

	// (0) nothing but the boxes paints; every box paints each of its parts exactly once
	if len(o.unknown) > 0 {
		fail("events-conserved", "paint that belongs to no box: "+strings.Join(o.unknown, ", "))
		return
	}
	wantSet := map[ev]int{}
	for _, e := range want {
		wantSet[e]++
	}
	for _, b := range m.boxes {
		if b.outline {
			wantSet[ev{b.id, evOl}]++
		}
	}
	gotSet := map[ev]int{}
	for _, e := range got {
		gotSet[e]++
	}
	conserved := len(wantSet) == len(gotSet)
	for e, n := range wantSet {
		if gotSet[e] != n {
			conserved = false
		}
	}
	if !conserved {
		fail("events-conserved", fmt.Sprintf("each box must paint background, border, text and outline exactly once\nwant (outlines anywhere) %s\ngot  %s", evString(want), evString(got)))
		return
	}

	// (1) per box: background < border < content < outline
	pos := map[ev]int{}
	for i, e := range got {
		pos[e] = i
	}
	for _, b := range m.boxes {
		seq := []ev{{b.id, evBg}}
		if b.outline {
			seq = append(seq, ev{b.id, evBo})
		}
		seq = append(seq, ev{b.id, evTx})
		if b.outline {
			seq = append(seq, ev{b.id, evOl})
			ctx.Count("clause:box-order with border and outline", 1)
		}
		for i := 1; i < len(seq); i++ {
			if pos[seq[i-1]] > pos[seq[i]] {
				fail("box-order", fmt.Sprintf("box %s: %s must precede %s\ngot %s", boxName(b.id), seq[i-1], seq[i], evString(got)))
				break
			}
		}
	}

	// (2) Appendix E order of backgrounds, borders and texts. Boxes that are stacking contexts only
	// through overflow (free units) are compared separately: inside, and the rest without them.
	gotNoOl := filter(got, func(e ev) bool { return e.k != evOl })
	var free []*mbox
	for _, b := range m.boxes {
		if b.free {
			free = append(free, b)
		}
	}
	inFree := func(e ev, except *mbox) bool { // e belongs to a free unit other than (and, for except != nil, strictly inside) except
		for _, f := range free {
			if f != except && f.contains(m.boxes[e.box-1]) && (except == nil || except.contains(f)) {
				return true
			}
		}
		return false
	}
	if len(free) == 0 {
		ctx.Count("clause:order compared in full", 1)
		if !sameSeq(gotNoOl, want) {
			fail("order", fmt.Sprintf("want %s\ngot  %s", evString(want), evString(gotNoOl)))
		}
	} else {
		ctx.Count("clause:order compared around overflow units", 1)
		g, w := filter(gotNoOl, func(e ev) bool { return !inFree(e, nil) }), filter(want, func(e ev) bool { return !inFree(e, nil) })
		if !sameSeq(g, w) {
			fail("order", fmt.Sprintf("outside the overflow units: want %s\ngot  %s\n(full: want %s got %s)", evString(w), evString(g), evString(want), evString(gotNoOl)))
		}
		for _, f := range free {
			in := func(e ev) bool { return f.contains(m.boxes[e.box-1]) && !inFree(e, f) }
			g, w := filter(gotNoOl, in), filter(want, in)
			if !sameSeq(g, w) {
				fail("order", fmt.Sprintf("inside the overflow unit %s: want %s\ngot  %s\n(full: want %s got %s)", boxName(f.id), evString(w), evString(g), evString(want), evString(gotNoOl)))
			}
			// contiguity of the unit
			first, last, n := -1, -1, 0
			for i, e := range gotNoOl {
				if f.contains(m.boxes[e.box-1]) {
					if first < 0 {
						first = i
					}
					last = i
					n++
				}
			}
			if last-first+1 != n {
				fail("atomic-overflow", fmt.Sprintf("the sub-tree of the overflow box %s is not painted as a unit\ngot %s", boxName(f.id), evString(gotNoOl)))
			}
		}
	}

	// (3) atomicity: the group / transformed stack / clipped stack of the declaring box brackets
	// the paint of its whole sub-tree and nothing else
	for _, b := range m.boxes {
		if !(b.opacity || b.transform || b.overflow) {
			continue
		}
		total := 0
		for _, e := range o.raw {
			if b.contains(m.boxes[e.box-1]) {
				total++
			}
		}
		exact := func(br bracket) bool {
			if br.hi-br.lo != total {
				return false
			}
			for _, e := range o.raw[br.lo:br.hi] {
				if !b.contains(m.boxes[e.box-1]) {
					return false
				}
			}
			return true
		}
		name := boxName(b.id)
		if b.opacity {
			ctx.Count("clause:atomic-opacity", 1)
			found := false
			for _, br := range o.brackets {
				if br.group && exact(br) {
					found = true
				}
			}
			if !found {
				fail("atomic-opacity", "no transparency group holds exactly the paint of the sub-tree of box "+name+"\ngot "+evString(got))
			}
		}
		if b.transform {
			ctx.Count("clause:atomic-transform", 1)
			found := false
			for _, br := range o.brackets {
				// (with opacity the matrix is applied at the top level of the transparency group)
				if br.hasTransform && exact(br) {
					found = true
				}
			}
			if !found {
				fail("atomic-transform", "no transformed graphic-state stack holds exactly the paint of the sub-tree of box "+name+"\ngot "+evString(got))
			}
		}
		if b.overflow {
			ctx.Count("clause:atomic-overflow", 1)
			// content = own text + everything of the proper descendants; the descendants' outlines are
			// judged by a clause of their own
			need, needOl := 0, 0
			isNeed := func(e ev) (content, outline bool) {
				x := m.boxes[e.box-1]
				if !b.contains(x) {
					return false, false
				}
				if x == b {
					return e.k == evTx, false
				}
				return e.k != evOl, e.k == evOl
			}
			for _, e := range o.raw {
				c, ol := isNeed(e)
				if c {
					need++
				}
				if ol {
					needOl++
				}
			}
			if needOl > 0 {
				ctx.Count("clause:atomic-overflow-outline", 1)
			}
			found, foundOl := false, false
			for _, br := range o.brackets {
				if br.group || !br.hasClip {
					continue
				}
				n, nOl, foreign := 0, 0, false
				for _, e := range o.raw[br.lo:br.hi] {
					if !b.contains(m.boxes[e.box-1]) {
						foreign = true
					}
					c, ol := isNeed(e)
					if c {
						n++
					}
					if ol {
						nOl++
					}
				}
				if !foreign && n == need {
					found = true
					if nOl == needOl {
						foundOl = true
					}
				}
			}
			if !found {
				fail("atomic-overflow", "no clipped graphic-state stack holds the content of box "+name+" (its text and the whole paint of its descendants) and nothing else\ngot "+evString(got))
			} else if !foundOl {
				fail("atomic-overflow-outline", "the outlines of descendants of the overflow box "+name+" are painted outside its clip\ngot "+evString(got))
			}
		}
	}
}

func (c *check) Describe(u int64) any {
	cs := c.decode(u)
	var ks []string
	for _, k := range cs.kinds {
		ks = append(ks, k.String())
	}
	m := newModelZ(cs.parents, cs.kinds, cs.zs)
	if cs.many != nil {
		return map[string]any{"sub_space": cs.sub.name, "case": cs.desc(), "html": cs.body(), "reference_order": evString(m.expected())}
	}
	if cs.paged != nil {
		return map[string]any{"sub_space": cs.sub.name, "case": cs.paged.desc(), "html": cs.paged.body(), "reference_order": evString(m.expected())}
	}
	return map[string]any{"sub_space": cs.sub.name, "shape": shapeString(cs.parents), "kinds": ks, "html": cs.body(),
		"outside_alphabet": m.outside(), "reference_order": evString(m.expected())}
}

// ---- reference self-test ----------------------------------------------------------------------

// refSelfTest runs the reference painter on hand-computed Appendix E examples (including the
// calibrations of the pilot, DESIGN Appendix A item 9).
func refSelfTest() string {
	type ex struct {
		shape string
		par   []int
		kinds []string
		want  string
	}
	exs := []ex{
		// E.2 basic layering: negative, block backgrounds, floats, inline content, z auto/0, positive
		{"ABC", []int{-1, -1, -1}, []string{"rel+z1", "float", "rel+z-1"}, "bgC txC bgB txB bgA txA"},
		{"ABC", []int{-1, -1, -1}, []string{"static", "static", "static"}, "bgA bgB bgC txA txB txC"},
		{"ABC", []int{-1, -1, -1}, []string{"rel", "static", "float"}, "bgB bgC txC txB bgA txA"},
		// ties in tree order; z-index on a non-positioned box is ignored
		{"ABC", []int{-1, -1, -1}, []string{"rel+z1", "rel+z1", "z2"}, "bgC txC bgA txA bgB txB"},
		{"ABC", []int{-1, -1, -1}, []string{"rel+z2", "rel+z1", "rel+z1"}, "bgB txB bgC txC bgA txA"},
		// calibration: a positioned child of a float belongs to the enclosing context (negative layer first)
		{"A(B)C", []int{-1, 0, -1}, []string{"float", "rel+z-1", "static"}, "bgB txB bgC bgA txA txC"},
		// calibration: positioned descendants of a z-index:auto box are siblings of it in tree order
		{"A(B)C", []int{-1, 0, -1}, []string{"rel", "rel", "rel+z0"}, "bgA txA bgB txB bgC txC"},
		{"A(B)C", []int{-1, 0, -1}, []string{"rel", "rel+z1", "rel"}, "bgA txA bgC txC bgB txB"},
		// opacity forms a real context at level 0: its positive child stays inside
		{"A(B)C", []int{-1, 0, -1}, []string{"opacity", "rel+z1", "rel"}, "bgA txA bgB txB bgC txC"},
		// inline-block: atomic, in place in the inline layer
		{"A(B)C", []int{-1, 0, -1}, []string{"iblock", "static", "static"}, "bgC bgA bgB txA txB txC"},
		// inline box: background in the inline layer
		{"AB", []int{-1, -1}, []string{"inline", "static"}, "bgB bgA txA txB"},
		// table cells: backgrounds of the cells of a table, then their borders, content in layer 7
		{"AB", []int{-1, -1}, []string{"cell+outline", "cell+outline"}, "bgA bgB boA boB txA txB"},
	}
	for _, e := range exs {
		var ks []kind
		for _, k := range e.kinds {
			ks = append(ks, kindByName(k))
		}
		got := evString(newModel(e.par, ks).expected())
		if got != e.want {
			return fmt.Sprintf("%s %v: reference gives %q, hand-computed %q", e.shape, e.kinds, got, e.want)
		}
	}
	return ""
}
