package c16

import (
	"fmt"
	"math"
	"strings"

	"github.com/benoitkugler/webrender/css/parser"

	"verif/internal/rec"
)

// bracket is a Save…Restore pair or a group (NewGroup … DrawWithOpacity) of the flat trace.
// Its paint events are the contiguous range [lo,hi) of the raw event list.
type bracket struct {
	group        bool
	hasTransform bool // a Transform call directly at the level of this bracket
	hasClip      bool // a Clip call directly at the level of this bracket
	lo, hi       int
}

type observation struct {
	raw      []ev      // every fill Paint with a box colour and every DrawText, in paint order
	brackets []bracket // closed brackets
	unknown  []string  // fills / texts that belong to no box
}

func chan255(v float32) int { return int(math.Round(float64(v) * 255)) }

// observe decodes the flat event list of a page: fill colours at Paint and texts at DrawText.
// Colours: background #0i0000, border #0i0100, outline #0i0200 for box i.
func observe(flat []rec.Event, nbox int) *observation {
	o := &observation{}
	black := parser.RGBA{A: 1}
	fills := []parser.RGBA{black} // graphic state stack (fill colour only)
	var open []int                // indices into o.brackets of open brackets
	push := func(group bool) {
		o.brackets = append(o.brackets, bracket{group: group, lo: len(o.raw), hi: -1})
		open = append(open, len(o.brackets)-1)
	}
	pop := func() {
		if len(open) == 0 {
			return
		}
		o.brackets[open[len(open)-1]].hi = len(o.raw)
		open = open[:len(open)-1]
	}
	for _, e := range flat {
		switch e.Op {
		case "Save":
			fills = append(fills, fills[len(fills)-1])
			push(false)
		case "Restore":
			if len(fills) > 1 {
				fills = fills[:len(fills)-1]
			}
			pop()
		case "GroupBegin":
			fills = append(fills, black) // a group starts with a fresh graphic state
			push(true)
		case "GroupEnd":
			if len(fills) > 1 {
				fills = fills[:len(fills)-1]
			}
			pop()
		case "SetColorRgba":
			if e.Text == "fill" {
				fills[len(fills)-1] = e.Color
			}
		case "Transform":
			if len(open) > 0 {
				o.brackets[open[len(open)-1]].hasTransform = true
			}
		case "Clip":
			if len(open) > 0 {
				o.brackets[open[len(open)-1]].hasClip = true
			}
		case "Paint":
			if !strings.Contains(e.Args, "fill") {
				continue // stroke only
			}
			c := fills[len(fills)-1]
			r, g, b := chan255(c.R), chan255(c.G), chan255(c.B)
			if r >= 1 && r <= nbox && g <= 2 && b == 0 && c.A == 1 {
				o.raw = append(o.raw, ev{r, [3]byte{evBg, evBo, evOl}[g]})
			} else {
				o.unknown = append(o.unknown, fmt.Sprintf("fill #%02x%02x%02x", r, g, b))
			}
		case "DrawText":
			if i := strings.Index(glyphs, e.Text); len(e.Text) == 1 && i >= 0 && i < nbox {
				o.raw = append(o.raw, ev{i + 1, evTx})
			} else {
				o.unknown = append(o.unknown, fmt.Sprintf("text %q", e.Text))
			}
		}
	}
	for len(open) > 0 {
		pop()
	}
	return o
}

// collapsed returns the raw list with each run of identical consecutive outline events (one
// Paint per side) reduced to one event.
func (o *observation) collapsed() []ev {
	var out []ev
	for _, e := range o.raw {
		if e.k == evOl && len(out) > 0 && out[len(out)-1] == e {
			continue
		}
		out = append(out, e)
	}
	return out
}
