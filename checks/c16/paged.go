package c16

import (
	"fmt"
	"strings"

	"verif/internal/engine"
	"verif/internal/rec"
	"verif/internal/render"
)

// ---- paged family: boxes fragmented over a page break -----------------------------------------------
//
// Tree order is a property of the element tree, not of the page: the continuation of a box that was broken
// by the previous page is still the same (earlier) element, so on the following page it is painted before
// the later boxes of its layer. The layout carries the fragments of broken out-of-flow boxes (floats,
// absolutely positioned boxes) from one page to the next outside the normal flow of boxes
// (html/layout/pages.go, makePage: brokenOutOfFlow), which is where their tree position can get lost.
//
//	body > A B <forced page break> C        page 100px high
//
// A and B hold one glyph, and — when "tall" — three empty 40px blocks after it (130px of breakable content:
// the box is split, its last block continues on the next page); C starts the page after the forced break,
// where the continuations of tall out-of-flow boxes land. Every box takes every kind of the menu.
//
// Oracle: the Appendix E order of the one-page reference painter is a total order of the paint events of
// the document; each page must show the events it holds in that order (which events a page holds is read
// from the page itself: fragmentation is the layout's concern), no part twice on one page, every
// background at least once and every text exactly once in the document.

var paged10 = []string{"static", "rel", "abs", "float", "iblock", "opacity", "rel+z-1", "rel+z0", "rel+z1", "abs+z0"}

var pagedTall = [][2]bool{{true, false}, {false, true}, {true, true}}

type pagedCase struct {
	kinds [3]kind
	tall  [2]bool
}

func pagedCases() []pagedCase {
	ks := kindsOf(paged10...)
	var out []pagedCase
	// simplest first: the kind of the first box varies slowest
	for _, a := range ks {
		for _, b := range ks {
			for _, c := range ks {
				for _, t := range pagedTall {
					out = append(out, pagedCase{[3]kind{a, b, c}, t})
				}
			}
		}
	}
	return out
}

const pagedPrelude = `<style>@page{size:100px 100px;margin:0} html,body{margin:0;font-family:ahem;font-size:10px;line-height:1;white-space:nowrap} p{margin:0;height:40px}</style><body>`

func (pc *pagedCase) isTall(i int) bool { return i < 2 && pc.tall[i] }

func (pc *pagedCase) body() string {
	var sb strings.Builder
	for i, k := range pc.kinds {
		if i == 2 {
			sb.WriteString(`<div style="break-before:page"></div>`)
		}
		fmt.Fprintf(&sb, `<div style="%s">%c`, boxCSS(i+1, k), glyphs[i])
		if pc.isTall(i) {
			sb.WriteString("<p></p><p></p><p></p>")
		}
		sb.WriteString("</div>")
	}
	return sb.String()
}

func (pc *pagedCase) desc() string {
	var ks, ts []string
	for i, k := range pc.kinds {
		ks = append(ks, k.String())
		if pc.isTall(i) {
			ts = append(ts, boxName(i+1))
		}
	}
	return "paged kinds=" + strings.Join(ks, "/") + " tall=" + strings.Join(ts, "")
}

func (pc *pagedCase) acase(s *sub) acase {
	return acase{sub: s, paged: pc, parents: []int{-1, -1, -1}, kinds: pc.kinds[:]}
}

func runPaged(ctx *engine.Ctx, cs acase) {
	pc := cs.paged
	m := newModel(cs.parents, cs.kinds)
	desc := pc.desc()
	feats := append(cs.features(m), "paged")
	for i := range pc.kinds {
		if pc.isTall(i) {
			feats = append(feats, "tall:"+pc.kinds[i].String())
		}
	}
	html := pagedPrelude + pc.body()
	var res *render.Result
	var err error
	if !ctx.GuardFail(desc, feats, func() { res, err = render.Render(render.Options{HTML: html, Engine: "pango", PageBound: 20}) }) {
		ctx.Case(true, "panic")
		return
	}
	ndev := 0
	for i, k := range cs.kinds {
		ndev += len(k)
		if pc.isTall(i) {
			ndev++
		}
	}
	ctx.Trans(int64(ndev))
	fail := func(clause, detail string) {
		ctx.Fail(engine.Failure{Clause: clause, Features: feats, Case: desc, Detail: detail + "\nhtml: " + pc.body()})
	}
	if err != nil || res == nil || res.Rec == nil || len(res.Rec.Pages) < 1 {
		ctx.Case(false, "not-rendered")
		fail("one-page", fmt.Sprintf("the document must render onto at least one page (err=%v)", err))
		return
	}
	if len(res.Rec.Pages) == 1 {
		// nothing in the flow before the forced break (A and B out of flow): no page is broken; not this property's concern
		ctx.Count("situation:paged: document rendered onto one page (no in-flow content before the forced break)", 1)
	}
	want := m.expected()
	total := map[ev]int{}
	firstPage := map[int]int{} // box -> first page holding its background
	var keys []string
	nontrivial := false
	for p, page := range res.Rec.Pages {
		o := observe(rec.Flat(page.Events), len(m.boxes))
		got := o.collapsed()
		keys = append(keys, evString(got))
		if len(o.unknown) > 0 {
			fail("events-conserved", fmt.Sprintf("page %d: paint that belongs to no box: %s", p+1, strings.Join(o.unknown, ", ")))
			continue
		}
		present := map[ev]bool{}
		twice := false
		for _, e := range got {
			if present[e] {
				twice = true
			}
			present[e] = true
			total[e]++
			if _, seen := firstPage[e.box]; !seen && e.k == evBg {
				firstPage[e.box] = p
			}
		}
		if twice {
			fail("events-conserved", fmt.Sprintf("page %d: a box paints the same part twice on one page\ngot %s", p+1, evString(got)))
			continue
		}
		w := filter(want, func(e ev) bool { return present[e] })
		ctx.Count("clause:order compared on a page of a paged document", 1)
		if !sameSeq(got, w) {
			fail("order", fmt.Sprintf("page %d of %d: want %s\ngot  %s\n(order of the whole document: %s)", p+1, len(res.Rec.Pages), evString(w), evString(got), evString(want)))
		}
		// reach: the continuation of a broken out-of-flow box shares the page with a later box
		for i, b := range m.boxes {
			if !pc.isTall(i) || !(b.float || b.kind.has(dAbs)) || !present[ev{b.id, evBg}] || firstPage[b.id] == p {
				continue
			}
			ctx.Count("situation:paged: continuation of a broken out-of-flow box", 1)
			for _, l := range m.boxes[i+1:] {
				if !present[ev{l.id, evBg}] {
					continue
				}
				nontrivial = true
				ctx.Count("situation:paged: continuation of a broken out-of-flow box on a page with a later box", 1)
				sameFloat := b.float && !b.positioned && !b.scLike && l.float && !l.positioned && !l.scLike
				sameLevel0 := (b.positioned || b.scLike) && (l.positioned || l.scLike) && b.zlevel() == 0 && l.zlevel() == 0
				if sameFloat || sameLevel0 {
					ctx.Count("situation:paged: continuation of a broken out-of-flow box on a page with a later box of the same layer", 1)
				}
			}
		}
	}
	ctx.Case(nontrivial, strings.Join(keys, " | "))
	for _, b := range m.boxes {
		if total[ev{b.id, evBg}] == 0 {
			fail("events-conserved", fmt.Sprintf("the background of box %s is painted on no page\ngot %s", boxName(b.id), strings.Join(keys, " | ")))
		}
		if total[ev{b.id, evTx}] != 1 {
			fail("events-conserved", fmt.Sprintf("the text of box %s is painted %d times in the document\ngot %s", boxName(b.id), total[ev{b.id, evTx}], strings.Join(keys, " | ")))
		}
	}
}
