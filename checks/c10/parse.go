package c10

import (
	"fmt"
	"strconv"
	"strings"
)

// parseDesc is the inverse of docSpec.desc (used for replay by hand, for the feature tags of
// a case that killed its worker, and by the show command).
func parseDesc(desc string) (*docSpec, error) {
	var w float64
	var h int
	if _, err := fmt.Sscanf(desc, "page %gx%d ", &w, &h); err != nil {
		return nil, fmt.Errorf("bad case description: %v", err)
	}
	i := strings.Index(desc, "<")
	if i < 0 {
		return nil, fmt.Errorf("no markup")
	}
	s := desc[i:]
	var stack []*boxSpec
	var root *boxSpec
	for len(s) > 0 {
		switch {
		case strings.HasPrefix(s, "</"):
			j := strings.Index(s, ">")
			if j < 0 || len(stack) == 0 {
				return nil, fmt.Errorf("bad close tag")
			}
			stack = stack[:len(stack)-1]
			s = s[j+1:]
		case s[0] == '<':
			j := strings.Index(s, ">")
			if j < 0 {
				return nil, fmt.Errorf("bad tag")
			}
			tag := s[1:j]
			s = s[j+1:]
			b, err := parseTag(tag)
			if err != nil {
				return nil, err
			}
			if len(stack) == 0 {
				root = b
			} else {
				p := stack[len(stack)-1]
				p.kids = append(p.kids, b)
			}
			stack = append(stack, b)
		default:
			if len(stack) == 0 {
				return nil, fmt.Errorf("text outside body")
			}
			p := stack[len(stack)-1]
			p.letter = s[:1]
			if len(p.kids) == 0 {
				p.text = txBefore
			} else {
				p.text = txAfter
			}
			s = s[1:]
		}
	}
	if root == nil {
		return nil, fmt.Errorf("no body")
	}
	return &docSpec{pageW: w, body: root}, nil
}

func parseDim(v string) (dim, error) {
	switch v {
	case "auto":
		return auto, nil
	case "none":
		return none, nil
	case "0":
		return zero, nil
	}
	if strings.HasSuffix(v, "%") {
		f, err := strconv.ParseFloat(v[:len(v)-1], 64)
		return pct(f), err
	}
	f, err := strconv.ParseFloat(strings.TrimSuffix(v, "px"), 64)
	return px(f), err
}

func parseTag(tag string) (*boxSpec, error) {
	// div id=a style="..."
	fields := strings.SplitN(tag, " ", 3)
	if len(fields) < 2 || !strings.HasPrefix(fields[1], "id=") {
		return nil, fmt.Errorf("bad tag %q", tag)
	}
	b := newBox(strings.TrimPrefix(fields[1], "id="))
	if len(fields) == 3 {
		st := strings.TrimSuffix(strings.TrimPrefix(fields[2], `style="`), `"`)
		for _, decl := range strings.Split(st, ";") {
			kv := strings.SplitN(decl, ":", 2)
			if len(kv) != 2 {
				return nil, fmt.Errorf("bad declaration %q", decl)
			}
			name, val := strings.TrimSpace(kv[0]), strings.TrimSpace(kv[1])
			if name == "box-sizing" {
				b.borderBox = val == "border-box"
				b.paddingBox = val == "padding-box"
				continue
			}
			if strings.HasPrefix(name, "border-") {
				d, err := parseDim(strings.TrimSuffix(val, " solid"))
				if err != nil {
					return nil, err
				}
				switch name {
				case "border-top":
					b.borT = d.v
				case "border-bottom":
					b.borB = d.v
				case "border-left":
					b.borL = d.v
				case "border-right":
					b.borR = d.v
				}
				continue
			}
			d, err := parseDim(val)
			if err != nil {
				return nil, err
			}
			switch name {
			case "margin-top":
				b.mt = d
			case "margin-bottom":
				b.mb = d
			case "margin-left":
				b.ml = d
			case "margin-right":
				b.mr = d
			case "padding-top":
				b.padT = d
			case "padding-bottom":
				b.padB = d
			case "padding-left":
				b.padL = d
			case "padding-right":
				b.padR = d
			case "height":
				b.h = d
			case "min-height":
				b.minh = d
			case "max-height":
				b.maxh = d
			case "width":
				b.w = d
			case "min-width":
				b.minw = d
			case "max-width":
				b.maxw = d
			default:
				return nil, fmt.Errorf("unknown property %q", name)
			}
		}
	}
	return b, nil
}

// ShowDesc prints reference and observed layout of a case description (or of bare markup,
// in which case the page is 200 px wide).
func ShowDesc(desc string) string {
	if !strings.HasPrefix(desc, "page ") {
		desc = fmt.Sprintf("page 200x%d ", pageH) + desc
	}
	d, err := parseDesc(desc)
	if err != nil {
		return err.Error()
	}
	return Show(d)
}
