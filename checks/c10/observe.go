package c10

import (
	"fmt"
	"math"
	"strings"

	bo "github.com/benoitkugler/webrender/html/boxes"
	"github.com/benoitkugler/webrender/text"

	"verif/internal/render"
)

// sharedFonts is the font configuration (Ahem only) of this worker process. It is created once
// and reused: a fresh configuration per document re-reads the font for every line of text
// (10 ms per document instead of 1.5 ms, and the memory is not given back). The documents
// of this check declare no @font-face, so nothing they do modifies it.
var sharedFonts text.FontConfiguration

// obox is what the implementation computed for one element.
type obox struct {
	found          bool
	x, y, bw, bh   float64 // border box
	cw, ch         float64 // content box size
	ml, mr, mt, mb float64
	hasLine        bool
	lineY, lineX   float64
	nElem          int // number of boxes generated for the element
}

func idOf(f *bo.BoxFields) string {
	if f.Element == nil {
		return ""
	}
	for _, a := range f.Element.Attr {
		if a.Key == "id" {
			return a.Val
		}
	}
	return ""
}

// observe lays the document out with the real code and collects the geometry per id.
func observe(doc *docSpec) (map[string]*obox, error) {
	if sharedFonts == nil {
		sharedFonts = render.NewFontConfig("pango")
	}
	pages, err := render.Layout(render.Options{HTML: doc.html(), PageBound: 8, FontConfig: sharedFonts})
	if err != nil {
		return nil, err
	}
	if len(pages) != 1 {
		return nil, fmt.Errorf("%d pages", len(pages))
	}
	out := map[string]*obox{}
	var rec func(b bo.Box, owner *obox)
	rec = func(b bo.Box, owner *obox) {
		f := b.Box()
		if _, isLine := b.(*bo.LineBox); isLine {
			if owner != nil && !owner.hasLine {
				owner.hasLine = true
				owner.lineY = float64(f.PositionY)
				owner.lineX = float64(f.PositionX)
			}
			return
		}
		if _, isText := b.(*bo.TextBox); isText {
			return
		}
		cur := owner
		id := idOf(f)
		if id == "" && f.Element != nil && f.Element.Data == "html" {
			id = "html" // the root element
		}
		if id != "" {
			if o, dup := out[id]; dup {
				// anonymous boxes inherit the element of their parent
				o.nElem++
				cur = o
			} else {
				o := &obox{found: true, nElem: 1}
				o.ml, o.mr = float64(f.MarginLeft.V()), float64(f.MarginRight.V())
				o.mt, o.mb = float64(f.MarginTop.V()), float64(f.MarginBottom.V())
				o.x = float64(f.PositionX) + o.ml
				o.y = float64(f.PositionY) + o.mt
				o.cw, o.ch = float64(f.Width.V()), float64(f.Height.V())
				o.bw = o.cw + float64(f.PaddingLeft.V()+f.PaddingRight.V()+f.BorderLeftWidth.V()+f.BorderRightWidth.V())
				o.bh = o.ch + float64(f.PaddingTop.V()+f.PaddingBottom.V()+f.BorderTopWidth.V()+f.BorderBottomWidth.V())
				out[id] = o
				cur = o
			}
		}
		for _, c := range f.Children {
			rec(c, cur)
		}
	}
	rec(pages[0], nil)
	return out, nil
}

func num(v float64) string {
	if math.IsNaN(v) {
		return "-"
	}
	return fmt.Sprintf("%.4g", math.Round(v*1e4)/1e4)
}

// Show prints the reference and the observed layout of a document (development aid).
func Show(doc *docSpec) string {
	var sb strings.Builder
	ref := buildRef(doc, false)
	obs, err := observe(doc)
	fmt.Fprintf(&sb, "%s\n", doc.desc())
	if err != nil {
		fmt.Fprintf(&sb, "error: %v\n", err)
	}
	for _, r := range append([]*rbox{ref.root}, ref.boxes...) {
		fmt.Fprintf(&sb, "%-5s ref: x=%s y=%s w=%s h=%s ml=%s mr=%s through=%v obs=%v line=%s\n", r.spec.id, num(r.x), num(r.y), num(r.bw), num(r.bh), num(r.ml), num(r.mr), r.through, r.observable, num(r.lineY))
		if o := obs[r.spec.id]; o != nil {
			fmt.Fprintf(&sb, "      got: x=%s y=%s w=%s h=%s ml=%s mr=%s line=%v %s\n", num(o.x), num(o.y), num(o.bw), num(o.bh), num(o.ml), num(o.mr), o.hasLine, num(o.lineY))
		}
	}
	if err == nil {
		for _, f := range judge(nullReporter{}, doc, ref, obs, doc.desc()) {
			fmt.Fprintf(&sb, "FAIL clause=%s features=%s: %s\n", f.Clause, strings.Join(f.Features, ","), f.Detail)
		}
	}
	return sb.String()
}
