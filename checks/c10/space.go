package c10

import "fmt"

// ---- shapes ------------------------------------------------------------------------------------

// A shape is an ordered forest of n divs under body, as a parent array in pre-order
// (-1 = child of body). Boxes are named a, b, c, d in document order.
func shapes(n int) [][]int {
	var out [][]int
	cur := make([]int, n)
	var rec func(i int)
	rec = func(i int) {
		if i == n {
			out = append(out, append([]int(nil), cur...))
			return
		}
		// the parent of box i is body or a box on the path from box i-1 to body
		cur[i] = -1
		rec(i + 1)
		if i > 0 {
			var path []int
			for j := i - 1; j >= 0; j = cur[j] {
				path = append(path, j)
			}
			for k := len(path) - 1; k >= 0; k-- {
				cur[i] = path[k]
				rec(i + 1)
			}
		}
	}
	rec(0)
	return out
}

func shapeString(parent []int) string {
	kids := map[int][]int{}
	for i, p := range parent {
		kids[p] = append(kids[p], i)
	}
	var rec func(p int) string
	rec = func(p int) string {
		s := ""
		for _, k := range kids[p] {
			s += string(rune('a' + k))
			if len(kids[k]) > 0 {
				s += "(" + rec(k) + ")"
			}
		}
		return s
	}
	return rec(-1)
}

func isLeaf(parent []int, i int) bool {
	for _, p := range parent {
		if p == i {
			return false
		}
	}
	return true
}

// ---- vertical menu -----------------------------------------------------------------------------

const (
	pMT = iota
	pMB
	pTop
	pBottom
	pH
	pContent
	nProps
)

var propNames = [nProps]string{"margin-top", "margin-bottom", "top-padding/border", "bottom-padding/border", "height", "content"}

var marginMenu = []float64{10, -4, 20}

// vmenu describes the vertical deviation lattice of one sub-space.
type vmenu struct {
	nBoxes   int
	wide     bool // both padding and border on both sides (thorough)
	textSkel bool // skeleton: every box holds one line (else: every box is empty)
	maxLevel int
}

func (m *vmenu) nSlots() int { return m.nBoxes*nProps + 1 } // + tail

// nAlts returns the number of non-default choices of a slot.
func (m *vmenu) nAlts(parent []int, slot int) int {
	if slot == m.nBoxes*nProps {
		return 1 // tail sentinel absent
	}
	box, prop := slot/nProps, slot%nProps
	switch prop {
	case pMT, pMB:
		return len(marginMenu)
	case pTop, pBottom:
		if m.wide {
			return 2
		}
		return 1
	case pH:
		return 2
	case pContent:
		if isLeaf(parent, box) {
			return 1
		}
		return 2
	}
	panic("bad slot")
}

// skeleton builds the default document of a shape.
func (m *vmenu) skeleton(parent []int) (*docSpec, []*boxSpec) {
	body := newBox("body")
	boxes := make([]*boxSpec, len(parent))
	for i, p := range parent {
		b := newBox(string(rune('a' + i)))
		if m.textSkel {
			b.text = txBefore
		}
		boxes[i] = b
		if p < 0 {
			body.kids = append(body.kids, b)
		} else {
			boxes[p].kids = append(boxes[p].kids, b)
		}
	}
	z := newBox("z")
	z.text = txBefore
	body.kids = append(body.kids, z)
	return &docSpec{pageW: 200, body: body}, boxes
}

// apply puts alternative alt (0-based) into the slot.
func (m *vmenu) apply(doc *docSpec, boxes []*boxSpec, parent []int, slot, alt int) {
	if slot == m.nBoxes*nProps {
		doc.body.kids = doc.body.kids[:len(doc.body.kids)-1]
		return
	}
	b, prop := boxes[slot/nProps], slot%nProps
	switch prop {
	case pMT:
		b.mt = px(marginMenu[alt])
	case pMB:
		b.mb = px(marginMenu[alt])
	case pTop:
		if alt == 0 {
			b.padT = px(2)
		} else {
			b.borT = 2
		}
	case pBottom:
		if alt == 0 {
			b.borB = 2
		} else {
			b.padB = px(2)
		}
	case pH:
		b.h = px([]float64{15, 0}[alt])
	case pContent:
		leaf := len(b.kids) == 0
		switch {
		case !m.textSkel && leaf:
			b.text = txBefore
		case !m.textSkel:
			b.text = []int{txBefore, txAfter}[alt]
		case leaf:
			b.text = txNone
		default:
			b.text = []int{txNone, txAfter}[alt]
		}
	}
}

// emptyLevel is the number of deviations of the document from the all-empty skeleton.
func emptyLevel(doc *docSpec) int {
	n := 0
	hasTail := false
	doc.body.walk(func(b, p *boxSpec) {
		if b.id == "body" {
			return
		}
		if b.id == "z" {
			hasTail = true
			return
		}
		for _, c := range []bool{b.mt != zero, b.mb != zero, b.padT != zero || b.borT != 0, b.padB != zero || b.borB != 0, b.h != auto, b.text != txNone} {
			if c {
				n++
			}
		}
	})
	if !hasTail {
		n++
	}
	return n
}

// subsets lists the subsets of {0..n-1} of size <= k, by size then lexicographically.
func subsets(n, k int) [][]int8 {
	var out [][]int8
	for size := 0; size <= k; size++ {
		cur := make([]int8, size)
		var rec func(pos, from int)
		rec = func(pos, from int) {
			if pos == size {
				out = append(out, append([]int8(nil), cur...))
				return
			}
			for v := from; v < n; v++ {
				cur[pos] = int8(v)
				rec(pos+1, v+1)
			}
		}
		rec(0, 0)
	}
	return out
}

// forEachAssignment calls f with every assignment of alternatives to the slots of a subset.
func (m *vmenu) forEachAssignment(parent []int, subset []int8, f func(alts []int)) {
	alts := make([]int, len(subset))
	var rec func(i int)
	rec = func(i int) {
		if i == len(subset) {
			f(alts)
			return
		}
		for a := 0; a < m.nAlts(parent, int(subset[i])); a++ {
			alts[i] = a
			rec(i + 1)
		}
	}
	rec(0)
}

func (m *vmenu) build(parent []int, subset []int8, alts []int) *docSpec {
	doc, boxes := m.skeleton(parent)
	for i, s := range subset {
		m.apply(doc, boxes, parent, int(s), alts[i])
	}
	return doc
}

// ---- horizontal menu ---------------------------------------------------------------------------

// hMargins: 150px is the margin that decides the pre-test of §10.3.3 on its own ("border +
// padding + width plus any of margin-left or margin-right that are not auto is larger than the
// containing block"): with width:50px in the 200px container the sum is exactly the containing
// width when the box has no padding/border (or box-sizing:border-box) and above it with any
// padding/border, in the 120px container and with width:50%, while width alone always fits;
// 7px, -3px and 10% keep the sum below. Every value is taken by both margins, so the space holds
// the equation with no, one (either side) and two auto margins below, at and above the
// containing width, and the over-constrained cases.
var (
	hWidths  = []dim{auto, px(50), pct(50), px(200)}
	hMargins = []dim{zero, auto, px(7), px(-3), pct(10), px(150)}
	hMin     = []dim{none, px(30), px(80)}
	hMax     = []dim{none, px(30), px(80)}
)

// hspace is the full product of the horizontal menu on one box t, inside a container.
type hspace struct {
	padSets    [][4]float64 // padding-left, padding-right, border-left, border-right
	containers int
}

func (h *hspace) size() int64 {
	return int64(len(hWidths)*len(hMargins)*len(hMargins)*len(hMin)*len(hMax)*3) * int64(len(h.padSets)) * int64(h.containers)
}

func (h *hspace) build(i int64) *docSpec {
	pick := func(n int) int {
		r := int(i % int64(n))
		i /= int64(n)
		return r
	}
	t := newBox("t")
	// fastest varying first
	t.mr = hMargins[pick(len(hMargins))]
	t.ml = hMargins[pick(len(hMargins))]
	t.w = hWidths[pick(len(hWidths))]
	t.maxw = hMax[pick(len(hMax))]
	t.minw = hMin[pick(len(hMin))]
	switch pick(3) {
	case 1:
		t.borderBox = true
	case 2:
		t.paddingBox = true
	}
	ps := h.padSets[pick(len(h.padSets))]
	t.padL, t.padR, t.borL, t.borR = px(ps[0]), px(ps[1]), ps[2], ps[3]
	cont := pick(h.containers)
	t.h = px(10)
	// k probes the content box of t: its percentages refer to t's used content width
	k := newBox("k")
	k.w, k.ml, k.mt, k.h = pct(50), pct(10), pct(10), px(5)
	t.kids = []*boxSpec{k}
	body := newBox("body")
	switch cont {
	case 0:
		body.kids = []*boxSpec{t}
	case 1:
		p := newBox("p")
		p.w, p.padL, p.ml, p.borR = px(120), px(11), px(5), 2
		p.kids = []*boxSpec{t}
		body.kids = []*boxSpec{p}
	case 2:
		p := newBox("p")
		p.ml, p.mr, p.borL = px(20), px(20), 3
		p.kids = []*boxSpec{t}
		body.kids = []*boxSpec{p}
	}
	return &docSpec{pageW: 200, body: body}
}

// ---- vertical sizing product ---------------------------------------------------------------------

// §10.5, §10.7 and the box-sizing conversion of the height values: full product of height x
// min-height x max-height x box-sizing x padding/border set x content on one box t.
//
// The padding/border sets are what the conversion from a border-box / padding-box value to a
// content-box value subtracts: the sum of the VERTICAL paddings (and borders). Sets whose
// vertical and horizontal sums differ tell the two axes apart; sets with padding only on one
// axis reach the "nothing to subtract" shortcut of each axis; sets whose vertical sum exceeds a
// menu value reach the floor at zero. The values meet every order of content height (0, 10,
// 20), height, min-height and max-height: max-height below the content, min-height above it,
// min-height above max-height (min-height wins).
var (
	sHeights = []dim{auto, px(15), pct(50)}
	sMinH    = []dim{none, px(12), px(40), pct(50)}
	sMaxH    = []dim{none, px(8), px(30), pct(50)}
	sWidths  = []dim{auto, px(100)}
	sMarginB = []dim{zero, px(10)}
)

// padding-top, padding-bottom, border-top, border-bottom, padding-left, padding-right, border-left, border-right
type padSet8 [8]float64

var sPadSetsQuick = []padSet8{
	{0, 0, 0, 0, 0, 0, 0, 0},
	{5, 5, 1, 1, 5, 5, 1, 1},   // the same on both axes (12 / 12)
	{5, 5, 1, 1, 30, 30, 1, 1}, // padding: 5px 30px (12 / 62)
	{20, 2, 3, 0, 2, 1, 0, 1},  // tall (25 / 4)
	{2, 3, 1, 2, 0, 0, 0, 0},   // vertical only (8 / 0)
	{0, 0, 0, 0, 15, 15, 3, 4}, // horizontal only (0 / 37)
	{0, 4, 0, 0, 9, 0, 0, 0},   // padding only (4 / 9): border-box = padding-box
	{0, 0, 3, 0, 0, 0, 0, 7},   // border only (3 / 7): padding-box = content-box
}

const (
	scEmpty = iota // no content
	scLine         // one 10px line
	scChild        // a child block of height 20px
	nSContents
)

// sspace is the full product of the vertical sizing menu on one box t, inside a container.
type sspace struct {
	padSets    []padSet8
	containers int
}

func (h *sspace) size() int64 {
	return int64(len(sHeights)*len(sMinH)*len(sMaxH)*3*nSContents*len(sWidths)*len(sMarginB)) * int64(len(h.padSets)) * int64(h.containers)
}

func (h *sspace) build(i int64) *docSpec {
	pick := func(n int) int {
		r := int(i % int64(n))
		i /= int64(n)
		return r
	}
	t := newBox("t")
	// fastest varying first
	t.maxh = sMaxH[pick(len(sMaxH))]
	t.minh = sMinH[pick(len(sMinH))]
	t.h = sHeights[pick(len(sHeights))]
	switch pick(3) {
	case 1:
		t.borderBox = true
	case 2:
		t.paddingBox = true
	}
	content := pick(nSContents)
	ps := h.padSets[pick(len(h.padSets))]
	t.padT, t.padB, t.borT, t.borB = px(ps[0]), px(ps[1]), ps[2], ps[3]
	t.padL, t.padR, t.borL, t.borR = px(ps[4]), px(ps[5]), ps[6], ps[7]
	t.w = sWidths[pick(len(sWidths))]
	t.mb = sMarginB[pick(len(sMarginB))]
	cont := pick(h.containers)
	switch content {
	case scLine:
		t.text = txBefore
	case scChild:
		k := newBox("k")
		k.h = px(20)
		t.kids = []*boxSpec{k}
	}
	z := newBox("z")
	z.text = txBefore
	body := newBox("body")
	switch cont {
	case 0:
		// the height of the containing block is not specified explicitly: percentages of it
		// are auto / 0 / none
		body.kids = []*boxSpec{t, z}
	case 1:
		p := newBox("p")
		p.h = px(60)
		p.kids = []*boxSpec{t}
		body.kids = []*boxSpec{p, z}
	case 2:
		p := newBox("p")
		p.padT, p.borB, p.ml = px(4), 2, px(20)
		p.kids = []*boxSpec{t}
		body.kids = []*boxSpec{p, z}
	}
	return &docSpec{pageW: 200, body: body}
}

// ---- cross term --------------------------------------------------------------------------------

// crossDev is one horizontal (or percentage / box-sizing) deviation applied to one box of a
// vertical case.
type crossDev struct {
	name     string
	slot     int // vertical prop it overrides, or -1
	apply    func(b *boxSpec)
	leafOnly bool // only on a box without child blocks
}

var crossMenu = []crossDev{
	{"width:50px", -1, func(b *boxSpec) { b.w = px(50) }, false},
	{"width:50%", -1, func(b *boxSpec) { b.w = pct(50) }, false},
	{"width:200px", -1, func(b *boxSpec) { b.w = px(200) }, false},
	{"margin-left:auto", -1, func(b *boxSpec) { b.ml = auto }, false},
	{"margin-left:7px", -1, func(b *boxSpec) { b.ml = px(7) }, false},
	{"margin-left:-3px", -1, func(b *boxSpec) { b.ml = px(-3) }, false},
	{"margin-left:10%", -1, func(b *boxSpec) { b.ml = pct(10) }, false},
	{"margin-right:auto", -1, func(b *boxSpec) { b.mr = auto }, false},
	{"margin-right:7px", -1, func(b *boxSpec) { b.mr = px(7) }, false},
	{"margin-right:-3px", -1, func(b *boxSpec) { b.mr = px(-3) }, false},
	{"margin-right:10%", -1, func(b *boxSpec) { b.mr = pct(10) }, false},
	{"padding-left:3px;padding-right:5px", -1, func(b *boxSpec) { b.padL, b.padR = px(3), px(5) }, false},
	{"border-left:2px;border-right:4px", -1, func(b *boxSpec) { b.borL, b.borR = 2, 4 }, false},
	{"min-width:30px", -1, func(b *boxSpec) { b.minw = px(30) }, false},
	{"min-width:80px", -1, func(b *boxSpec) { b.minw = px(80) }, false},
	{"max-width:30px", -1, func(b *boxSpec) { b.maxw = px(30) }, false},
	{"max-width:80px", -1, func(b *boxSpec) { b.maxw = px(80) }, false},
	{"box-sizing:border-box", -1, func(b *boxSpec) { b.borderBox = true }, false},
	{"box-sizing:padding-box", -1, func(b *boxSpec) { b.paddingBox = true }, false},
	{"width:50px;margin:0 auto", -1, func(b *boxSpec) { b.w, b.ml, b.mr = px(50), auto, auto }, false},
	// one auto margin, and the specified one alone makes the sum exceed the containing width
	// (§10.3.3: the auto margin is treated as zero, margin-right gives way)
	{"width:60px;margin-left:auto;margin-right:150px", -1, func(b *boxSpec) { b.w, b.ml, b.mr = px(60), auto, px(150) }, false},
	{"width:60px;margin-left:150px;margin-right:auto", -1, func(b *boxSpec) { b.w, b.ml, b.mr = px(60), px(150), auto }, false},
	{"width:60px;margin-left:150px;margin-right:150px", -1, func(b *boxSpec) { b.w, b.ml, b.mr = px(60), px(150), px(150) }, false},
	{"margin-top:10%", pMT, func(b *boxSpec) { b.mt = pct(10) }, false},
	{"margin-bottom:10%", pMB, func(b *boxSpec) { b.mb = pct(10) }, false},
	{"margin-top:auto", pMT, func(b *boxSpec) { b.mt = auto }, false},
	{"padding-top:10%", pTop, func(b *boxSpec) { b.padT = pct(10) }, false},
	{"height:50%", pH, func(b *boxSpec) { b.h = pct(50) }, false},
	// §10.7 on a box without child blocks, among the collapsing margins of the lattice: a box
	// with a non-zero min-height is not collapsed through; max-height cuts its line of text or
	// its height. (On a box with child blocks min-height meets "the bottom margin of a last
	// in-flow child and of its parent": left to the vertical sizing product, without margins.)
	{"min-height:12px", -1, func(b *boxSpec) { b.minh = px(12) }, true},
	{"max-height:8px", -1, func(b *boxSpec) { b.maxh = px(8) }, true},
}

// ---- unit table ----------------------------------------------------------------------------------

const (
	spV = iota // vertical deviation lattice
	spH        // horizontal product
	spX        // cross term
	spS        // vertical sizing product
)

type unit struct {
	space  uint8
	menu   uint8 // index into check.vmenus (spV, spX)
	shape  uint16
	subset []int8
	box    int8  // spX: the box that receives the cross deviation
	lo, hi int64 // spH, spS: index range
}

func (u unit) String() string { return fmt.Sprintf("%d/%d/%d/%v", u.space, u.menu, u.shape, u.subset) }
