package c10

import "fmt"

// ---- shapes ------------------------------------------------------------------------------------

// A shape is an ordered forest of n divs under body, as a parent array in pre-order
// (-1 = child of body). Boxes are named a, b, c, d in document order.
func shapes(n int) [][]int {
	var out [][]int
	cur := make([]int, n)
	var rec func(i int)
	rec = func(i int) {
		if i == n {
			out = append(out, append([]int(nil), cur...))
			return
		}
		// the parent of box i is body or a box on the path from box i-1 to body
		cur[i] = -1
		rec(i + 1)
		if i > 0 {
			var path []int
			for j := i - 1; j >= 0; j = cur[j] {
				path = append(path, j)
			}
			for k := len(path) - 1; k >= 0; k-- {
				cur[i] = path[k]
				rec(i + 1)
			}
		}
	}
	rec(0)
	return out
}

func shapeString(parent []int) string {
	kids := map[int][]int{}
	for i, p := range parent {
		kids[p] = append(kids[p], i)
	}
	var rec func(p int) string
	rec = func(p int) string {
		s := ""
		for _, k := range kids[p] {
			s += string(rune('a' + k))
			if len(kids[k]) > 0 {
				s += "(" + rec(k) + ")"
			}
		}
		return s
	}
	return rec(-1)
}

func isLeaf(parent []int, i int) bool {
	for _, p := range parent {
		if p == i {
			return false
		}
	}
	return true
}

// ---- vertical menu -----------------------------------------------------------------------------

const (
	pMT = iota
	pMB
	pTop
	pBottom
	pH
	pContent
	nProps
)

var propNames = [nProps]string{"margin-top", "margin-bottom", "top-padding/border", "bottom-padding/border", "height", "content"}

var marginMenu = []float64{10, -4, 20}

// vmenu describes the vertical deviation lattice of one sub-space.
type vmenu struct {
	nBoxes   int
	wide     bool // both padding and border on both sides (thorough)
	textSkel bool // skeleton: every box holds one line (else: every box is empty)
	maxLevel int
}

func (m *vmenu) nSlots() int { return m.nBoxes*nProps + 1 } // + tail

// nAlts returns the number of non-default choices of a slot.
func (m *vmenu) nAlts(parent []int, slot int) int {
	if slot == m.nBoxes*nProps {
		return 1 // tail sentinel absent
	}
	box, prop := slot/nProps, slot%nProps
	switch prop {
	case pMT, pMB:
		return len(marginMenu)
	case pTop, pBottom:
		if m.wide {
			return 2
		}
		return 1
	case pH:
		return 2
	case pContent:
		if isLeaf(parent, box) {
			return 1
		}
		return 2
	}
	panic("bad slot")
}

// skeleton builds the default document of a shape.
func (m *vmenu) skeleton(parent []int) (*docSpec, []*boxSpec) {
	body := newBox("body")
	boxes := make([]*boxSpec, len(parent))
	for i, p := range parent {
		b := newBox(string(rune('a' + i)))
		if m.textSkel {
			b.text = txBefore
		}
		boxes[i] = b
		if p < 0 {
			body.kids = append(body.kids, b)
		} else {
			boxes[p].kids = append(boxes[p].kids, b)
		}
	}
	z := newBox("z")
	z.text = txBefore
	body.kids = append(body.kids, z)
	return &docSpec{pageW: 200, body: body}, boxes
}

// apply puts alternative alt (0-based) into the slot.
func (m *vmenu) apply(doc *docSpec, boxes []*boxSpec, parent []int, slot, alt int) {
	if slot == m.nBoxes*nProps {
		doc.body.kids = doc.body.kids[:len(doc.body.kids)-1]
		return
	}
	b, prop := boxes[slot/nProps], slot%nProps
	switch prop {
	case pMT:
		b.mt = px(marginMenu[alt])
	case pMB:
		b.mb = px(marginMenu[alt])
	case pTop:
		if alt == 0 {
			b.padT = px(2)
		} else {
			b.borT = 2
		}
	case pBottom:
		if alt == 0 {
			b.borB = 2
		} else {
			b.padB = px(2)
		}
	case pH:
		b.h = px([]float64{15, 0}[alt])
	case pContent:
		leaf := len(b.kids) == 0
		switch {
		case !m.textSkel && leaf:
			b.text = txBefore
		case !m.textSkel:
			b.text = []int{txBefore, txAfter}[alt]
		case leaf:
			b.text = txNone
		default:
			b.text = []int{txNone, txAfter}[alt]
		}
	}
}

// emptyLevel is the number of deviations of the document from the all-empty skeleton.
func emptyLevel(doc *docSpec) int {
	n := 0
	hasTail := false
	doc.body.walk(func(b, p *boxSpec) {
		if b.id == "body" {
			return
		}
		if b.id == "z" {
			hasTail = true
			return
		}
		for _, c := range []bool{b.mt != zero, b.mb != zero, b.padT != zero || b.borT != 0, b.padB != zero || b.borB != 0, b.h != auto, b.text != txNone} {
			if c {
				n++
			}
		}
	})
	if !hasTail {
		n++
	}
	return n
}

// subsets lists the subsets of {0..n-1} of size <= k, by size then lexicographically.
func subsets(n, k int) [][]int8 {
	var out [][]int8
	for size := 0; size <= k; size++ {
		cur := make([]int8, size)
		var rec func(pos, from int)
		rec = func(pos, from int) {
			if pos == size {
				out = append(out, append([]int8(nil), cur...))
				return
			}
			for v := from; v < n; v++ {
				cur[pos] = int8(v)
				rec(pos+1, v+1)
			}
		}
		rec(0, 0)
	}
	return out
}

// forEachAssignment calls f with every assignment of alternatives to the slots of a subset.
func (m *vmenu) forEachAssignment(parent []int, subset []int8, f func(alts []int)) {
	alts := make([]int, len(subset))
	var rec func(i int)
	rec = func(i int) {
		if i == len(subset) {
			f(alts)
			return
		}
		for a := 0; a < m.nAlts(parent, int(subset[i])); a++ {
			alts[i] = a
			rec(i + 1)
		}
	}
	rec(0)
}

func (m *vmenu) build(parent []int, subset []int8, alts []int) *docSpec {
	doc, boxes := m.skeleton(parent)
	for i, s := range subset {
		m.apply(doc, boxes, parent, int(s), alts[i])
	}
	return doc
}

// ---- horizontal menu ---------------------------------------------------------------------------

// hMargins: 150px is the margin that decides the pre-test of §10.3.3 on its own ("border +
// padding + width plus any of margin-left or margin-right that are not auto is larger than the
// containing block"): with width:50px in the 200px container the sum is exactly the containing
// width when the box has no padding/border (or box-sizing:border-box) and above it with any
// padding/border, in the 120px container and with width:50%, while width alone always fits;
// 7px, -3px and 10% keep the sum below. Every value is taken by both margins, so the space holds
// the equation with no, one (either side) and two auto margins below, at and above the
// containing width, and the over-constrained cases.
var (
	hWidths  = []dim{auto, px(50), pct(50), px(200)}
	hMargins = []dim{zero, auto, px(7), px(-3), pct(10), px(150)}
	hMin     = []dim{none, px(30), px(80)}
	hMax     = []dim{none, px(30), px(80)}
)

// hspace is the full product of the horizontal menu on one box t, inside a container.
type hspace struct {
	padSets    [][4]float64 // padding-left, padding-right, border-left, border-right
	containers int
}

func (h *hspace) size() int64 {
	return int64(len(hWidths)*len(hMargins)*len(hMargins)*len(hMin)*len(hMax)*2) * int64(len(h.padSets)) * int64(h.containers)
}

func (h *hspace) build(i int64) *docSpec {
	pick := func(n int) int {
		r := int(i % int64(n))
		i /= int64(n)
		return r
	}
	t := newBox("t")
	// fastest varying first
	t.mr = hMargins[pick(len(hMargins))]
	t.ml = hMargins[pick(len(hMargins))]
	t.w = hWidths[pick(len(hWidths))]
	t.maxw = hMax[pick(len(hMax))]
	t.minw = hMin[pick(len(hMin))]
	t.borderBox = pick(2) == 1
	ps := h.padSets[pick(len(h.padSets))]
	t.padL, t.padR, t.borL, t.borR = px(ps[0]), px(ps[1]), ps[2], ps[3]
	cont := pick(h.containers)
	t.h = px(10)
	// k probes the content box of t: its percentages refer to t's used content width
	k := newBox("k")
	k.w, k.ml, k.mt, k.h = pct(50), pct(10), pct(10), px(5)
	t.kids = []*boxSpec{k}
	body := newBox("body")
	switch cont {
	case 0:
		body.kids = []*boxSpec{t}
	case 1:
		p := newBox("p")
		p.w, p.padL, p.ml, p.borR = px(120), px(11), px(5), 2
		p.kids = []*boxSpec{t}
		body.kids = []*boxSpec{p}
	case 2:
		p := newBox("p")
		p.ml, p.mr, p.borL = px(20), px(20), 3
		p.kids = []*boxSpec{t}
		body.kids = []*boxSpec{p}
	}
	return &docSpec{pageW: 200, body: body}
}

// ---- cross term --------------------------------------------------------------------------------

// crossDev is one horizontal (or percentage / box-sizing) deviation applied to one box of a
// vertical case.
type crossDev struct {
	name  string
	slot  int // vertical prop it overrides, or -1
	apply func(b *boxSpec)
}

var crossMenu = []crossDev{
	{"width:50px", -1, func(b *boxSpec) { b.w = px(50) }},
	{"width:50%", -1, func(b *boxSpec) { b.w = pct(50) }},
	{"width:200px", -1, func(b *boxSpec) { b.w = px(200) }},
	{"margin-left:auto", -1, func(b *boxSpec) { b.ml = auto }},
	{"margin-left:7px", -1, func(b *boxSpec) { b.ml = px(7) }},
	{"margin-left:-3px", -1, func(b *boxSpec) { b.ml = px(-3) }},
	{"margin-left:10%", -1, func(b *boxSpec) { b.ml = pct(10) }},
	{"margin-right:auto", -1, func(b *boxSpec) { b.mr = auto }},
	{"margin-right:7px", -1, func(b *boxSpec) { b.mr = px(7) }},
	{"margin-right:-3px", -1, func(b *boxSpec) { b.mr = px(-3) }},
	{"margin-right:10%", -1, func(b *boxSpec) { b.mr = pct(10) }},
	{"padding-left:3px;padding-right:5px", -1, func(b *boxSpec) { b.padL, b.padR = px(3), px(5) }},
	{"border-left:2px;border-right:4px", -1, func(b *boxSpec) { b.borL, b.borR = 2, 4 }},
	{"min-width:30px", -1, func(b *boxSpec) { b.minw = px(30) }},
	{"min-width:80px", -1, func(b *boxSpec) { b.minw = px(80) }},
	{"max-width:30px", -1, func(b *boxSpec) { b.maxw = px(30) }},
	{"max-width:80px", -1, func(b *boxSpec) { b.maxw = px(80) }},
	{"box-sizing:border-box", -1, func(b *boxSpec) { b.borderBox = true }},
	{"width:50px;margin:0 auto", -1, func(b *boxSpec) { b.w, b.ml, b.mr = px(50), auto, auto }},
	// one auto margin, and the specified one alone makes the sum exceed the containing width
	// (§10.3.3: the auto margin is treated as zero, margin-right gives way)
	{"width:60px;margin-left:auto;margin-right:150px", -1, func(b *boxSpec) { b.w, b.ml, b.mr = px(60), auto, px(150) }},
	{"width:60px;margin-left:150px;margin-right:auto", -1, func(b *boxSpec) { b.w, b.ml, b.mr = px(60), px(150), auto }},
	{"width:60px;margin-left:150px;margin-right:150px", -1, func(b *boxSpec) { b.w, b.ml, b.mr = px(60), px(150), px(150) }},
	{"margin-top:10%", pMT, func(b *boxSpec) { b.mt = pct(10) }},
	{"margin-bottom:10%", pMB, func(b *boxSpec) { b.mb = pct(10) }},
	{"margin-top:auto", pMT, func(b *boxSpec) { b.mt = auto }},
	{"padding-top:10%", pTop, func(b *boxSpec) { b.padT = pct(10) }},
	{"height:50%", pH, func(b *boxSpec) { b.h = pct(50) }},
}

// ---- unit table ----------------------------------------------------------------------------------

const (
	spV = iota // vertical deviation lattice
	spH        // horizontal product
	spX        // cross term
)

type unit struct {
	space  uint8
	menu   uint8 // index into check.vmenus (spV, spX)
	shape  uint16
	subset []int8
	box    int8  // spX: the box that receives the cross deviation
	lo, hi int64 // spH: index range
}

func (u unit) String() string { return fmt.Sprintf("%d/%d/%d/%v", u.space, u.menu, u.shape, u.subset) }
