package c10

import (
	"fmt"
	"math"
)

// refSelfTest runs the reference model on examples whose results follow directly from the
// text of CSS 2.1 (§8.3.1, §10.3.3, §10.4, §10.6.3) and on the calibrations learned on the
// unchanged tree. It returns the list of disagreements (empty = the reference is sane).
func refSelfTest() []string {
	type want struct {
		id         string
		x, y, w, h float64 // border box; NaN = not checked
	}
	nan := math.NaN()
	cases := []struct {
		desc string
		want []want
	}{
		// adjoining sibling margins: the larger of two positive margins
		{`<body id=body><div id=a style="margin-bottom:10px">a</div><div id=b style="margin-top:20px">b</div></body>`,
			[]want{{"a", 0, 0, 200, 10}, {"b", 0, 30, 200, 10}, {"body", 0, 0, 200, 40}}},
		// positive and negative: their sum; two negative: the most negative
		{`<body id=body><div id=a style="margin-bottom:10px">a</div><div id=b style="margin-top:-4px">b</div></body>`,
			[]want{{"b", 0, 16, 200, 10}}},
		{`<body id=body><div id=a style="margin-bottom:-10px">a</div><div id=b style="margin-top:-4px">b</div></body>`,
			[]want{{"b", 0, 0, 200, 10}}},
		// parent / first child: the margins collapse and end up above the parent
		{`<body id=body><div id=a style="margin-top:10px"><div id=b style="margin-top:20px">b</div></div></body>`,
			[]want{{"body", 0, 20, 200, 10}, {"a", 0, 20, 200, 10}, {"b", 0, 20, 200, 10}}},
		// ... unless padding or border separates them
		{`<body id=body><div id=a style="margin-top:10px;padding-top:2px"><div id=b style="margin-top:20px">b</div></div></body>`,
			[]want{{"a", 0, 10, 200, 32}, {"b", 0, 32, 200, 10}}},
		// parent / last child with auto height: the child's bottom margin sticks out of the parent
		{`<body id=body><div id=a><div id=b style="margin-bottom:20px">b</div></div><div id=z>z</div></body>`,
			[]want{{"a", 0, 0, 200, 10}, {"z", 0, 30, 200, 10}}},
		// ... not with a fixed height, nor with a bottom border (§10.6.3 case 2)
		{`<body id=body><div id=a style="height:15px"><div id=b style="margin-bottom:20px">b</div></div><div id=z>z</div></body>`,
			[]want{{"a", 0, 0, 200, 15}, {"z", 0, 15, 200, 10}}},
		{`<body id=body><div id=a style="border-bottom:2px solid"><div id=b style="margin-bottom:20px">b</div></div><div id=z>z</div></body>`,
			[]want{{"a", 0, 0, 200, 32}, {"z", 0, 32, 200, 10}}},
		// margins collapse through an empty box
		{`<body id=body><div id=a style="margin-bottom:10px">a</div><div id=b style="margin-top:20px;margin-bottom:-4px"></div><div id=c style="margin-top:5px">c</div></body>`,
			[]want{{"c", 0, 26, 200, 10}, {"b", 0, nan, 200, 0}}},
		// an empty first child: both its margins belong to the parent's top margin
		{`<body id=body><div id=a><div id=b style="margin-bottom:10px"></div>a</div></body>`,
			[]want{{"a", 0, 10, 200, 10}, {"body", 0, 10, 200, 10}}},
		// nested empty blocks are empty
		{`<body id=body><div id=a style="margin-top:10px"><div id=b><div id=c></div></div>a</div></body>`,
			[]want{{"a", 0, 10, 200, 10}}},
		// calibration: used heights are floored at zero (min-height: 0)
		{`<body id=body><div id=a style="padding-top:2px"><div id=b style="margin-top:-4px;padding-top:2px"></div></div><div id=z>z</div></body>`,
			[]want{{"a", 0, 0, 200, 2}, {"b", 0, -2, 200, 2}, {"z", 0, 2, 200, 10}}},
		// §10.3.3: auto width; centring; one auto margin; over-constrained (ltr: margin-right gives way)
		{`<body id=body><div id=a style="margin-left:7px;margin-right:10%;padding-left:3px;border-right:4px solid">a</div></body>`,
			[]want{{"a", 7, 0, 173, 10}}},
		{`<body id=body><div id=a style="width:50px;margin-left:auto;margin-right:auto">a</div></body>`,
			[]want{{"a", 75, 0, 50, 10}}},
		{`<body id=body><div id=a style="width:50%;margin-left:auto;margin-right:7px">a</div></body>`,
			[]want{{"a", 93, 0, 100, 10}}},
		{`<body id=body><div id=a style="width:200px;margin-left:7px;margin-right:auto">a</div></body>`,
			[]want{{"a", 7, 0, 200, 10}}},
		// §10.3.3 pre-test: "border + padding + width plus any of margin-left or margin-right
		// that are not auto" larger than the containing block: the auto margin is zero, the
		// equation is over-constrained and (ltr) margin-right gives way; each specified margin
		// counts on its own, and a sum that just fits leaves the auto margin to the equation
		{`<body id=body><div id=a style="width:80px;margin-left:auto;margin-right:150px">a</div></body>`,
			[]want{{"a", 0, 0, 80, 10}}},
		{`<body id=body><div id=a style="width:50px;margin-left:auto;margin-right:150px;padding-right:5px">a</div></body>`,
			[]want{{"a", 0, 0, 55, 10}}},
		{`<body id=body><div id=a style="width:50px;margin-left:auto;margin-right:150px">a</div></body>`,
			[]want{{"a", 0, 0, 50, 10}}},
		{`<body id=body><div id=a style="width:40px;margin-left:auto;margin-right:150px">a</div></body>`,
			[]want{{"a", 10, 0, 40, 10}}},
		{`<body id=body><div id=a style="width:80px;margin-left:150px;margin-right:auto">a</div></body>`,
			[]want{{"a", 150, 0, 80, 10}}},
		{`<body id=body><div id=a style="width:80px;margin-left:150px;margin-right:150px">a</div></body>`,
			[]want{{"a", 150, 0, 80, 10}}},
		// auto width that would be negative: min-width (initially 0) re-runs the rules with width 0
		{`<body id=body><div id=a style="margin-left:150px;margin-right:150px"></div></body>`,
			[]want{{"a", 150, nan, 0, 0}}},
		// §10.4: max-width then min-width, each re-running §10.3.3 (auto margins centre again)
		{`<body id=body><div id=a style="max-width:80px;margin-left:auto;margin-right:auto">a</div></body>`,
			[]want{{"a", 60, 0, 80, 10}}},
		{`<body id=body><div id=a style="width:50px;min-width:80px;max-width:30px">a</div></body>`,
			[]want{{"a", 0, 0, 80, 10}}},
		// box-sizing and percentages against the containing block's width
		{`<body id=body><div id=a style="width:120px;padding-left:11px;box-sizing:border-box"><div id=b style="width:50%;margin-left:10%;margin-top:10%;padding-left:3px;height:5px;box-sizing:border-box"></div>a</div></body>`,
			[]want{{"a", 0, 10.9, 120, 15}, {"b", 21.9, 10.9, 54.5, 5}}},
		// §10.7: the tentative height is cut to max-height, then raised to min-height (min-height wins)
		{`<body id=body><div id=a style="min-height:40px">a</div><div id=z>z</div></body>`,
			[]want{{"a", 0, 0, 200, 40}, {"z", 0, 40, 200, 10}}},
		{`<body id=body><div id=a style="max-height:8px">a</div><div id=z>z</div></body>`,
			[]want{{"a", 0, 0, 200, 8}, {"z", 0, 8, 200, 10}}},
		{`<body id=body><div id=a style="height:15px;min-height:12px;max-height:8px">a</div><div id=z>z</div></body>`,
			[]want{{"a", 0, 0, 200, 12}, {"z", 0, 12, 200, 10}}},
		// box-sizing: border-box: min-height is the height of the border box; the VERTICAL padding
		// and border are what is taken off it (padding: 5px 30px; border: 1px)
		{`<body id=body><div id=a style="padding-top:5px;padding-bottom:5px;border-top:1px solid;border-bottom:1px solid;min-height:40px;padding-left:30px;padding-right:30px;border-left:1px solid;border-right:1px solid;box-sizing:border-box">a</div><div id=z>z</div></body>`,
			[]want{{"a", 0, 0, 200, 40}, {"z", 0, 40, 200, 10}}},
		// padding-box: the border is added to the value; a value below the padding: content height 0
		{`<body id=body><div id=a style="padding-top:5px;padding-bottom:5px;border-top:1px solid;border-bottom:1px solid;height:15px;max-height:30px;box-sizing:padding-box">a</div><div id=z>z</div></body>`,
			[]want{{"a", 0, 0, 200, 17}, {"z", 0, 17, 200, 10}}},
		{`<body id=body><div id=a style="padding-top:20px;padding-bottom:2px;border-top:3px solid;max-height:8px;box-sizing:border-box">a</div><div id=z>z</div></body>`,
			[]want{{"a", 0, 0, 200, 25}, {"z", 0, 25, 200, 10}}},
		// percentages of a height that is not specified explicitly: min-height 0, max-height none;
		// of a specified height: of that height
		{`<body id=body><div id=a style="min-height:50%;max-height:50%">a</div><div id=z>z</div></body>`,
			[]want{{"a", 0, 0, 200, 10}, {"z", 0, 10, 200, 10}}},
		{`<body id=body><div id=p style="height:60px"><div id=a style="min-height:50%">a</div></div><div id=z>z</div></body>`,
			[]want{{"a", 0, 0, 200, 30}, {"z", 0, 60, 200, 10}}},
		// a box with a non-zero min-height is not collapsed through
		{`<body id=body><div id=a style="min-height:12px;margin-bottom:10px"></div><div id=z>z</div></body>`,
			[]want{{"a", 0, 0, 200, 12}, {"z", 0, 22, 200, 10}}},
	}
	var errs []string
	for _, c := range cases {
		doc, err := parseDesc(fmt.Sprintf("page 200x%d ", pageH) + c.desc)
		if err != nil {
			errs = append(errs, c.desc+": "+err.Error())
			continue
		}
		ref := buildRef(doc, false)
		for _, w := range c.want {
			var r *rbox
			for _, b := range ref.boxes {
				if b.spec.id == w.id {
					r = b
				}
			}
			if r == nil {
				errs = append(errs, c.desc+": no box "+w.id)
				continue
			}
			ok := func(want, got float64) bool { return math.IsNaN(want) || math.Abs(want-got) < 1e-9 }
			if !ok(w.x, r.x) || !ok(w.y, r.y) || !ok(w.w, r.bw) || !ok(w.h, r.bh) {
				errs = append(errs, fmt.Sprintf("%s: box %s: want x=%g y=%g w=%g h=%g, reference says x=%g y=%g w=%g h=%g", c.desc, w.id, w.x, w.y, w.w, w.h, r.x, r.y, r.bw, r.bh))
			}
		}
	}
	return errs
}
