package c10

import (
	"fmt"
	"strconv"
	"strings"
)

// ---- input description -------------------------------------------------------------------

type dkind uint8

const (
	dPx   dkind = iota // length in px
	dPct               // percentage
	dAuto              // auto
	dNone              // none (max-width) / not set (min-width: 0)
)

// dim is a CSS value of the menus: a px length, a percentage, auto or none.
type dim struct {
	k dkind
	v float64
}

func px(v float64) dim  { return dim{dPx, v} }
func pct(v float64) dim { return dim{dPct, v} }

var (
	auto = dim{k: dAuto}
	none = dim{k: dNone}
	zero = dim{}
)

func (d dim) css() string {
	switch d.k {
	case dAuto:
		return "auto"
	case dNone:
		return "none"
	case dPct:
		return strconv.FormatFloat(d.v, 'g', -1, 64) + "%"
	}
	if d.v == 0 {
		return "0"
	}
	return strconv.FormatFloat(d.v, 'g', -1, 64) + "px"
}

// used value of a length/percentage against the reference length ref.
func (d dim) used(ref float64) float64 {
	if d.k == dPct {
		return d.v * ref / 100
	}
	return d.v
}

// text placement inside a box
const (
	txNone   = 0
	txBefore = 1 // one line before the child blocks (the only content of a leaf)
	txAfter  = 2 // one line after the child blocks
)

// boxSpec is one div (or body) of a generated document: the declared values.
type boxSpec struct {
	id string
	// vertical
	mt, mb     dim // px | % | auto
	padT, padB dim // px | %
	borT, borB float64
	h          dim // auto | px | %
	minh, maxh dim // none | px | %
	text       int
	// horizontal
	w          dim // auto | px | %
	ml, mr     dim // px | % | auto
	minw, maxw dim // none | px | %
	padL, padR dim
	borL, borR float64
	borderBox  bool
	paddingBox bool // box-sizing: padding-box (borderBox is false)
	kids       []*boxSpec
	letter     string
}

func newBox(id string) *boxSpec {
	return &boxSpec{id: id, h: auto, w: auto, minw: none, maxw: none, minh: none, maxh: none, letter: id[:1]}
}

// style returns the declarations of b that differ from the initial values.
func (b *boxSpec) style() string {
	var st []string
	add := func(name, val string) { st = append(st, name+":"+val) }
	if b.mt != zero {
		add("margin-top", b.mt.css())
	}
	if b.mb != zero {
		add("margin-bottom", b.mb.css())
	}
	if b.padT != zero {
		add("padding-top", b.padT.css())
	}
	if b.padB != zero {
		add("padding-bottom", b.padB.css())
	}
	if b.borT != 0 {
		add("border-top", px(b.borT).css()+" solid")
	}
	if b.borB != 0 {
		add("border-bottom", px(b.borB).css()+" solid")
	}
	if b.h != auto {
		add("height", b.h.css())
	}
	if b.minh != none {
		add("min-height", b.minh.css())
	}
	if b.maxh != none {
		add("max-height", b.maxh.css())
	}
	if b.w != auto {
		add("width", b.w.css())
	}
	if b.ml != zero {
		add("margin-left", b.ml.css())
	}
	if b.mr != zero {
		add("margin-right", b.mr.css())
	}
	if b.minw != none {
		add("min-width", b.minw.css())
	}
	if b.maxw != none {
		add("max-width", b.maxw.css())
	}
	if b.padL != zero {
		add("padding-left", b.padL.css())
	}
	if b.padR != zero {
		add("padding-right", b.padR.css())
	}
	if b.borL != 0 {
		add("border-left", px(b.borL).css()+" solid")
	}
	if b.borR != 0 {
		add("border-right", px(b.borR).css()+" solid")
	}
	if b.borderBox {
		add("box-sizing", "border-box")
	} else if b.paddingBox {
		add("box-sizing", "padding-box")
	}
	return strings.Join(st, ";")
}

func (b *boxSpec) html(sb *strings.Builder) {
	tag := "div"
	if b.id == "body" {
		tag = "body"
	}
	sb.WriteString("<" + tag + " id=" + b.id)
	if s := b.style(); s != "" {
		sb.WriteString(` style="` + s + `"`)
	}
	sb.WriteString(">")
	if b.text == txBefore {
		sb.WriteString(b.letter)
	}
	for _, k := range b.kids {
		k.html(sb)
	}
	if b.text == txAfter {
		sb.WriteString(b.letter)
	}
	sb.WriteString("</" + tag + ">")
}

func (b *boxSpec) walk(f func(b, parent *boxSpec)) {
	var rec func(b, p *boxSpec)
	rec = func(b, p *boxSpec) {
		f(b, p)
		for _, k := range b.kids {
			rec(k, b)
		}
	}
	rec(b, nil)
}

// docSpec is a whole generated document.
type docSpec struct {
	pageW float64
	body  *boxSpec
}

const pageH = 2000

func (d *docSpec) html() string {
	var sb strings.Builder
	fmt.Fprintf(&sb, `<style>@page{size:%gpx %dpx;margin:0} html,body{margin:0;font-family:ahem;font-size:10px;line-height:1}</style>`, d.pageW, pageH)
	d.body.html(&sb)
	return sb.String()
}

// desc identifies the case uniquely and is enough to reproduce it by hand.
func (d *docSpec) desc() string {
	var sb strings.Builder
	fmt.Fprintf(&sb, "page %gx%d ", d.pageW, pageH)
	d.body.html(&sb)
	return sb.String()
}
