package c10

import "math"

// Reference model of CSS 2.1 §10.3.3 + §10.4 (widths and horizontal margins of block-level,
// non-replaced elements in normal flow), §8.3.1 (collapsing margins) and §10.6.3 (auto
// heights) for documents made of nested block boxes that contain at most one 10px line of
// text before or after their child blocks. Written from the specification text; it shares
// no code with html/layout.

const lineH = 10 // font: 10px/1 ahem

// rbox is the reference layout of one boxSpec.
type rbox struct {
	spec   *boxSpec
	parent *rbox
	kids   []*rbox
	idx    int // margin nodes: 2*idx = top margin, 2*idx+1 = bottom margin

	// horizontal (§10.3.3, §10.4)
	cbx, cbw       float64 // containing block: content x and width of the parent
	ml, mr, cw     float64 // used margins and content width
	overConstr     bool    // over-constrained: the used margin-right is not the specified one
	bl, br, pl, pr float64
	x, bw          float64 // border box x and width

	// vertical used values
	mt, mb float64
	pt, pb float64 // padding + border, top / bottom
	hAuto  bool
	hv     float64 // content height that follows from 'height' when !hAuto (before min/max-height)
	// §10.7: content-box values of min-height (0 when not set) and max-height (+Inf when none)
	minH, maxH float64
	minPctZero bool // min-height is a percentage whose used value is 0

	through bool // top and bottom margins are adjoining (§8.3.1): the box is collapsed through
	// emptyByReading: collapsed through only under the second reading of adjoining(); under
	// the letter it is a box whose first child is collapsed through
	emptyByReading bool
	y, bh          float64 // border box top and height (y is undefined when through)
	ch             float64 // content height
	hasLine        bool
	lineY          float64
	observable     bool    // non-zero border-box area or own text
	rawBottom      float64 // bottom border edge before the min-height floor is applied

	// sets of adjoining margins that lie immediately before the top edge / the line / the
	// bottom edge of this box (feature tags only)
	topSets, lineSets, botSets []int
}

type refDoc struct {
	// root is the root element's box (html, margin 0): it establishes the block formatting
	// context, so its margins do not collapse and its auto height runs from the top margin
	// edge of its first child to the bottom margin edge of its last child (§10.6.7).
	root  *rbox
	boxes []*rbox // pre-order, boxes[0] = body
	comp  []int   // union-find over margin nodes
	// ambiguous: the document holds a box of used height 0 without padding/border whose
	// in-flow children are all collapsed through, or an empty box whose percentage height
	// resolves to 0 (see adjoining)
	ambiguous bool
}

// ---- §10.3.3 / §10.4 --------------------------------------------------------------------

// solve1033 applies §10.3.3 once with the given (non-auto or auto) content width.
func solve1033(cb float64, ml, mr dim, wAuto bool, w, pb float64) (uml, uw, umr float64, over bool) {
	mlAuto, mrAuto := ml.k == dAuto, mr.k == dAuto
	mlv, mrv := 0.0, 0.0
	if !mlAuto {
		mlv = ml.used(cb)
	}
	if !mrAuto {
		mrv = mr.used(cb)
	}
	if !wAuto {
		// "If width is not auto and border + padding + width (plus any of margin-left or
		// margin-right that are not auto) is larger than the width of the containing block,
		// then any auto values for margin-left or margin-right are treated as zero."
		if pb+w+mlv+mrv > cb {
			mlAuto, mrAuto = false, false
		}
	}
	switch {
	case wAuto:
		// "If width is set to auto, any other auto values become 0 and width follows from
		// the resulting equality."
		return mlv, cb - pb - mlv - mrv, mrv, false
	case mlAuto && mrAuto:
		// "If both margin-left and margin-right are auto, their used values are equal."
		rest := cb - pb - w
		return rest / 2, w, rest / 2, false
	case mlAuto:
		return cb - pb - w - mrv, w, mrv, false
	case mrAuto:
		return mlv, w, cb - pb - w - mlv, false
	}
	// over-constrained, direction ltr: the specified margin-right is ignored
	return mlv, w, cb - pb - w - mlv, true
}

func (r *rbox) horizontal() {
	s := r.spec
	cb := r.cbw
	r.pl, r.pr = s.padL.used(cb), s.padR.used(cb)
	r.bl, r.br = s.borL, s.borR
	pb := r.pl + r.pr + r.bl + r.br
	// content-box value of a width-like property (box-sizing, floored at zero)
	conv := func(d dim) float64 {
		v := d.used(cb)
		switch {
		case s.borderBox:
			v = math.Max(0, v-pb)
		case s.paddingBox:
			v = math.Max(0, v-r.pl-r.pr)
		}
		return v
	}
	wAuto := s.w.k == dAuto
	w := 0.0
	if !wAuto {
		w = conv(s.w)
	}
	ml, uw, mr, over := solve1033(cb, s.ml, s.mr, wAuto, w, pb)
	// §10.4: "1. tentative used width (without min/max). 2. If it is greater than max-width,
	// the rules above are applied again using max-width as the computed value for width.
	// 3. If the resulting width is smaller than min-width, the rules are applied again using
	// min-width."
	if s.maxw.k != dNone {
		if mx := conv(s.maxw); uw > mx {
			ml, uw, mr, over = solve1033(cb, s.ml, s.mr, false, mx, pb)
		}
	}
	mn := 0.0
	if s.minw.k != dNone {
		mn = conv(s.minw)
	}
	if uw < mn {
		ml, uw, mr, over = solve1033(cb, s.ml, s.mr, false, mn, pb)
	}
	r.ml, r.cw, r.mr, r.overConstr = ml, uw, mr, over
	r.x = r.cbx + ml
	r.bw = pb + uw
	for _, k := range r.kids {
		k.cbx = r.x + r.bl + r.pl
		k.cbw = r.cw
		k.horizontal()
	}
}

// ---- used vertical values ------------------------------------------------------------------

func (r *rbox) verticalValues() {
	s := r.spec
	// §8.3/§8.4: percentages of vertical margins and paddings refer to the WIDTH of the
	// containing block; §10.6.3: auto vertical margins are 0.
	if s.mt.k != dAuto {
		r.mt = s.mt.used(r.cbw)
	}
	if s.mb.k != dAuto {
		r.mb = s.mb.used(r.cbw)
	}
	padT, padB := s.padT.used(r.cbw), s.padB.used(r.cbw)
	r.pt = padT + s.borT
	r.pb = padB + s.borB
	r.hAuto = true
	switch s.h.k {
	case dPx:
		r.hAuto, r.hv = false, s.h.v
	case dPct:
		// §10.5: a percentage refers to the height of the containing block; if that height
		// is not specified explicitly the value computes to auto.
		if r.parent != nil && !r.parent.hAuto {
			r.hAuto, r.hv = false, s.h.v*r.parent.hv/100
		}
	}
	// content-box value of a height-like property (box-sizing, floored at zero)
	conv := func(v float64) float64 {
		switch {
		case s.borderBox:
			v = math.Max(0, v-r.pt-r.pb)
		case s.paddingBox:
			v = math.Max(0, v-padT-padB)
		}
		return v
	}
	if !r.hAuto {
		r.hv = conv(r.hv)
	}
	// §10.7: a percentage min-height / max-height refers to the height of the containing block;
	// if that height is not specified explicitly the percentage is treated as 0 / none.
	cbDefinite := r.parent != nil && !r.parent.hAuto
	r.minH, r.maxH = 0, math.Inf(1)
	switch s.minh.k {
	case dPx:
		r.minH = conv(s.minh.v)
	case dPct:
		if cbDefinite {
			r.minH = conv(s.minh.v * r.parent.hv / 100)
		}
		r.minPctZero = r.minH == 0
	}
	switch s.maxh.k {
	case dPx:
		r.maxH = conv(s.maxh.v)
	case dPct:
		if cbDefinite {
			r.maxH = conv(s.maxh.v * r.parent.hv / 100)
		}
	}
	r.hasLine = s.text != txNone
	for _, k := range r.kids {
		k.verticalValues()
	}
}

// ---- §8.3.1 adjoining margins -------------------------------------------------------------

func (d *refDoc) find(i int) int {
	for d.comp[i] != i {
		d.comp[i] = d.comp[d.comp[i]]
		i = d.comp[i]
	}
	return i
}

func (d *refDoc) union(a, b int) {
	a, b = d.find(a), d.find(b)
	if a != b {
		d.comp[b] = a
	}
}

func top(r *rbox) int    { return 2 * r.idx }
func bottom(r *rbox) int { return 2*r.idx + 1 }

// firstIsKid: the first in-flow child of r is a child block (not the anonymous block that
// wraps a line of text).
func (r *rbox) firstIsKid() bool { return len(r.kids) > 0 && r.spec.text != txBefore }
func (r *rbox) lastIsKid() bool  { return len(r.kids) > 0 && r.spec.text != txAfter }

// heightZeroOrAuto: "zero or auto computed height".
func (r *rbox) heightZeroOrAuto() bool {
	return r.hAuto || (r.spec.h.k == dPx && r.spec.h.v == 0)
}

// adjoining builds the sets of adjoining margins. emptyReading selects the second reading of
// the one case in which the letter of §8.3.1 and the browsers differ: a box with height:0,
// no padding, no border and no line box whose in-flow children are all collapsed through has
// "in-flow children", so by the letter its bottom margin is adjoining neither to its own top
// margin (4th pair) nor to its last child's bottom margin (3rd pair: height is not auto);
// Gecko and Blink treat such a box as empty and collapse all these margins together.
func (d *refDoc) adjoining(emptyReading bool) {
	for _, r := range d.boxes {
		// "top margin of a box and top margin of its first in-flow child" – provided no
		// padding, border or line box separates them. (The body is the child of the root
		// element; the root's margins do not collapse, and the root is not modelled.)
		if r.firstIsKid() && r.pt == 0 {
			d.union(top(r), top(r.kids[0]))
		}
		// "bottom margin of box and top margin of its next in-flow following sibling"
		for i := 0; i+1 < len(r.kids); i++ {
			d.union(bottom(r.kids[i]), top(r.kids[i+1]))
		}
		// "bottom margin of a last in-flow child and bottom margin of its parent if the
		// parent has auto computed height"
		if r.lastIsKid() && r.pb == 0 && r.hAuto {
			d.union(bottom(r.kids[len(r.kids)-1]), bottom(r))
		}
		// "top and bottom margins of a box that does not establish a new block formatting
		// context and that has zero computed min-height, zero or auto computed height, and
		// no in-flow children"
		if len(r.kids) == 0 && !r.hasLine && r.pt == 0 && r.pb == 0 {
			// a percentage height that resolves to 0px does not "compute" to zero (the
			// computed value is the percentage); implementations look at the used value:
			// second ambiguous case, same treatment
			zeroPct := r.spec.h.k == dPct && !r.hAuto && r.hv == 0
			// likewise "zero computed min-height": a percentage min-height whose used value is 0
			// (a percentage of a height that is not specified explicitly, or of 0) does not
			// compute to zero: third ambiguous case, same treatment
			if (r.heightZeroOrAuto() || zeroPct) && r.minH == 0 {
				byReading := zeroPct || r.minPctZero
				if byReading {
					d.ambiguous = true
				}
				if !byReading || emptyReading {
					d.union(top(r), bottom(r))
				}
			}
		}
	}
	for changed := true; changed; {
		changed = false
		for _, r := range d.boxes {
			r.through = d.find(top(r)) == d.find(bottom(r))
		}
		for i := len(d.boxes) - 1; i >= 0; i-- {
			r := d.boxes[i]
			if r.through || len(r.kids) == 0 || r.hasLine || r.pt != 0 || r.pb != 0 || r.hAuto || r.hv != 0 || r.minH != 0 || r.minPctZero {
				continue
			}
			all := true
			for _, k := range r.kids {
				all = all && k.through
			}
			if !all {
				continue
			}
			d.ambiguous = true
			if emptyReading {
				d.union(top(r), bottom(r))
				r.emptyByReading = true
				changed = true
				break
			}
		}
	}
}

// collapsed value of the set of adjoining margins that contains node m:
// "the maximum of the positive margins plus the most negative of the negative margins".
func (d *refDoc) collapsed(m int) float64 {
	c := d.find(m)
	pos, neg := 0.0, 0.0
	for _, r := range d.boxes {
		for side, v := range [2]float64{r.mt, r.mb} {
			if d.find(2*r.idx+side) != c {
				continue
			}
			if v > pos {
				pos = v
			}
			if v < neg {
				neg = v
			}
		}
	}
	return pos + neg
}

// ---- placement -----------------------------------------------------------------------------

// event is one step of the walk through the flow (kept for the feature tags).
type event struct {
	kind    uint8 // evSet: a set of adjoining margins is added; evTop/evLine/evBottom: an edge is placed
	set     int
	box     *rbox
	pending []int // evBottom of an auto-height box whose bottom margin collapses with its last child's
}

const (
	evSet = iota
	evTop
	evLine
	evBottom
	evAdvance // the cursor moves over something that has a height
)

// cursor walks the flow top to bottom. Margins met on the way are not added at once: a set of
// adjoining margins is added (once, with its collapsed value) when the next border edge or
// line box that comes after it is placed.
type cursor struct {
	d       *refDoc
	y       float64
	pending []int // sets met and not yet added
	done    map[int]bool
	events  []event
}

func (c *cursor) meet(m int) {
	k := c.d.find(m)
	if c.done[k] {
		return
	}
	c.done[k] = true
	c.pending = append(c.pending, k)
}

func (c *cursor) flush() {
	for _, k := range c.pending {
		c.y += c.d.collapsed(k)
		c.events = append(c.events, event{kind: evSet, set: k})
	}
	c.pending = nil
}

func (c *cursor) advance(dy float64) {
	if dy != 0 {
		c.events = append(c.events, event{kind: evAdvance})
	}
	c.y += dy
}

func (c *cursor) place(r *rbox) {
	c.meet(top(r))
	if r.through {
		// nothing of r (nor of its descendants, all collapsed through as well) has an area;
		// their margins join the current set.
		r.y, r.ch, r.bh = math.NaN(), 0, 0
		for _, k := range r.kids {
			c.place(k)
		}
		c.meet(bottom(r))
		return
	}
	c.flush()
	c.events = append(c.events, event{kind: evTop, box: r})
	r.y = c.y
	c.advance(r.pt)
	contentTop := c.y
	line := func() {
		c.flush()
		c.events = append(c.events, event{kind: evLine, box: r})
		r.lineY = c.y
		c.advance(lineH)
	}
	if r.spec.text == txBefore {
		line()
	}
	for _, k := range r.kids {
		c.place(k)
	}
	if r.spec.text == txAfter {
		line()
	}
	ev := event{kind: evBottom, box: r}
	if r.hAuto {
		// §10.6.3: distance from the top content edge to (1) the bottom of the last line box,
		// (2) the bottom edge of the (collapsed) bottom margin of the last in-flow child if
		// that margin does not collapse with the element's bottom margin, (3) the bottom
		// border edge of the last in-flow child whose top margin does not collapse with the
		// element's bottom margin, (4) zero.
		linked := r.lastIsKid() && r.pb == 0
		if linked {
			ev.pending = append([]int(nil), c.pending...)
		} else {
			c.flush()
		}
		r.ch = c.y - contentTop
		r.rawBottom = c.y + r.pb
		// §10.7: the tentative height is cut to max-height, then raised to min-height (initial
		// value 0: a floor of the used height)
		if ch := r.clampH(r.ch); ch != r.ch {
			c.y = contentTop + ch
			r.ch = ch
		}
	} else {
		// fixed height: whatever the content did, the bottom content edge is there; margins
		// of the content that are still pending are not adjoining to anything that follows.
		r.ch = r.clampH(r.hv)
		ev.pending = c.pending
		c.pending = nil
		c.advance(contentTop + r.ch - c.y)
		r.rawBottom = c.y + r.pb
	}
	c.events = append(c.events, ev)
	c.advance(r.pb)
	r.bh = c.y - r.y
	c.meet(bottom(r))
}

// clampH applies §10.7 to a tentative content height.
func (r *rbox) clampH(h float64) float64 {
	return math.Max(math.Min(h, r.maxH), r.minH)
}

// tagWalk computes, for every edge, the sets of adjoining margins that lie immediately before
// it (nothing that has a height in between): a defect in the handling of one of them shows
// there. The bottom edge of a fixed-height box depends on whatever its top edge depended on.
func (c *cursor) tagWalk() {
	var recent []int
	for _, ev := range c.events {
		r := ev.box
		switch ev.kind {
		case evSet:
			recent = append(recent, ev.set)
		case evAdvance:
			recent = nil
		case evTop:
			r.topSets = append([]int(nil), recent...)
		case evLine:
			r.lineSets = append([]int(nil), recent...)
		case evBottom:
			if !r.hAuto {
				recent = append(recent, r.topSets...)
			}
			r.botSets = append(append([]int(nil), recent...), ev.pending...)
		}
	}
}

func buildRef(doc *docSpec, emptyReading bool) *refDoc {
	d := &refDoc{}
	var mk func(s *boxSpec, p *rbox) *rbox
	mk = func(s *boxSpec, p *rbox) *rbox {
		r := &rbox{spec: s, parent: p, idx: len(d.boxes)}
		d.boxes = append(d.boxes, r)
		for _, k := range s.kids {
			r.kids = append(r.kids, mk(k, r))
		}
		return r
	}
	body := mk(doc.body, nil)
	d.comp = make([]int, 2*len(d.boxes))
	for i := range d.comp {
		d.comp[i] = i
	}
	// the body's containing block is the root element's content box = the page (margin 0)
	body.cbx, body.cbw = 0, doc.pageW
	body.horizontal()
	body.verticalValues()
	d.adjoining(emptyReading)
	c := &cursor{d: d, done: map[int]bool{}}
	d.root = &rbox{spec: newBox("html"), hAuto: true, observable: true, cbw: doc.pageW, bw: doc.pageW, maxH: math.Inf(1)}
	c.events = append(c.events, event{kind: evTop, box: d.root})
	c.place(body)
	c.flush()
	d.root.rawBottom = c.y
	d.root.ch = math.Max(0, c.y)
	d.root.bh = d.root.ch
	c.events = append(c.events, event{kind: evBottom, box: d.root})
	for _, r := range d.boxes {
		r.observable = !r.through && (r.bh > 0 && r.bw > 0 || r.hasLine)
	}
	c.tagWalk()
	return d
}
