// Package c10: block-level boxes are sized and stacked per CSS 2.1.
//
// Bounded exhaustive enumeration of block-only documents laid out by the real code
// (render.Layout) and compared, box by box, with a reference model of CSS 2.1 §10.3.3, §10.4,
// §8.3.1, §10.6.3 and §10.7 (ref.go; its own examples are in selftest.go):
//
//   - vertical: deviation lattice over every shape of 3 (4) divs under body; slots per box:
//     margin-top, margin-bottom, top padding/border, bottom border/padding, height, content;
//     plus a trailing sentinel line; two skeletons (every box empty / every box holds a line);
//   - horizontal: full product of the width/margin/min/max/box-sizing/padding/border menu on
//     one box inside several containers, with a child that probes its content box (these
//     units come first); the margin menu holds a value (150px) that alone decides whether
//     border + padding + width + non-auto margins exceed the containing width, so that the
//     pre-test of §10.3.3 is enumerated below, at and above the containing width with no,
//     one (either side) and two auto margins;
//   - vertical sizing: full product of height x min-height x max-height x box-sizing
//     (content-box, border-box, padding-box) x padding/border sets whose vertical and
//     horizontal sums are equal, different or zero on one axis x content, on one box inside
//     containers with and without an explicitly specified height (§10.5, §10.7);
//   - cross term: every low-level vertical case with one horizontal, percentage or box-sizing
//     deviation on one box, or min-height / max-height on a box without child blocks.
//
// Clauses: width, x, margin-left, margin-right (not over-constrained), width-equation, text-x;
// y (top border edge of observable boxes and lines of text), bottom (bottom border edge of
// observable auto-height boxes), height (fixed-height boxes and boxes without area),
// no-overlap, box-count, line-missing. Vertical edges are compared in flow order and an edge
// displaced like the edge before it is a consequence, not a new failure.
//
// Feature tags are computed by the reference model from the input alone: they describe the
// sets of adjoining margins that lie immediately before the failing edge
// (collapsed-through, nested-empty-blocks, first-child-collapsed-through, negative-margin),
// the box (fixed-height-parent, at-collapsed-through-box) or its horizontal declarations.
//
// Development aids (environment): C10_CENSUS=1 puts the feature set into the clause name so
// that the engine reports every (clause, feature set) class; C10_ONLY=V|H|X|S (any subset) keeps the units
// of some sub-spaces. `c10 show '<body id=body>…'` prints reference and observed layout.
package c10

import (
	"fmt"
	"math"
	"os"
	"sort"
	"strings"

	"verif/internal/engine"
)

const tol = 1e-3

var censusMode = os.Getenv("C10_CENSUS") != ""

type check struct {
	tier   string
	vmenus []*vmenu
	shapes map[int][][]int
	hs     *hspace
	ss     *sspace
	units  []unit
}

func init() { engine.Register(&check{}) }

func (c *check) ID() string { return "C10" }

func (c *check) Init(tier string, seed int64) engine.Space {
	c.tier = tier
	c.shapes = map[int][][]int{3: shapes(3), 4: shapes(4)}
	c.units = nil
	if errs := refSelfTest(); len(errs) > 0 {
		// a broken reference is a broken check, not a verdict: no unit, the engine exits 2
		fmt.Fprintln(os.Stderr, "C10: the reference model fails its own examples:\n  "+strings.Join(errs, "\n  "))
		return engine.Space{Units: 0, Rule: "reference self-test failed"}
	}
	type plan struct {
		m      vmenu
		xLevel int // cross term on this menu up to this level (-1: none)
	}
	var plans []plan
	if tier == "thorough" {
		plans = []plan{
			{vmenu{nBoxes: 3, maxLevel: 5}, 2},
			{vmenu{nBoxes: 3, textSkel: true, maxLevel: 4}, -1},
			{vmenu{nBoxes: 4, wide: true, maxLevel: 3}, -1},
		}
		c.hs = &hspace{containers: 3}
		c.ss = &sspace{containers: 3, padSets: sPadSetsQuick}
		// every on/off combination of the four vertical and of two horizontal paddings/borders
		for i := 1; i < 64; i++ {
			c.ss.padSets = append(c.ss.padSets, padSet8{4 * float64(i&1), 7 * float64(i>>1&1), 2 * float64(i>>2&1), 5 * float64(i>>3&1), 11 * float64(i>>4&1), 0, 0, 6 * float64(i>>5&1)})
		}
		for i := 0; i < 16; i++ {
			c.hs.padSets = append(c.hs.padSets, [4]float64{3 * float64(i&1), 5 * float64(i>>1&1), 2 * float64(i>>2&1), 4 * float64(i>>3&1)})
		}
	} else {
		plans = []plan{
			{vmenu{nBoxes: 3, maxLevel: 4}, 1},
			{vmenu{nBoxes: 3, textSkel: true, maxLevel: 3}, -1},
			{vmenu{nBoxes: 4, maxLevel: 2}, -1},
		}
		c.hs = &hspace{containers: 2, padSets: [][4]float64{{0, 0, 0, 0}, {3, 5, 0, 0}, {0, 0, 2, 4}, {3, 5, 2, 4}}}
		c.ss = &sspace{containers: 2, padSets: sPadSetsQuick}
	}
	c.vmenus = nil
	bounds := map[string]any{}
	// horizontal product: one-box documents, the simplest of the space, come first (a run that
	// is cut by its deadline on a loaded machine has still covered the whole of §10.3.3/§10.4)
	const hBatch = 96
	for lo := int64(0); lo < c.hs.size(); lo += hBatch {
		hi := lo + hBatch
		if hi > c.hs.size() {
			hi = c.hs.size()
		}
		c.units = append(c.units, unit{space: spH, lo: lo, hi: hi})
	}
	// vertical sizing product: one-box documents as well
	for lo := int64(0); lo < c.ss.size(); lo += hBatch {
		hi := lo + hBatch
		if hi > c.ss.size() {
			hi = c.ss.size()
		}
		c.units = append(c.units, unit{space: spS, lo: lo, hi: hi})
	}
	var vdesc []string
	for mi := range plans {
		m := plans[mi].m
		c.vmenus = append(c.vmenus, &m)
		subs := subsets(m.nSlots(), m.maxLevel)
		sh := c.shapes[m.nBoxes]
		for _, s := range subs {
			for si := range sh {
				c.units = append(c.units, unit{space: spV, menu: uint8(mi), shape: uint16(si), subset: s})
			}
		}
		skel := "every box empty"
		if m.textSkel {
			skel = "every box holds one line"
		}
		vdesc = append(vdesc, fmt.Sprintf("%d divs (%d shapes), skeleton: %s, <= %d deviations, padding and border on both sides: %v", m.nBoxes, len(sh), skel, m.maxLevel, m.wide))
	}
	// cross term
	for mi := range plans {
		if plans[mi].xLevel < 0 {
			continue
		}
		m := c.vmenus[mi]
		for _, s := range subsets(m.nSlots(), plans[mi].xLevel) {
			for si := range c.shapes[m.nBoxes] {
				for b := 0; b < m.nBoxes; b++ {
					c.units = append(c.units, unit{space: spX, menu: uint8(mi), shape: uint16(si), subset: s, box: int8(b)})
				}
			}
		}
		bounds["cross"] = fmt.Sprintf("every vertical case with <= %d deviations of menu 0 x one of %d horizontal/percentage/box-sizing deviations on one box", plans[mi].xLevel, len(crossMenu))
	}
	if only := os.Getenv("C10_ONLY"); only != "" { // development aid: keep the units of some spaces
		var keep []unit
		for _, u := range c.units {
			if strings.IndexByte(only, "VHXS"[u.space]) >= 0 {
				keep = append(keep, u)
			}
		}
		c.units = keep
	}
	bounds["vertical"] = vdesc
	bounds["vertical_menu"] = "margin-top/bottom {0,10,-4,20}px; top padding|border {0,2px}; bottom border|padding {0,2px}; height {auto,15px,0}; content {nothing, one 10px line (before or after the child blocks)}; trailing sentinel line {present, absent}"
	bounds["horizontal"] = fmt.Sprintf("full product: width {auto,50px,50%%,200px} x margin-left/right {0,auto,7px,-3px,10%%,150px} x min-width {none,30px,80px} x max-width {none,30px,80px} x box-sizing {content-box,border-box,padding-box} x %d padding/border sets (padding 3px|5px, border 2px|4px) x %d containers; a child with percentages probes the content box. With width:50px the 150px margin puts border+padding+width+margin exactly at the 200px containing width (no padding/border, or border-box) or above it (padding/border, 120px container, width:50%%) while width alone fits: the pre-test of 10.3.3 is decided by one specified margin, with the other margin auto (either side), 0 or a length", len(c.hs.padSets), c.hs.containers)
	bounds["vertical_sizing"] = fmt.Sprintf("full product: height {auto,15px,50%%} x min-height {none,12px,40px,50%%} x max-height {none,8px,30px,50%%} x box-sizing {content-box,border-box,padding-box} x %d padding/border sets (vertical and horizontal sums equal, different, one of them 0, padding only, border only, vertical sum above and below the menu values) x content {nothing, one 10px line, a 20px child block} x width {auto,100px} x margin-bottom {0,10px} x %d containers (height not specified; height:60px; auto height with padding/border); a sentinel line follows", len(c.ss.padSets), c.ss.containers)
	chunk := int64(4)
	return engine.Space{
		Units: int64(len(c.units)), Chunk: chunk, Level: "model_checking",
		Rule:     "full product (horizontal menu); deviation lattice (vertical menu) over every shape, simplest first; cross term; a unit is one (shape, slot subset) with all its value assignments, or a batch of the product. A case is non-trivial when at least one box other than body and the sentinel is observable (non-zero border-box area or own text), so that a position clause is evaluated",
		Bounds:   bounds,
		CaseCPUs: 10,
		Assumptions: []string{
			"left-to-right documents, one page, no floats/clearance/positioning/tables/replaced elements",
			"vertical margin values outside {0,10,-4,20}px, 10% and auto, horizontal margin values outside {0,7,-3,150}px, 10% and auto, and trees deeper than 4 divs, are not explored",
			"positions of boxes without border-box area and without own text are not compared (nothing observable depends on them)",
			"the used margin-right of an over-constrained box is not compared (not stored by the implementation, not observable)",
			"min-height / max-height / box-sizing:padding-box are declared on the one box of the vertical sizing product only (its children and its container have none): their interplay with margin collapsing between a box and its children (8.3.1: 'min-height of zero') and percentage heights of the children of a box whose height is cut or raised are not explored",
		},
	}
}

// ---- running -----------------------------------------------------------------------------------

// reporter is the part of engine.Ctx the check uses (the census tool has its own).
type reporter interface {
	Case(nontrivial bool, outcome string)
	Trans(n int64)
	Count(name string, n int64)
	Fail(f engine.Failure)
	GuardFail(desc string, features []string, f func()) bool
}

func (c *check) Run(u int64, ctx *engine.Ctx) { c.run(u, ctx) }

func (c *check) run(u int64, ctx reporter) {
	un := c.units[u]
	switch un.space {
	case spV:
		m := c.vmenus[un.menu]
		parent := c.shapes[m.nBoxes][un.shape]
		m.forEachAssignment(parent, un.subset, func(alts []int) {
			doc := m.build(parent, un.subset, alts)
			if m.textSkel && emptyLevel(doc) <= c.vmenus[0].maxLevel && m.nBoxes == c.vmenus[0].nBoxes {
				return // the same document is a case of the all-empty skeleton's lattice
			}
			ctx.Trans(int64(len(un.subset)))
			c.runCase(ctx, doc, "V")
		})
	case spH:
		for i := un.lo; i < un.hi; i++ {
			ctx.Trans(1)
			c.runCase(ctx, c.hs.build(i), "H")
		}
	case spS:
		for i := un.lo; i < un.hi; i++ {
			ctx.Trans(1)
			c.runCase(ctx, c.ss.build(i), "S")
		}
	case spX:
		m := c.vmenus[un.menu]
		parent := c.shapes[m.nBoxes][un.shape]
		bi := int(un.box)
		m.forEachAssignment(parent, un.subset, func(alts []int) {
		dev:
			for _, cd := range crossMenu {
				if cd.leafOnly && !isLeaf(parent, bi) {
					continue
				}
				for _, s := range un.subset {
					if cd.slot >= 0 && int(s) == bi*nProps+cd.slot {
						continue dev // the deviation would overwrite a vertical one
					}
				}
				doc, boxes := m.skeleton(parent)
				for i, s := range un.subset {
					m.apply(doc, boxes, parent, int(s), alts[i])
				}
				if cd.slot == pH {
					// height:50% of a height:0 parent: whether an empty box whose percentage
					// height resolves to 0 is collapsed through is not settled by §8.3.1
					// ("zero computed height"); the region is left out
					if p := parent[bi]; p >= 0 && boxes[p].h == px(0) {
						continue
					}
				}
				cd.apply(boxes[bi])
				ctx.Trans(int64(len(un.subset)) + 1)
				c.runCase(ctx, doc, "X")
			}
		})
	}
}

func near(a, b float64) bool { return math.Abs(a-b) <= tol }

func (c *check) runCase(ctx reporter, doc *docSpec, space string) {
	desc := doc.desc()
	ref := buildRef(doc, false)
	feats := docFeatures(ref)
	var obs map[string]*obox
	var err error
	if !ctx.GuardFail(desc, feats, func() { obs, err = observe(doc) }) {
		ctx.Case(true, "panic")
		return
	}
	if err != nil {
		ctx.Case(true, "error")
		ctx.Fail(engine.Failure{Clause: "layout-error", Features: feats, Case: desc, Detail: err.Error()})
		return
	}
	// outcome key
	var ob strings.Builder
	nontrivial := false
	for _, r := range ref.boxes {
		o := obs[r.spec.id]
		if o == nil {
			ob.WriteString(r.spec.id + ":missing;")
			continue
		}
		fmt.Fprintf(&ob, "%s:%s,%s,%s,%s;", r.spec.id, num(o.x), num(o.y), num(o.bw), num(o.bh))
		if r.observable && r.spec.id != "body" && r.spec.id != "z" {
			nontrivial = true
		}
	}
	ctx.Case(nontrivial, ob.String())
	ctx.Count("cases-"+space, 1)

	fails := judge(ctx, doc, ref, obs, desc)
	for _, f := range fails {
		ctx.Fail(f)
	}
}

// judge compares the layout with the reference, under both readings where the document is
// in the region in which the letter of §8.3.1 and the browsers differ.
func judge(ctx reporter, doc *docSpec, ref *refDoc, obs map[string]*obox, desc string) []engine.Failure {
	fails := compare(ctx, ref, obs, desc)
	if len(fails) > 0 && ref.ambiguous {
		// §8.3.1 read literally keeps the bottom margin of a height:0 box that has (only
		// collapsed-through) children apart from its top margin; browsers treat such a box
		// as empty and collapse through it. Either reading is accepted; when neither fits,
		// the disagreements with the closer one are reported.
		alt := compare(nullReporter{}, buildRef(doc, true), obs, desc)
		if len(alt) == 0 {
			ctx.Count("accepted-under-the-empty-box-reading-of-height:0-boxes", 1)
		}
		if len(alt) < len(fails) {
			fails = alt // the reading the implementation follows
		}
	}
	return fails
}

type nullReporter struct{}

func (nullReporter) Case(bool, string)                       {}
func (nullReporter) Trans(int64)                             {}
func (nullReporter) Count(string, int64)                     {}
func (nullReporter) Fail(engine.Failure)                     {}
func (nullReporter) GuardFail(string, []string, func()) bool { return true }

// compare evaluates every clause of the oracle on one laid-out document.
func compare(ctx reporter, ref *refDoc, obs map[string]*obox, desc string) (fails []engine.Failure) {
	fail := func(clause string, r *rbox, f []string, detail string) {
		f = append([]string(nil), f...)
		sort.Strings(f)
		if censusMode {
			// development aid: one engine report per (clause, feature set)
			clause, f = clause+"{"+strings.Join(f, ",")+"}", nil
		}
		fails = append(fails, engine.Failure{Clause: clause, Features: f, Case: desc,
			Detail: fmt.Sprintf("box %s: %s", r.spec.id, detail)})
	}

	// every element generates exactly one block box
	for _, r := range ref.boxes {
		if o := obs[r.spec.id]; o == nil || o.nElem != 1+btoi(r.spec.text != txNone && len(r.kids) > 0) {
			n := 0
			if o != nil {
				n = o.nElem
			}
			fail("box-count", r, nil, fmt.Sprintf("%d boxes for the element", n))
			return fails
		}
	}

	// horizontal clauses, document order; the first disagreement per clause is reported
	hdone := map[string]bool{}
	hfail := func(clause string, r *rbox, detail string) {
		if !hdone[clause] {
			hdone[clause] = true
			fail(clause, r, horizontalFeatures(r), detail)
		}
	}
	for _, r := range ref.boxes {
		o := obs[r.spec.id]
		ctx.Count("width-compared", 1)
		if !near(o.bw, r.bw) || !near(o.cw, r.cw) {
			hfail("width", r, fmt.Sprintf("expected border-box width %s (content %s), got %s (content %s)", num(r.bw), num(r.cw), num(o.bw), num(o.cw)))
		}
		if !near(o.x, r.x) {
			hfail("x", r, fmt.Sprintf("expected border-box x %s, got %s", num(r.x), num(o.x)))
		}
		if !near(o.ml, r.ml) {
			hfail("margin-left", r, fmt.Sprintf("expected used margin-left %s, got %s", num(r.ml), num(o.ml)))
		}
		if !r.overConstr {
			ctx.Count("margin-right-compared", 1)
			if !near(o.mr, r.mr) {
				hfail("margin-right", r, fmt.Sprintf("expected used margin-right %s, got %s", num(r.mr), num(o.mr)))
			}
			// the equation of §10.3.3 on the implementation's own values
			if sum := o.ml + o.bw + o.mr; !near(sum, r.cbw) {
				hfail("width-equation", r, fmt.Sprintf("margin-left + border box + margin-right = %s, containing block width %s", num(sum), num(r.cbw)))
			}
		} else {
			ctx.Count("over-constrained", 1)
		}
		if r.spec.ml.k == dAuto && r.spec.mr.k == dAuto && r.ml != 0 {
			ctx.Count("centred-by-auto-margins", 1)
		}
		if r.spec.minw.k != dNone || r.spec.maxw.k != dNone {
			ctx.Count("min-max-width-declared", 1)
		}
		if r.hasLine && o.hasLine && !near(o.lineX, r.x+r.bl+r.pl) {
			hfail("text-x", r, fmt.Sprintf("expected the line at x %s, got %s", num(r.x+r.bl+r.pl), num(o.lineX)))
		}
	}

	// vertical clauses, edge by edge in flow order: top border edge (observable boxes), line of
	// text, then bottom border edge (observable auto-height boxes) or height (fixed-height
	// boxes and boxes without area). An edge that is displaced by the same amount as the
	// edge compared before it is a consequence of the earlier disagreement and is not
	// reported again.
	delta := 0.0
	edge := func(clause string, r *rbox, f []string, what string, want, got float64) {
		d := got - want
		if math.Abs(d) > tol && math.Abs(d-delta) > tol {
			fail(clause, r, f, fmt.Sprintf("expected %s %s, got %s", what, num(want), num(got)))
		}
		delta = d
	}
	var visit func(r *rbox)
	visit = func(r *rbox) {
		o := obs[r.spec.id]
		if r.through {
			ctx.Count("collapsed-through-boxes", 1)
		}
		if r.observable {
			ctx.Count("y-compared", 1)
			edge("y", r, ref.edgeFeatures(r, r.topSets), "border-box top", r.y, o.y)
		}
		line := func() {
			ctx.Count("line-y-compared", 1)
			if !o.hasLine {
				fail("line-missing", r, nil, "no line box for the text")
				return
			}
			edge("y", r, ref.edgeFeatures(r, r.lineSets), "the line of text at y", r.lineY, o.lineY)
		}
		if r.spec.text == txBefore {
			line()
		}
		for _, k := range r.kids {
			visit(k)
		}
		if r.spec.text == txAfter {
			line()
		}
		switch {
		case r.observable && r.hAuto:
			ctx.Count("auto-height-bottom-compared", 1)
			want, got := r.y+r.bh, o.y+o.bh
			// the used height is floored at zero (cut to max-height, raised to min-height): an
			// earlier displacement d of the content moves this edge to
			// max(top content edge, undisplaced bottom + d), likewise cut and raised
			if cons := o.y + r.pt + r.clampH(r.rawBottom-r.pb+delta-(o.y+r.pt)) + r.pb; !near(got, want) && near(got, cons) {
				delta = got - want
				break
			}
			edge("bottom", r, ref.edgeFeatures(r, r.botSets), "border-box bottom", want, got)
		case r.observable:
			ctx.Count("fixed-height-compared", 1)
			if !near(o.bh, r.bh) {
				fail("height", r, ref.edgeFeatures(r, nil), fmt.Sprintf("expected border-box height %s, got %s", num(r.bh), num(o.bh)))
			}
			delta = o.y + o.bh - (r.y + r.bh)
		default:
			// no area according to the reference: only the height is compared
			ctx.Count("height-of-arealess-box-compared", 1)
			if !near(o.bh, r.bh) {
				var f []string
				if r.through {
					f = append(ref.setFeatures([]int{ref.find(top(r))}), "at-collapsed-through-box")
				} else {
					// the height of a box follows from the edges of everything inside it
					f = ref.subtreeFeatures(r)
				}
				fail("height", r, uniq(f), fmt.Sprintf("expected border-box height %s, got %s", num(r.bh), num(o.bh)))
				if !r.through && r.hAuto {
					// what follows hangs below this bottom edge: if the edge is where the
					// earlier displacement puts it, that displacement goes on from here
					got := o.y + o.bh
					if cons := o.y + r.pt + r.clampH(r.rawBottom-r.pb+delta-(o.y+r.pt)) + r.pb; near(got, cons) {
						delta = got - (r.y + r.bh)
					}
				}
			}
		}
	}
	visit(ref.boxes[0])
	if o := obs["html"]; o != nil {
		// the root element ends at the bottom margin edge of the body (§10.6.7)
		ctx.Count("root-bottom-compared", 1)
		r := ref.root
		want, got := r.y+r.bh, o.y+o.bh
		if cons := math.Max(o.y, r.rawBottom+delta); near(got, want) || !near(got, cons) {
			edge("bottom", r, ref.setFeatures(r.botSets), "border-box bottom of the root element", want, got)
		}
	} else {
		fail("box-count", ref.root, nil, "no box for the root element")
	}

	// collapsed sets that were exercised
	countSets(ctx, ref)

	// siblings do not overlap and follow document order when no margin is negative and no
	// content overflows a fixed height (evaluated on the implementation's boxes alone)
	if noOverlapApplies(ref) {
		for _, r := range ref.boxes {
			var prev *obox
			var prevID string
			for _, k := range r.kids {
				o := obs[k.spec.id]
				if o.bh <= 0 {
					continue
				}
				if prev != nil {
					ctx.Count("no-overlap-evaluated", 1)
					if o.y < prev.y+prev.bh-tol {
						fail("no-overlap", k, ref.edgeFeatures(k, k.topSets), fmt.Sprintf("border box starts at %s, above the bottom %s of its preceding sibling %s", num(o.y), num(prev.y+prev.bh), prevID))
					}
				}
				prev, prevID = o, k.spec.id
			}
		}
	}
	return fails
}

func btoi(b bool) int {
	if b {
		return 1
	}
	return 0
}

func uniq(l []string) []string {
	sort.Strings(l)
	var out []string
	for i, x := range l {
		if i == 0 || x != l[i-1] {
			out = append(out, x)
		}
	}
	return out
}

func noOverlapApplies(ref *refDoc) bool {
	for _, r := range ref.boxes {
		if r.mt < 0 || r.mb < 0 || r.ml < 0 || r.mr < 0 {
			return false
		}
		if !r.hAuto && (len(r.kids) > 0 || r.hasLine) {
			return false
		}
	}
	return true
}

func countSets(ctx reporter, ref *refDoc) {
	type agg struct {
		n, nz    int
		pos, neg bool
	}
	sets := map[int]*agg{}
	for _, r := range ref.boxes {
		for side, v := range [2]float64{r.mt, r.mb} {
			k := ref.find(2*r.idx + side)
			a := sets[k]
			if a == nil {
				a = &agg{}
				sets[k] = a
			}
			a.n++
			if v != 0 {
				a.nz++
			}
			if v > 0 {
				a.pos = true
			}
			if v < 0 {
				a.neg = true
			}
		}
	}
	for _, a := range sets {
		if a.nz >= 2 {
			ctx.Count("collapsed-sets-with>=2-nonzero-margins", 1)
		}
		if a.pos && a.neg {
			ctx.Count("collapsed-sets-mixing-signs", 1)
		}
	}
}

// ---- feature tags (computed from the input and the reference's reading of it) ----------------

func docFeatures(ref *refDoc) []string {
	set := map[string]bool{}
	for _, r := range ref.boxes {
		s := r.spec
		if r.mt < 0 || r.mb < 0 {
			set["negative-margin"] = true
		}
		if r.through {
			set["collapsed-through"] = true
			if len(r.kids) > 0 {
				set["nested-empty-blocks"] = true
			}
		} else {
			if r.firstIsKid() && r.pt == 0 && r.kids[0].through {
				set["first-child-collapsed-through"] = true
			}
			if r.lastIsKid() && r.kids[len(r.kids)-1].through {
				set["last-child-collapsed-through"] = true
			}
		}
		if !r.hAuto && len(r.kids) > 0 {
			set["fixed-height-parent"] = true
		}
		if s.minh.k != dNone {
			set["min-height"] = true
		}
		if s.maxh.k != dNone {
			set["max-height"] = true
		}
		if s.paddingBox {
			set["padding-box"] = true
		}
		if s.w.k != dAuto || s.ml != zero || s.mr != zero || s.minw.k != dNone || s.maxw.k != dNone {
			set["horizontal"] = true
		}
	}
	var out []string
	for k := range set {
		out = append(out, k)
	}
	sort.Strings(out)
	return out
}

// setFeatures describes sets of adjoining margins: which kinds of boxes contribute.
func (d *refDoc) setFeatures(sets []int) []string {
	var out []string
	for _, k := range sets {
		for _, r := range d.boxes {
			for side, v := range [2]float64{r.mt, r.mb} {
				if d.find(2*r.idx+side) != k {
					continue
				}
				if v < 0 {
					out = append(out, "negative-margin")
				}
				if r.through {
					out = append(out, "collapsed-through")
					if len(r.kids) > 0 {
						out = append(out, "nested-empty-blocks")
					}
					if r.emptyByReading {
						out = append(out, "first-child-collapsed-through")
					}
					// the set holds the top margin of a box that is not collapsed through
					// and the margins of its (first child's ...) collapsed-through first child
					for p := r.parent; p != nil; p = p.parent {
						if !p.through && d.find(top(p)) == k {
							out = append(out, "first-child-collapsed-through")
						}
					}
				}
			}
		}
	}
	return uniq(out)
}

// edgeFeatures describes an edge of box r from the input alone: the margin sets that lie
// just before it, and whether the top margin of r collapses with the margins of a
// collapsed-through descendant (its first child, or the first child of its first child...).
func (d *refDoc) edgeFeatures(r *rbox, sets []int) []string {
	out := d.setFeatures(sets)
	if !r.through {
		for _, t := range d.boxes {
			if t.through && d.find(top(t)) == d.find(top(r)) && isDescendant(t, r) {
				out = append(out, "first-child-collapsed-through")
				break
			}
		}
	}
	if !r.hAuto && len(r.kids) > 0 {
		out = append(out, "fixed-height-parent")
	}
	out = append(out, verticalSizingFeatures(r)...)
	// an edge that comes after a box with min-height / max-height depends on its used height
	for _, t := range d.boxes {
		if t.idx < r.idx && (t.spec.minh.k != dNone || t.spec.maxh.k != dNone) {
			out = append(out, "after-min-max-height")
			break
		}
	}
	return uniq(out)
}

// verticalSizingFeatures: the declarations of r that take part in §10.7 and in the box-sizing
// conversion of its height values.
func verticalSizingFeatures(r *rbox) []string {
	s := r.spec
	var out []string
	if s.minh.k != dNone {
		out = append(out, "min-height")
	}
	if s.maxh.k != dNone {
		out = append(out, "max-height")
	}
	if s.minh.k == dPct || s.maxh.k == dPct {
		out = append(out, "percentage-min-max-height")
	}
	if s.minh.k != dNone || s.maxh.k != dNone || s.h.k != dAuto {
		if s.borderBox {
			out = append(out, "border-box")
		}
		if s.paddingBox {
			out = append(out, "padding-box")
		}
	}
	return out
}

// subtreeFeatures is the union of the edge features of r and of its descendants.
func (d *refDoc) subtreeFeatures(r *rbox) []string {
	var out []string
	var rec func(b *rbox)
	rec = func(b *rbox) {
		if !b.through {
			sets := append(append(append([]int(nil), b.topSets...), b.lineSets...), b.botSets...)
			out = append(out, d.edgeFeatures(b, sets)...)
		}
		for _, k := range b.kids {
			rec(k)
		}
	}
	rec(r)
	return uniq(out)
}

func isDescendant(t, r *rbox) bool {
	for p := t.parent; p != nil; p = p.parent {
		if p == r {
			return true
		}
	}
	return false
}

func horizontalFeatures(r *rbox) []string {
	s := r.spec
	var out []string
	if s.w.k != dAuto {
		out = append(out, "width")
	}
	if s.ml.k == dAuto || s.mr.k == dAuto {
		out = append(out, "auto-margin")
	}
	if s.ml.k == dPct || s.mr.k == dPct || s.w.k == dPct {
		out = append(out, "percentage")
	}
	if s.minw.k != dNone {
		out = append(out, "min-width")
	}
	if s.maxw.k != dNone {
		out = append(out, "max-width")
	}
	if s.borderBox {
		out = append(out, "border-box")
	}
	if s.paddingBox {
		out = append(out, "padding-box")
	}
	if r.overConstr {
		out = append(out, "over-constrained")
	}
	return out
}

func (c *check) FeaturesOf(desc string) []string {
	d, err := parseDesc(desc)
	if err != nil {
		return nil
	}
	return docFeatures(buildRef(d, false))
}

func (c *check) Describe(u int64) any {
	un := c.units[u]
	switch un.space {
	case spH:
		return map[string]any{"space": "horizontal product", "from": c.hs.build(un.lo).desc(), "to": c.hs.build(un.hi - 1).desc()}
	case spS:
		return map[string]any{"space": "vertical sizing product", "from": c.ss.build(un.lo).desc(), "to": c.ss.build(un.hi - 1).desc()}
	default:
		m := c.vmenus[un.menu]
		parent := c.shapes[m.nBoxes][un.shape]
		var slots []string
		for _, s := range un.subset {
			if int(s) == m.nBoxes*nProps {
				slots = append(slots, "sentinel")
			} else {
				slots = append(slots, string(rune('a'+int(s)/nProps))+"."+propNames[int(s)%nProps])
			}
		}
		name := "vertical lattice"
		if un.space == spX {
			name = "cross term"
		}
		first := make([]int, len(un.subset))
		return map[string]any{"space": name, "shape": shapeString(parent), "deviating_slots": slots, "first_case": m.build(parent, un.subset, first).desc()}
	}
}
