// Command gen generates, from the CURRENT /repo tree and the installed GOROOT, the overlay
// used to build the C15 binary:
//
//   - runtime overlay (map iteration order / hash seeds under the explorer's control);
//   - instrumentation overlay: every statement of a repo package that mentions a package-level
//     variable written outside init gets a scheduling point, sync.Mutex is redirected to a
//     cooperative shim, phase functions get an entry point, and the virtual package
//     github.com/benoitkugler/webrender/verifrt is added.
//
// usage: gen <workdir> [seed]    → writes <workdir>/overlay.json and <workdir>/instrument.json
package main

import (
	"encoding/json"
	"fmt"
	"go/ast"
	"go/token"
	"go/types"
	"os"
	"os/exec"
	"path/filepath"
	"sort"
	"strconv"
	"strings"

	"golang.org/x/tools/go/packages"
)

const repoMod = "github.com/benoitkugler/webrender"

// verifDir is the harness module from which the repository packages are resolved
// (its go.mod replaces the module by /repo): no go command ever runs inside /repo.
var verifDir = "/verif"

const verifrtSrc = `// Package verifrt is the run-time side of the verification instrumentation (generated,
// added through go build -overlay; it does not exist in the repository).
package verifrt

import "sync"

// Resets restore the package-level variables that are written after init to their initial
// values (generated from their declarations), so that every explored execution starts from
// the same process state.
var Resets []func()

// ResetAll runs every registered reset.
func ResetAll() {
	for _, f := range Resets {
		f()
	}
}

// PointHook, when set, is called at every scheduling point.
var PointHook func(label string)

// Point is a scheduling point.
func Point(label string) {
	if h := PointHook; h != nil {
		h(label)
	}
}

// Mutex replaces sync.Mutex in instrumented packages: under the cooperative scheduler
// (hooks set) waiting is made visible to it; otherwise it is a plain mutex.
type Mutex struct {
	mu   sync.Mutex
	Held bool
}

var (
	LockHook   func(m *Mutex)
	UnlockHook func(m *Mutex)
)

func (m *Mutex) Lock() {
	if h := LockHook; h != nil {
		h(m)
		return
	}
	m.mu.Lock()
}

func (m *Mutex) Unlock() {
	if h := UnlockHook; h != nil {
		h(m)
		return
	}
	m.mu.Unlock()
}
`

var phaseFuncs = map[string]bool{
	"html/tree.NewHTML": true, "html/tree.GetAllComputedStyles": true, "html/boxes.BuildFormattingStructure": true,
	"html/layout.makePage": true, "html/layout.makeMarginBoxes": true, "html/layout.Layout": true,
	"html/document.Paint": true, "html/document.Write": true, "html/document.Render": true,
	"text/hyphen.NewHyphener": true, "images.GetImageFromUri": true,
}

var safeTypes = map[string]bool{
	"*regexp.Regexp": true, "*log.Logger": true, "*strings.Replacer": true, "regexp.Regexp": true, "log.Logger": true,
	"strings.Replacer": true, "sync.Mutex": true, "sync.RWMutex": true, "sync.Once": true,
}

type insertion struct {
	off  int
	text string
}

type report struct {
	Suspects      map[string][]string `json:"suspects"` // variable → how it is written
	Points        int                 `json:"points"`
	PhasePoints   int                 `json:"phase_points"`
	MutexShims    int                 `json:"mutex_shims"`
	Files         int                 `json:"files_rewritten"`
	Packages      int                 `json:"packages"`
	GlobalVars    int                 `json:"package_level_vars"`
	PointLabels   []string            `json:"point_labels"`
	RuntimeFiles  []string            `json:"runtime_files"`
	Resets        []string            `json:"resets"`
	NotResettable []string            `json:"not_resettable"`
}

func main() {
	if len(os.Args) < 2 {
		fmt.Fprintln(os.Stderr, "usage: gen <workdir> [seed]")
		os.Exit(2)
	}
	dir, _ := filepath.Abs(os.Args[1])
	if wd, err := os.Getwd(); err == nil {
		verifDir = filepath.Dir(wd) // gen runs in <verif>/gen
	}
	seed := uint64(0x9E3779B97F4A7C15)
	if len(os.Args) > 2 {
		s, _ := strconv.ParseUint(os.Args[2], 0, 64)
		if s != 0 {
			seed = seed*s + s
		}
	}
	os.MkdirAll(dir, 0o755)
	out, _ := exec.Command("go", "env", "GOROOT").Output()
	goroot := strings.TrimSpace(string(out))
	rep := report{Suspects: map[string][]string{}}
	rt, err := Generate(goroot, dir, seed)
	if err != nil {
		fmt.Fprintln(os.Stderr, "runtime overlay:", err)
		os.Exit(3)
	}
	for k := range rt {
		rep.RuntimeFiles = append(rep.RuntimeFiles, k)
	}
	sort.Strings(rep.RuntimeFiles)
	inst, err := instrument(dir, &rep)
	if err != nil {
		fmt.Fprintln(os.Stderr, "instrumentation:", err)
		os.Exit(4)
	}
	if err := WriteOverlay(filepath.Join(dir, "overlay.json"), rt, inst); err != nil {
		fmt.Fprintln(os.Stderr, err)
		os.Exit(5)
	}
	// the runtime overlay alone (fallback when the instrumented tree does not compile)
	WriteOverlay(filepath.Join(dir, "overlay_rt.json"), rt)
	b, _ := json.MarshalIndent(rep, "", " ")
	os.WriteFile(filepath.Join(dir, "instrument.json"), b, 0o644)
	fmt.Printf("gen: %d packages, %d package-level vars, %d suspects, %d points, %d phase points, %d mutex shims, %d files rewritten\n",
		rep.Packages, rep.GlobalVars, len(rep.Suspects), rep.Points, rep.PhasePoints, rep.MutexShims, rep.Files)
}

func isGlobal(obj types.Object) bool {
	v, ok := obj.(*types.Var)
	return ok && !v.IsField() && v.Pkg() != nil && v.Parent() == v.Pkg().Scope()
}

func instrument(dir string, rep *report) (map[string]string, error) {
	fset := token.NewFileSet()
	cfg := &packages.Config{
		Mode: packages.NeedName | packages.NeedFiles | packages.NeedCompiledGoFiles | packages.NeedSyntax | packages.NeedTypes | packages.NeedTypesInfo | packages.NeedImports | packages.NeedDeps,
		Fset: fset, BuildFlags: []string{"-tags=verif"}, Dir: verifDir,
	}
	if mf := os.Getenv("VERIF_MODFILE"); mf != "" {
		cfg.BuildFlags = append(cfg.BuildFlags, "-modfile="+mf) // self-tests: a scratch copy of the repository
	}
	pkgs, err := packages.Load(cfg, repoMod+"/...")
	if err != nil {
		return nil, err
	}
	var repoPkgs []*packages.Package
	for _, p := range pkgs {
		if len(p.Errors) > 0 {
			return nil, fmt.Errorf("package %s: %v", p.PkgPath, p.Errors[0])
		}
		if strings.HasPrefix(p.PkgPath, repoMod) && !strings.Contains(p.PkgPath, "/testutils") && !strings.HasSuffix(p.PkgPath, "/gen") {
			repoPkgs = append(repoPkgs, p)
		}
	}
	rep.Packages = len(repoPkgs)

	// pass 1: suspects = package-level variables written outside init
	suspects := map[types.Object]bool{}
	writeNodes := map[token.Pos]bool{} // positions of the nodes that syntactically write a suspect
	realWrites := map[types.Object]bool{}
	initWritten := map[types.Object]bool{} // filled by an init function: cannot be reset from the declaration
	for _, p := range repoPkgs {
		for _, f := range p.Syntax {
			for _, d := range f.Decls {
				fd, ok := d.(*ast.FuncDecl)
				if !ok || fd.Body == nil {
					if gd, ok := d.(*ast.GenDecl); ok && gd.Tok == token.VAR {
						for _, s := range gd.Specs {
							rep.GlobalVars += len(s.(*ast.ValueSpec).Names)
						}
					}
					continue
				}
				if fd.Name.Name == "init" && fd.Recv == nil {
					findWrites(p, fd.Body, func(o types.Object, how string, pos token.Pos) { initWritten[o] = true })
					continue
				}
				findWrites(p, fd.Body, func(o types.Object, how string, pos token.Pos) {
					if safeTypes[o.Type().String()] {
						return
					}
					suspects[o] = true
					if !strings.HasPrefix(how, "escapes:") && !strings.HasPrefix(how, "ptrmethod:") && how != "addr" {
						writeNodes[pos] = true
						realWrites[o] = true
					}
					key := strings.TrimPrefix(o.Pkg().Path(), repoMod+"/") + "." + o.Name()
					rel := fset.Position(pos)
					rep.Suspects[key] = append(rep.Suspects[key], fmt.Sprintf("%s@%s:%d", how, filepath.Base(rel.Filename), rel.Line))
				})
			}
		}
	}

	// pass 2: rewrite
	overlay := map[string]string{}
	for _, p := range repoPkgs {
		rel := strings.TrimPrefix(strings.TrimPrefix(p.PkgPath, repoMod), "/")
		for i, f := range p.Syntax {
			filename := p.CompiledGoFiles[i]
			src, err := os.ReadFile(filename)
			if err != nil {
				return nil, err
			}
			tf := fset.File(f.Pos())
			var ins []insertion
			needSyncKeep := false
			// scheduling points before statements mentioning a suspect
			var walkList func(list []ast.Stmt)
			var walkStmt func(s ast.Stmt)
			walkList = func(list []ast.Stmt) {
				for _, s := range list {
					if ls, ok := s.(*ast.LabeledStmt); ok {
						walkStmt(ls.Stmt) // no point before a labeled statement (would detach the label)
						continue
					}
					if name := mentions(p, s, suspects); name != "" {
						pos := fset.Position(s.Pos())
						rw := "R:"
						if writes(s, writeNodes) {
							rw = "W:"
						}
						label := fmt.Sprintf("%s%s@%s:%d", rw, name, filepath.Base(pos.Filename), pos.Line)
						ins = append(ins, insertion{tf.Offset(s.Pos()), fmt.Sprintf("verifrt.Point(%q); ", label)})
						rep.Points++
						rep.PointLabels = append(rep.PointLabels, label)
					}
					walkStmt(s)
				}
			}
			walkStmt = func(s ast.Stmt) {
				ast.Inspect(s, func(n ast.Node) bool {
					switch x := n.(type) {
					case *ast.BlockStmt:
						walkList(x.List)
						return false
					case *ast.CaseClause:
						walkList(x.Body)
						return false
					case *ast.CommClause:
						walkList(x.Body)
						return false
					}
					return true
				})
			}
			for _, d := range f.Decls {
				fd, ok := d.(*ast.FuncDecl)
				if !ok || fd.Body == nil {
					continue
				}
				if phaseFuncs[rel+"."+fd.Name.Name] {
					ins = append(ins, insertion{tf.Offset(fd.Body.Lbrace) + 1, fmt.Sprintf(" verifrt.Point(%q); ", "phase:"+rel+"."+fd.Name.Name)})
					rep.PhasePoints++
				}
				if fd.Name.Name == "init" && fd.Recv == nil {
					continue
				}
				walkList(fd.Body.List)
			}
			// sync.Mutex → verifrt.Mutex (type positions)
			ast.Inspect(f, func(n ast.Node) bool {
				sel, ok := n.(*ast.SelectorExpr)
				if !ok {
					return true
				}
				id, ok := sel.X.(*ast.Ident)
				if !ok {
					return true
				}
				if pn, ok := p.TypesInfo.Uses[id].(*types.PkgName); ok && pn.Imported().Path() == "sync" && sel.Sel.Name == "Mutex" {
					start, end := tf.Offset(sel.Pos()), tf.Offset(sel.End())
					ins = append(ins, insertion{start, "verifrt.Mutex /*"}, insertion{end, "*/"})
					rep.MutexShims++
					needSyncKeep = true
				}
				return true
			})
			// resets of the suspects declared in this file (same file: its imports are available)
			var resetBody strings.Builder
			for _, d := range f.Decls {
				gd, ok := d.(*ast.GenDecl)
				if !ok || gd.Tok != token.VAR {
					continue
				}
				for _, sp := range gd.Specs {
					vs := sp.(*ast.ValueSpec)
					for i, name := range vs.Names {
						o := p.TypesInfo.Defs[name]
						if o == nil || !suspects[o] {
							continue
						}
						key := strings.TrimPrefix(p.PkgPath, repoMod+"/") + "." + name.Name
						if initWritten[o] {
							rep.NotResettable = append(rep.NotResettable, key+" (filled by init)")
							continue
						}
						var initSrc string
						if len(vs.Values) == len(vs.Names) {
							initSrc = string(src[tf.Offset(vs.Values[i].Pos()):tf.Offset(vs.Values[i].End())])
						}
						isMake := strings.HasPrefix(initSrc, "make(") || strings.HasSuffix(strings.TrimSpace(initSrc), "{}")
						switch {
						case realWrites[o] && initSrc != "" && len(initSrc) < 400:
							fmt.Fprintf(&resetBody, "\t\t%s = %s\n", name.Name, initSrc)
						case realWrites[o] && initSrc == "" && vs.Type != nil:
							ts := string(src[tf.Offset(vs.Type.Pos()):tf.Offset(vs.Type.End())])
							fmt.Fprintf(&resetBody, "\t\t{\n\t\t\tvar z %s\n\t\t\t%s = z\n\t\t}\n", ts, name.Name)
						case !realWrites[o] && isMake:
							fmt.Fprintf(&resetBody, "\t\t%s = %s\n", name.Name, initSrc)
						default:
							rep.NotResettable = append(rep.NotResettable, key)
							continue
						}
						rep.Resets = append(rep.Resets, key)
					}
				}
			}
			if len(ins) == 0 && resetBody.Len() == 0 {
				continue
			}
			// import right after the package clause
			ins = append(ins, insertion{tf.Offset(f.Name.End()), "; import verifrt \"" + repoMod + "/verifrt\""})
			sort.SliceStable(ins, func(a, b int) bool { return ins[a].off < ins[b].off })
			var sb strings.Builder
			last := 0
			for _, in := range ins {
				sb.Write(src[last:in.off])
				sb.WriteString(in.text)
				last = in.off
			}
			sb.Write(src[last:])
			if needSyncKeep {
				sb.WriteString("\nvar _ sync.Mutex // keeps the import used (generated)\n")
			}
			if resetBody.Len() > 0 {
				fmt.Fprintf(&sb, "\nfunc init() { // generated: restores the initial state before every explored execution\n\tverifrt.Resets = append(verifrt.Resets, func() {\n%s\t})\n}\n", resetBody.String())
			}
			dst := filepath.Join(dir, "inst_"+strings.ReplaceAll(rel, "/", "_")+"_"+filepath.Base(filename))
			if err := os.WriteFile(dst, []byte(sb.String()), 0o644); err != nil {
				return nil, err
			}
			overlay[filename] = dst
			rep.Files++
		}
	}
	// the virtual package
	repoDir := ""
	for _, p := range repoPkgs {
		if p.PkgPath == repoMod+"/logger" && len(p.GoFiles) > 0 {
			repoDir = filepath.Dir(filepath.Dir(p.GoFiles[0]))
		}
	}
	if repoDir == "" {
		return nil, fmt.Errorf("cannot locate the repository root")
	}
	vr := filepath.Join(dir, "verifrt.go")
	os.WriteFile(vr, []byte(verifrtSrc), 0o644)
	overlay[filepath.Join(repoDir, "verifrt", "verifrt.go")] = vr
	sort.Strings(rep.PointLabels)
	return overlay, nil
}

func rootObj(p *packages.Package, e ast.Expr) types.Object {
	for {
		switch x := e.(type) {
		case *ast.Ident:
			return p.TypesInfo.Uses[x]
		case *ast.SelectorExpr:
			if id, ok := x.X.(*ast.Ident); ok {
				if _, isPkg := p.TypesInfo.Uses[id].(*types.PkgName); isPkg {
					return p.TypesInfo.Uses[x.Sel]
				}
			}
			e = x.X
		case *ast.IndexExpr:
			e = x.X
		case *ast.StarExpr:
			e = x.X
		case *ast.ParenExpr:
			e = x.X
		case *ast.SliceExpr:
			e = x.X
		default:
			return nil
		}
	}
}

func findWrites(p *packages.Package, body ast.Node, mark func(o types.Object, how string, pos token.Pos)) {
	m := func(e ast.Expr, how string, pos token.Pos) {
		if o := rootObj(p, e); o != nil && isGlobal(o) && strings.HasPrefix(o.Pkg().Path(), repoMod) {
			mark(o, how, pos)
		}
	}
	// esc marks a global of reference type (map, slice, pointer, channel) whose VALUE is copied
	// somewhere (alias, argument, result, literal field): it can then be mutated through the copy.
	esc := func(e ast.Expr, how string, pos token.Pos) {
		var o types.Object
		switch x := e.(type) {
		case *ast.Ident:
			o = p.TypesInfo.Uses[x]
		case *ast.SelectorExpr:
			if id, ok := x.X.(*ast.Ident); ok {
				if _, isPkg := p.TypesInfo.Uses[id].(*types.PkgName); isPkg {
					o = p.TypesInfo.Uses[x.Sel]
				}
			}
		}
		if o == nil || !isGlobal(o) || !strings.HasPrefix(o.Pkg().Path(), repoMod) {
			return
		}
		switch o.Type().Underlying().(type) {
		case *types.Map, *types.Slice, *types.Pointer, *types.Chan:
			mark(o, how, pos)
		}
	}
	ast.Inspect(body, func(n ast.Node) bool {
		switch x := n.(type) {
		case *ast.AssignStmt:
			if x.Tok != token.DEFINE {
				for _, l := range x.Lhs {
					m(l, "assign", x.Pos())
				}
			}
			for _, r := range x.Rhs {
				esc(r, "escapes:alias", x.Pos())
			}
		case *ast.IncDecStmt:
			m(x.X, "incdec", x.Pos())
		case *ast.UnaryExpr:
			if x.Op == token.AND {
				m(x.X, "addr", x.Pos())
			}
		case *ast.RangeStmt:
			if x.Tok == token.ASSIGN {
				if x.Key != nil {
					m(x.Key, "assign", x.Pos())
				}
				if x.Value != nil {
					m(x.Value, "assign", x.Pos())
				}
			}
		case *ast.CallExpr:
			if id, ok := x.Fun.(*ast.Ident); ok && (id.Name == "delete" || id.Name == "clear" || id.Name == "copy") && len(x.Args) > 0 {
				m(x.Args[0], id.Name, x.Pos())
			}
			// a reference-typed global handed to a function may be written through the alias
			if id, ok := x.Fun.(*ast.Ident); !ok || (id.Name != "len" && id.Name != "cap") {
				for _, a := range x.Args {
					esc(a, "escapes:arg", x.Pos())
				}
			}
			if sel, ok := x.Fun.(*ast.SelectorExpr); ok {
				if s := p.TypesInfo.Selections[sel]; s != nil && s.Kind() == types.MethodVal {
					if sig, ok := s.Obj().Type().(*types.Signature); ok && sig.Recv() != nil {
						if _, isPtr := sig.Recv().Type().(*types.Pointer); isPtr {
							m(sel.X, "ptrmethod:"+sel.Sel.Name, x.Pos())
						}
					}
				}
			}
		case *ast.ReturnStmt:
			for _, r := range x.Results {
				esc(r, "escapes:return", x.Pos())
			}
		case *ast.CompositeLit:
			for _, el := range x.Elts {
				if kv, ok := el.(*ast.KeyValueExpr); ok {
					esc(kv.Value, "escapes:literal", x.Pos())
				} else {
					esc(el, "escapes:literal", x.Pos())
				}
			}
		}
		return true
	})
}

// mentions returns the name of a suspect variable used by statement s outside its nested
// statement lists ("" if none).
func mentions(p *packages.Package, s ast.Stmt, suspects map[types.Object]bool) string {
	found := ""
	ast.Inspect(s, func(n ast.Node) bool {
		if found != "" {
			return false
		}
		switch x := n.(type) {
		case *ast.BlockStmt, *ast.CaseClause, *ast.CommClause:
			if n != ast.Node(s) {
				return false
			}
		case *ast.FuncLit:
			return false
		case *ast.Ident:
			if o := p.TypesInfo.Uses[x]; o != nil && suspects[o] {
				found = strings.TrimPrefix(o.Pkg().Path(), repoMod+"/") + "." + o.Name()
			}
		}
		return true
	})
	return found
}

// writes reports whether statement s (outside its nested statement lists) contains a node
// that syntactically writes a suspect variable.
func writes(s ast.Stmt, writeNodes map[token.Pos]bool) bool {
	found := false
	ast.Inspect(s, func(n ast.Node) bool {
		if found || n == nil {
			return false
		}
		switch n.(type) {
		case *ast.BlockStmt, *ast.CaseClause, *ast.CommClause:
			if n != ast.Node(s) {
				return false
			}
		case *ast.FuncLit:
			return false
		}
		if writeNodes[n.Pos()] {
			switch n.(type) {
			case *ast.AssignStmt, *ast.IncDecStmt, *ast.UnaryExpr, *ast.CallExpr, *ast.RangeStmt:
				found = true
			}
		}
		return true
	})
	return found
}
