// Package rtoverlay generates the `go build -overlay` file that puts the runtime's map
// iteration order and hash seeds under the explorer's control. Nothing under GOROOT is
// modified: patched copies of runtime/map.go, alg.go, rand.go and an added
// runtime/verif_hook.go are written to a work directory.
package main

import (
	"encoding/json"
	"fmt"
	"os"
	"path/filepath"
	"strings"
)

const hook = `package runtime

import _ "unsafe"

// verif: deterministic control of map iteration start (generated; see verif/internal/rtoverlay).

//go:linkname verifIterMode
var verifIterMode uint32 = 1

//go:linkname verifIterCount
var verifIterCount uint64 // number of controlled iterations seen so far (maps with count>=2)

//go:linkname verifIterDevAt
var verifIterDevAt = [2]uint64{^uint64(0), ^uint64(0)} // ordinals of the iterations that deviate

//go:linkname verifIterDevVal
var verifIterDevVal [2]uint64 // r values used at the deviating iterations

//go:linkname verifIterLogB
var verifIterLogB [4096]uint8 // log2(buckets) of the map of each controlled iteration

func verifIterRand(h *hmap) uint64 {
	if verifIterMode == 0 {
		return rand()
	}
	if h.count < 2 {
		return 0
	}
	i := verifIterCount
	verifIterCount++
	if i < 4096 {
		verifIterLogB[i] = h.B
	}
	if i == verifIterDevAt[0] {
		return verifIterDevVal[0]
	}
	if i == verifIterDevAt[1] {
		return verifIterDevVal[1]
	}
	return 0
}

const verifSeed = VERIFSEED

func verifHash0() uint32 {
	if verifIterMode == 0 {
		return uint32(rand())
	}
	return uint32((verifSeed >> 7) & 0xffffffff)
}

func verifAlgKey(i int) uint64 {
	return verifSeed * uint64(2*i+1)
}
`

type patch struct {
	file     string
	old, new string
	count    int
}

// Generate writes the patched files under dir and returns the overlay entries. It fails
// when the installed runtime does not have exactly the expected patch sites.
func Generate(goroot, dir string, seed uint64) (map[string]string, error) {
	patches := []patch{
		{"map.go", "r := uintptr(rand())", "r := uintptr(verifIterRand(h))", 1},
		{"map.go", "h.hash0 = uint32(rand())", "h.hash0 = verifHash0()", 4},
		{"alg.go", "hashkey[i] = uintptr(bootstrapRand())", "hashkey[i] = uintptr(verifAlgKey(i))", 1},
		{"alg.go", "key[i] = bootstrapRand()", "key[i] = verifAlgKey(i)", 1},
		{"rand.go", "func rand32() uint32 {\n\treturn uint32(rand())", "func rand32() uint32 {\n\treturn verifHash0()", 1},
	}
	if err := os.MkdirAll(dir, 0o755); err != nil {
		return nil, err
	}
	src := map[string]string{}
	for _, p := range patches {
		if _, ok := src[p.file]; !ok {
			b, err := os.ReadFile(filepath.Join(goroot, "src", "runtime", p.file))
			if err != nil {
				return nil, err
			}
			src[p.file] = string(b)
		}
		if n := strings.Count(src[p.file], p.old); n != p.count {
			return nil, fmt.Errorf("runtime/%s: expected %d occurrence(s) of %q, found %d (unsupported Go version)", p.file, p.count, p.old, n)
		}
		src[p.file] = strings.ReplaceAll(src[p.file], p.old, p.new)
	}
	out := map[string]string{}
	for f, s := range src {
		dst := filepath.Join(dir, "rt_"+f)
		if err := os.WriteFile(dst, []byte(s), 0o644); err != nil {
			return nil, err
		}
		out[filepath.Join(goroot, "src", "runtime", f)] = dst
	}
	hk := filepath.Join(dir, "rt_verif_hook.go")
	if err := os.WriteFile(hk, []byte(strings.Replace(hook, "VERIFSEED", fmt.Sprintf("%#x", seed), 1)), 0o644); err != nil {
		return nil, err
	}
	out[filepath.Join(goroot, "src", "runtime", "verif_hook.go")] = hk
	return out, nil
}

// WriteOverlay merges entries into an overlay JSON file.
func WriteOverlay(path string, entries ...map[string]string) error {
	all := map[string]string{}
	for _, e := range entries {
		for k, v := range e {
			all[k] = v
		}
	}
	b, _ := json.MarshalIndent(map[string]any{"Replace": all}, "", " ")
	return os.WriteFile(path, b, 0o644)
}
