module verif

go 1.23.0

require (
	github.com/benoitkugler/textprocessing v0.0.3
	github.com/benoitkugler/webrender v0.0.0
	github.com/go-text/typesetting v0.2.1
	golang.org/x/net v0.36.0
)

require (
	github.com/benoitkugler/pstokenizer v1.0.1 // indirect
	github.com/benoitkugler/textlayout v0.3.1 // indirect
	golang.org/x/image v0.23.0 // indirect
	golang.org/x/text v0.22.0 // indirect
)

replace github.com/benoitkugler/webrender => /repo
