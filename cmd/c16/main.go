// Command c16 is the stand-alone binary of check C16 (development use).
package main

import (
	"verif/internal/cli"

	_ "verif/checks/c16"
)

func main() { cli.Main() }
