// Command c06 is the stand-alone binary of check C06 (development use).
package main

import (
	"verif/internal/cli"

	_ "verif/checks/c06"
)

func main() { cli.Main() }
