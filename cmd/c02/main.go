// Command c02 is the stand-alone binary of check C02 (development use).
//
//	c02 check C02 --tier quick
//	c02 dump < doc.html        laid-out text boxes and draw calls of one document
//	c02 case '<description>'   re-evaluates one case from its description header
//	c02 census <tier> <shard> <of> [group]   failure signatures of a shard of the space (triage aid)
package main

import (
	"fmt"
	"io"
	"os"

	"verif/internal/cli"

	"verif/checks/c02"
)

func main() {
	if len(os.Args) > 1 && os.Args[1] == "dump" {
		src, _ := io.ReadAll(os.Stdin)
		fmt.Print(c02.Dump(string(src)))
		return
	}
	if len(os.Args) > 2 && os.Args[1] == "plan" {
		fmt.Print(c02.Plan(os.Args[2]))
		return
	}
	if len(os.Args) > 2 && os.Args[1] == "case" {
		fmt.Print(c02.EvalDesc(os.Args[2]))
		return
	}
	if len(os.Args) > 4 && os.Args[1] == "census" { // census <tier> <shard> <of> [group]
		var shard, of int
		fmt.Sscan(os.Args[3], &shard)
		fmt.Sscan(os.Args[4], &of)
		filter := ""
		if len(os.Args) > 5 {
			filter = os.Args[5]
		}
		fmt.Print(c02.Census(os.Args[2], shard, of, filter))
		return
	}
	cli.Main()
}
