// Command c09 is the stand-alone binary of check C09 (development use).
package main

import (
	"verif/internal/cli"

	_ "verif/checks/c09"
)

func main() { cli.Main() }
