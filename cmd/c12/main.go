// Command c12 is the stand-alone binary of check C12 (development use).
package main

import (
	"verif/internal/cli"

	_ "verif/checks/c12"
)

func main() { cli.Main() }
