// Command c03 is the stand-alone binary of check C03 (development use).
package main

import (
	"verif/internal/cli"

	_ "verif/checks/c03"
)

func main() { cli.Main() }
