// Command c14 is the stand-alone binary of check C14 (development use).
package main

import (
	"verif/internal/cli"

	_ "verif/checks/c14"
)

func main() { cli.Main() }
