// Command c10 is the stand-alone binary of check C10 (development use).
//
//	c10 show '<body id=body><div id=a style="margin-top:10px">a</div></body>'
//
// prints the reference layout and the layout computed by the code under test.
package main

import (
	"fmt"
	"os"

	"verif/internal/cli"

	"verif/checks/c10"
)

func main() {
	if len(os.Args) >= 3 && os.Args[1] == "show" {
		for _, d := range os.Args[2:] {
			fmt.Println(c10.ShowDesc(d))
		}
		return
	}
	cli.Main()
}
