// Scratch tool (deleted after use): extract the HTML documents of html/layout's tests and dump
// their laid-out box trees, to compare the unchanged tree with a patched copy.
package main

import (
	"encoding/json"
	"fmt"
	"go/ast"
	"go/parser"
	"go/token"
	"os"
	"path/filepath"
	"sort"
	"strconv"
	"strings"

	bo "github.com/benoitkugler/webrender/html/boxes"

	"verif/internal/render"
)

func extract(dir, out string) {
	files, _ := filepath.Glob(filepath.Join(dir, "*_test.go"))
	sort.Strings(files)
	seen := map[string]bool{}
	var docs []string
	for _, f := range files {
		fset := token.NewFileSet()
		af, err := parser.ParseFile(fset, f, nil, 0)
		if err != nil {
			continue
		}
		ast.Inspect(af, func(n ast.Node) bool {
			if bl, ok := n.(*ast.BasicLit); ok && bl.Kind == token.STRING {
				s, err := strconv.Unquote(bl.Value)
				if err == nil && strings.Contains(s, "<") && strings.Contains(s, ">") && len(s) > 12 && !seen[s] {
					seen[s] = true
					docs = append(docs, s)
				}
			}
			return true
		})
	}
	b, _ := json.Marshal(docs)
	os.WriteFile(out, b, 0o644)
	fmt.Println(len(docs), "documents")
}

func dumpBox(sb *strings.Builder, b bo.Box, depth int) {
	f := b.Box()
	tag := ""
	if f.Element != nil {
		tag = f.Element.Data
	}
	txt := ""
	if t, ok := b.(*bo.TextBox); ok {
		txt = strconv.Quote(t.TextS())
	}
	fmt.Fprintf(sb, "%s%T %s x=%.3f y=%.3f w=%.3f h=%.3f mt=%.3f mb=%.3f %s\n", strings.Repeat(" ", depth), b, tag,
		f.PositionX, f.PositionY, f.Width.V(), f.Height.V(), f.MarginTop.V(), f.MarginBottom.V(), txt)
	for _, c := range f.Children {
		dumpBox(sb, c, depth+1)
	}
}

func dump(in, out string) {
	var docs []string
	b, _ := os.ReadFile(in)
	json.Unmarshal(b, &docs)
	fonts := render.NewFontConfig("pango")
	w, _ := os.Create(out)
	defer w.Close()
	for i, d := range docs {
		var sb strings.Builder
		func() {
			defer func() {
				if r := recover(); r != nil {
					sb.Reset()
					fmt.Fprintf(&sb, "PANIC %v\n", r)
				}
			}()
			pages, err := render.Layout(render.Options{HTML: d, BaseURL: "file:///repo/resources_test/", FontConfig: fonts, PageBound: 60})
			if err != nil {
				fmt.Fprintf(&sb, "ERROR %v\n", err)
				return
			}
			for pi, p := range pages {
				fmt.Fprintf(&sb, "page %d\n", pi)
				dumpBox(&sb, p, 1)
			}
		}()
		fmt.Fprintf(w, "=== doc %d\n%s", i, sb.String())
	}
}

func main() {
	switch os.Args[1] {
	case "extract":
		extract(os.Args[2], os.Args[3])
	case "dump":
		dump(os.Args[2], os.Args[3])
	}
}
