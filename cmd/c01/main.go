// Command c01 is the stand-alone binary of check C01 (development use).
package main

import (
	"verif/internal/cli"

	_ "verif/checks/c01"
)

func main() { cli.Main() }
