// Command probe renders the documents given as files (scratch tool of ext-c01; to be deleted).
package main

import (
	"fmt"
	"os"
	"runtime/debug"
	"strings"

	"verif/internal/render"
)

func one(html, eng string) (out string) {
	defer func() {
		if r := recover(); r != nil {
			st := string(debug.Stack())
			// find the first repo frame
			site := ""
			for _, l := range strings.Split(st, "\n") {
				if strings.Contains(l, "/repo/") || strings.Contains(l, "webrender/") {
					if strings.HasPrefix(l, "\t") {
						site = strings.TrimSpace(l)
						break
					}
				}
			}
			out = fmt.Sprintf("PANIC %v @ %s", r, site); if os.Getenv("STACK") != "" { out += "\n" + st }
		}
	}()
	res, err := render.Render(render.Options{HTML: html, Engine: eng, PageBound: 60})
	if err != nil {
		return "ERR " + err.Error()
	}
	return fmt.Sprintf("ok pages=%d warn=%d", len(res.Pages), res.Warnings)
}

func main() {
	eng := "pango"
	if len(os.Args) == 3 && os.Args[1] == "-dump" {
		b, _ := os.ReadFile(os.Args[2])
		for _, l := range strings.Split(string(b), "\n") {
			p := strings.SplitN(l, "\x00", 3)
			if len(p) != 3 {
				continue
			}
			r := one(p[2], p[1])
			if !strings.HasPrefix(r, "ok ") {
				if len(r) > 150 {
					r = r[:150]
				}
				fmt.Printf("%s\t%s\n", r, p[0])
			}
		}
		return
	}
	for _, f := range os.Args[1:] {
		if f == "-gotext" {
			eng = "gotext"
			continue
		}
		b, err := os.ReadFile(f)
		if err != nil {
			fmt.Println(err)
			continue
		}
		for i, doc := range strings.Split(string(b), "\n====\n") {
			doc = strings.TrimSpace(doc)
			if doc == "" {
				continue
			}
			fmt.Printf("%s#%d: %s\n", f, i, one(doc, eng))
		}
	}
}
