// Command probe renders one document given on the command line (development use): probe '<html>' [engine];
// probe -sizes prints the number of units of both tiers (C01_DEV_GEN2=1: of the second generation alone).
package main

import (
	"fmt"
	"os"
	"time"

	_ "verif/checks/c01"
	"verif/internal/engine"
	"verif/internal/render"
)

func main() {
	if os.Args[1] == "-sizes" {
		for _, tier := range []string{"quick", "thorough"} {
			fmt.Println(tier, engine.Get("C01").Init(tier, 0).Units)
		}
		return
	}
	eng := "pango"
	if len(os.Args) > 2 {
		eng = os.Args[2]
	}
	t := time.Now()
	res, err := render.Render(render.Options{HTML: os.Args[1], Engine: eng, PageBound: 60})
	if err != nil {
		fmt.Println("ERR", err)
		return
	}
	fmt.Println("ok pages", len(res.Pages), "warnings", res.Warnings, time.Since(t))
}
