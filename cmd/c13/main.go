// Command c13 is the stand-alone binary of check C13 (development use).
package main

import (
	"verif/internal/cli"

	_ "verif/checks/c13"
)

func main() { cli.Main() }
