// Command c18 is the stand-alone binary of check C18 (development use).
package main

import (
	"verif/internal/cli"

	_ "verif/checks/c18"
)

func main() { cli.Main() }
