// Command smoke renders one document and prints its canonical trace (development aid).
package main

import (
	"fmt"
	"io"
	"os"
	"time"

	"verif/internal/render"
)

func main() {
	src, _ := io.ReadAll(os.Stdin)
	engine := "pango"
	if len(os.Args) > 1 {
		engine = os.Args[1]
	}
	t0 := time.Now()
	res, err := render.Render(render.Options{HTML: string(src), Engine: engine})
	if err != nil {
		fmt.Println("error:", err)
		return
	}
	fmt.Print(res.Rec.Trace())
	fmt.Println("violations:", res.Rec.Violations)
	fmt.Println("pages:", len(res.Pages), "warnings:", res.Warnings, "t:", time.Since(t0))
	t0 = time.Now()
	for i := 0; i < 50; i++ {
		render.Render(render.Options{HTML: string(src), Engine: engine})
	}
	fmt.Println("per render:", time.Since(t0)/50)
}
