// Command c05 is the stand-alone binary of check C05 (development use).
package main

import (
	"verif/internal/cli"

	_ "verif/checks/c05"
)

func main() { cli.Main() }
