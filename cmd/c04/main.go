// Command c04 is the stand-alone binary of check C04 (development use).
package main

import (
	"verif/internal/cli"

	_ "verif/checks/c04"
)

func main() { cli.Main() }
