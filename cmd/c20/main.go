// Command c20 is the stand-alone binary of check C20 (development use).
package main

import (
	"verif/internal/cli"

	_ "verif/checks/c20"
)

func main() { cli.Main() }
