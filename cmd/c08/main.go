// Command c08 is the stand-alone binary of check C08 (development use).
package main

import (
	"verif/internal/cli"

	_ "verif/checks/c08"
)

func main() { cli.Main() }
