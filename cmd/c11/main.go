// Command c11 is the stand-alone binary of check C11 (development use).
package main

import (
	"verif/internal/cli"

	_ "verif/checks/c11"
)

func main() { cli.Main() }
