// Command c15 is the stand-alone binary of check C15 (development use).
package main

import (
	"verif/internal/cli"

	_ "verif/checks/c15"
)

func main() { cli.Main() }
