// Command c17 is the stand-alone binary of check C17 (development use).
package main

import (
	"verif/internal/cli"

	_ "verif/checks/c17"
)

func main() { cli.Main() }
