// Command c19 is the stand-alone binary of check C19 (development use).
package main

import (
	"verif/internal/cli"

	_ "verif/checks/c19"
)

func main() { cli.Main() }
