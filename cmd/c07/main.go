// Command c07 is the stand-alone binary of check C07 (development use).
package main

import (
	"verif/internal/cli"

	_ "verif/checks/c07"
)

func main() { cli.Main() }
