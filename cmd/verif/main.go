// Command verif is the single binary behind every check: master, worker and replay modes.
package main

import (
	"verif/internal/cli"

	_ "verif/checks/c01"
	_ "verif/checks/c02"
	_ "verif/checks/c03"
	_ "verif/checks/c04"
	_ "verif/checks/c05"
	_ "verif/checks/c06"
	_ "verif/checks/c07"
	_ "verif/checks/c08"
	_ "verif/checks/c09"
	_ "verif/checks/c10"
	_ "verif/checks/c11"
	_ "verif/checks/c12"
	_ "verif/checks/c13"
	_ "verif/checks/c14"
	_ "verif/checks/c15"
	_ "verif/checks/c16"
	_ "verif/checks/c17"
	_ "verif/checks/c18"
	_ "verif/checks/c19"
	_ "verif/checks/c20"
)

func main() { cli.Main() }
