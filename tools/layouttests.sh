#!/bin/bash
# usage: [LT_SRC=<dir>] tools/layouttests.sh [<git-rev>]   (default: working tree of /repo, or of $LT_SRC)
# Runs the repository's html/layout, html/document and text tests — which cannot initialise in the
# baseline because text/testdata/cache.fc is missing — in a scratch copy where the cache is generated
# from the system fonts (fontconfig.ScanAndCache). Prints per-test verdicts to stdout.
set -u
export GOFLAGS=-mod=mod GOPROXY=off GOSUMDB=off GOTOOLCHAIN=local
rev=${1:-}
scratch=$(mktemp -d /tmp/layouttests-XXXXXX)
trap 'rm -rf "$scratch"' EXIT
if [ -n "$rev" ]; then git -C /repo archive "$rev" | tar -x -C "$scratch"; else rsync -a --exclude .git "${LT_SRC:-/repo}/" "$scratch/"; fi
cd "$scratch"
mkdir -p text/testdata
cat > mkcache_test.go <<'GO'
package main
GO
rm mkcache_test.go
mkdir -p zz_mkcache && cat > zz_mkcache/main.go <<'GO'
package main

import (
	"fmt"

	fc "github.com/benoitkugler/textprocessing/fontconfig"
)

func main() {
	_, err := fc.ScanAndCache("text/testdata/cache.fc")
	fmt.Println("cache:", err)
}
GO
go run ./zz_mkcache >&2 || exit 2
if [ -n "${LT_RUN:-}" ]; then go test -count=1 -run "$LT_RUN" ./html/layout/ 2>&1 | tail -40; exit 0; fi
for pkg in ./html/layout/ ./html/document/ ./text/; do
  # TestPageNames4/7 style panics abort the binary: run, and on abort re-run skipping the panicking test
  skip=""
  for attempt in 1 2 3 4 5 6; do
    out=$(go test -count=1 -v ${skip:+-skip "$skip"} $pkg 2>&1)
    echo "$out" | grep -E "^(=== RUN|--- (PASS|FAIL|SKIP)|panic:|ok|FAIL)" > "$scratch/out.txt"
    if grep -q "^panic:" "$scratch/out.txt"; then
      last=$(grep "^=== RUN" "$scratch/out.txt" | tail -1 | awk '{print $3}')
      echo "PANIC $pkg $last"
      skip="${skip:+$skip|}^${last}\$"
    else
      break
    fi
  done
  grep -E "^--- (PASS|FAIL|SKIP)" "$scratch/out.txt" | awk -v p=$pkg '{print p, $2, $3}' | sort
done
