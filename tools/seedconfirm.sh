#!/bin/bash
# usage: tools/seedconfirm.sh <seeded-dir>
# Confirms a seeded change independently of its author: the patch applies to the current /repo tree, the
# library builds, the repository's own test suite gives the same per-package verdicts as on the unchanged tree,
# and the demonstration fails with the change and passes without it. Works on a scratch copy; /repo is untouched.
set -u
seed=$(readlink -f "$1")
export GOFLAGS=-mod=mod GOPROXY=off GOSUMDB=off GOTOOLCHAIN=local
scratch=$(mktemp -d /tmp/seedconfirm-XXXXXX)
trap 'rm -rf "$scratch"' EXIT
rsync -a --exclude .git --exclude seed /repo/ "$scratch/repo/"
(cd "$scratch/repo" && patch -p1 -s < "$seed/patch.diff") || { echo "CONFIRM: patch does not apply"; exit 3; }
(cd "$scratch/repo" && go build ./... ) || { echo "CONFIRM: does not build"; exit 3; }
suite() { (cd "$1" && go test -count=1 ./... 2>&1 | grep -E "^(ok|FAIL|---|panic)" | sed -E 's/[0-9.]+s$//' | grep -E "^(ok|FAIL)" | awk '{print $1, $2}' | sort); }
# verdicts of the unchanged tree are cached per /repo state (HEAD + working-tree diff)
key=$( (git -C /repo rev-parse HEAD; git -C /repo diff) | md5sum | cut -c1-12)
cache="$(dirname "$0")/../.work/suite-base-$key.txt"
if [ ! -s "$cache" ]; then suite /repo > "$scratch/base.tmp"; mv "$scratch/base.tmp" "$cache"; fi
cp "$cache" "$scratch/base.txt"; suite "$scratch/repo" > "$scratch/mut.txt"
if diff -q "$scratch/base.txt" "$scratch/mut.txt" >/dev/null; then echo "CONFIRM: test suite verdicts identical to the unchanged tree ($(grep -c '^ok' $scratch/mut.txt) packages ok)"; else echo "CONFIRM: TEST SUITE DIFFERS"; diff "$scratch/base.txt" "$scratch/mut.txt"; fi
rundemo() { # $1 = repo dir
  rm -rf "$scratch/demo"; cp -r "$seed/demo" "$scratch/demo"
  (cd "$scratch/demo" && sed -i -E "s#=> /tmp/wt[23]?-[a-z0-9]+#=> $1#" go.mod && cp "$1/go.sum" go.sum 2>/dev/null; grep -rlE "/tmp/wt[23]?-" . 2>/dev/null | xargs -r sed -i -E "s#/tmp/wt[23]?-[a-z0-9]+#$1#g"; go test -count=1 -tags verif ./... 2>&1 | tail -15)
}
echo "--- demo WITH the change:"; rundemo "$scratch/repo" | grep -E "^(ok|FAIL|--- FAIL|panic)" | head -8
echo "--- demo WITHOUT the change:"; rundemo /repo | grep -E "^(ok|FAIL|--- FAIL|panic)" | head -8
