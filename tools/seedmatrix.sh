#!/bin/bash
# usage: tools/seedmatrix.sh [seed ids...]   (default: all of seeded/*)
# For every seeded change: confirm it (tools/seedconfirm.sh) and run its property's quick check against it
# (tools/seedtest.sh). Results are merged into seeded/RESULTS.json; tools/seedmeta.py then writes the meta.json files.
cd "$(dirname "$0")/.."
ids=${*:-$(ls seeded | grep -E '^C[0-9]+-[0-9]+$')}
for s in $ids; do
  id=${s%-*}
  c=$(tools/seedconfirm.sh seeded/$s 2>&1)
  suite=false; echo "$c" | grep -q "verdicts identical" && suite=true
  dw=$(echo "$c" | sed -n '/demo WITH the change/,/demo WITHOUT/p' | grep -cE "^FAIL|^--- FAIL|^panic")
  dwo=$(echo "$c" | sed -n '/demo WITHOUT the change/,$p' | grep -cE "^ok")
  dwof=$(echo "$c" | sed -n '/demo WITHOUT the change/,$p' | grep -cE "^FAIL|^--- FAIL|^panic")
  t=$(tools/seedtest.sh seeded/$s $id quick --budget ${SEED_BUDGET:-400} 2>&1)
  det=false; echo "$t" | grep -q "DETECTED" && det=true
  clauses=$(echo "$t" | grep -E "^\s+clause=" | grep -oE "clause=[^ ]+ site=[^ ]*" | sort -u | tr '\n' ';')
  echo "$s suite_identical=$suite demo_with_fail=$dw demo_without_ok=$dwo detected=$det $clauses"
  flock seeded/.lock python3 - "$s" "$suite" "$dw" "$dwo" "$dwof" "$det" "$clauses" <<'PY'
import json,sys,os
s,suite,dw,dwo,dwof,det,cl=sys.argv[1:]
p='seeded/RESULTS.json'
r=json.load(open(p)) if os.path.exists(p) else {}
r[s]={"suite_identical":suite=="true","demo_with":int(dw)>0,"demo_without":int(dwo)>0 and int(dwof)==0,"detected":det=="true","clauses":[c for c in cl.split(';') if c]}
json.dump(r,open(p,'w'),indent=1,sort_keys=True)
PY
done
