#!/bin/bash
# usage: tools/applyseries.sh <patch-dir> <messages-file> [test packages...]
# messages file: lines "NN|fix: title|body line 1|body line 2" (NN = patch file prefix)
# Applies each patch to /repo, runs the given test packages, commits (or reverts when tests fail).
set -u
dir=$1; msgs=$2; shift 2; pkgs=${*:-./...}
export GOFLAGS=-mod=mod GOPROXY=off GOSUMDB=off GOTOOLCHAIN=local
cd /repo
while IFS='|' read -r nn title b1 b2 b3; do
  [ -z "$nn" ] && continue
  f=$(ls $dir/$nn-*.diff 2>/dev/null | head -1)
  [ -z "$f" ] && { echo "NOFILE $nn"; continue; }
  if ! patch -p1 -s --no-backup-if-mismatch < "$f"; then echo "PATCHFAIL $nn"; git checkout -- . ; continue; fi
  if ! go build ./... 2>/tmp/ap.err; then echo "BUILDFAIL $nn"; head -5 /tmp/ap.err; git checkout -- .; continue; fi
  if go test -count=1 $pkgs 2>&1 | grep -E "^(FAIL\s+\S|--- FAIL|panic)" | grep -v "html/layout\|html/document\|webrender/text\s\|panic: loading font set" > /tmp/ap.fail; [ -s /tmp/ap.fail ]; then echo "TESTFAIL $nn"; head -5 /tmp/ap.fail; git checkout -- .; git clean -fdq; continue; fi
  if [ -n "${LAYOUTTESTS:-}" ]; then
    /verif/tools/layouttests.sh > /tmp/ap.lt 2>/dev/null
    if ! diff -q /verif/tools/layouttests-baseline.txt /tmp/ap.lt >/dev/null; then echo "LAYOUTTESTS DIFFER $nn"; diff /verif/tools/layouttests-baseline.txt /tmp/ap.lt | head -6; git checkout -- .; git clean -fdq; continue; fi
  fi
  git add -A; git commit -q -m "$title" -m "$b1
$b2
$b3" && echo "OK $nn $(git log --format=%h -1) $title"
done < "$msgs"
