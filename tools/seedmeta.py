#!/usr/bin/env python3
"""Writes seeded/<id>/meta.json from the table below plus the detection results in seeded/RESULTS.json
(produced by tools/seedmatrix.sh). The table records, for every independently seeded change, which property it
breaks and what it needs in order to manifest (from the author's notes.md, checked by tools/seedconfirm.sh)."""
import json, os, sys

ROOT = os.path.dirname(os.path.dirname(os.path.abspath(__file__)))
T = {
 "C01-1": ("C01", "svg/tree.go inheritElement: the href deletion that stops gradient/pattern href cycles is deferred until after the recursive call: fatal stack overflow while building the formatting structure",
           "an SVG (inline, <img> or data: URL) whose gradient or pattern href chain loops back (p->p, a->b->a); acyclic chains are unaffected"),
 "C01-2": ("C01", "html/layout/float.go avoidCollisions: 'newPositionY > positionY' became '>=': layout spins forever",
           "a colliding float of zero margin height lying exactly at the top of a later box that is too wide for the room beside it (empty float / font-size:0 float on a tiny page)"),
 "C03-1": ("C03", "html/tree/tree.go matcher.match: after the first selector of a rule's list matches an element the remaining selectors are skipped, so the rule applies with the specificity of the FIRST matching member",
           "a selector list with at least two members matching the same element, the less specific one first, plus a competing rule of intermediate specificity"),
 "C03-2": ("C03", "html/tree/style.go declarationPrecedence: !important adds 2 to the origin rank instead of reversing the origin order: author !important beats user !important",
           "a user style sheet with an !important declaration competing with an author !important rule or style attribute"),
 "C04-1": ("C04", "html/boxes/build.go wrapTable: the table box's style is no longer copied before the wrapper properties are reset on it, so the reset is written into the <table> element's own computed style",
           "a display:table/inline-table element with a non-initial margin/opacity/z-index/... and a child or pseudo-element declaring 'inherit' for it, its style being resolved after box building"),
 "C04-2": ("C04", "css/properties/main.go TextRatioCache: the ex and ch maps are merged and a hit on the other unit's slot returns ratio 0",
           "both 'ex' and 'ch' used in one document on elements sharing the same font: whichever is resolved second computes to 0px"),
 "C05-1": ("C05", "css/selector/pseudo_classes.go: *-of-type pseudo-classes compare element types by DataAtom instead of by name",
           "siblings with different tag names that are both missing from the x/net/html atom table (custom elements, SVG shapes)"),
 "C05-2": ("C05", "css/selector: specificity of :is/:not/:has computed with a component-wise maximum instead of the most specific argument",
           "two or more arguments none of which dominates the others on every component, e.g. :is(#a, .b.c)"),
 "C06-1": ("C06", "css/parser/tokenizer.go consumeUrl: in the remnants of a bad url the character after a backslash is read as if unescaped: an escaped ')' ends the bad url early",
           "an unquoted url( that goes bad followed by exactly '\\)' before the real closing ')'"),
 "C06-2": ("C06", "css/parser/parser.go parseDeclaration: the '{} block must be the whole value' check runs before !important is stripped",
           "a non-custom declaration whose value is exactly one {} block and that carries !important"),
 "C07-1": ("C07", "svg/parser.go parseURL: quote stripping accepts a single quote character: slice bounds out of range [1:0]",
           "a reference attribute (clip-path, mask, marker-*, filter, href) whose value is exactly url(') or url(\")"),
 "C07-2": ("C07", "css/validation/utils.go getTarget: arity cases of target-counter/target-counters merged: index out of range on the missing separator",
           "target-counters() with exactly two arguments (link and identifier) in content / string-set / bookmark-label"),
 "C08-1": ("C08", "html/tree/style.go resolveVarSeen: the variables being resolved are tracked in a never-cleared set: an acyclic repetition is reported as a cycle",
           "the same custom property referenced twice below the top level of one value (diamond, rgb(var(--g), var(--g), var(--g)))"),
 "C08-2": ("C08", "html/tree/style.go resolveVarSeen: var() inside a function is substituted in place in the token list shared by all elements matching the rule",
           "a var() inside a function resolved for at least two elements whose custom property differs; or a multi-token value placed before other arguments"),
 "C09-1": ("C09", "html/boxes/build.go innerBlockInInline: BlockLevelT.IsInstance became BlockT.IsInstance: flex/grid/block-replaced boxes stay inside inline boxes",
           "a display:flex or display:grid container or a display:block replaced element nested in an inline element"),
 "C09-2": ("C09", "html/boxes/build.go wrapTable: the loop that steps over occupied grid slots became an if: a cell lands inside a spanning cell",
           "a cell that must step over at least two consecutive occupied slots (two adjacent rowspan cells, or one cell with rowspan and colspan > 1)"),
 "C10-1": ("C10", "html/layout/min_max.go handleMinMaxWidth: the two clamps became if/else-if: min-width no longer wins over max-width",
           "min-width > max-width together with a tentative width above max-width"),
 "C10-2": ("C10", "html/layout/blocks.go inFlowLayout: positionY = max(positionY, newPositionY): the block cursor never moves back up",
           "a block whose collapsed negative top margin exceeds its own border-box height (margin-top:-30px; height:10px)"),
 "C11-1": ("C11", "html/layout/inline.go splitInlineBox: margin-bottom of an inline box computed with PaddingTop instead of PaddingBottom: lines grow",
           "an inline box whose bottom padding is larger than its top padding"),
 "C11-2": ("C11", "html/layout/inline.go canBreakInside: 'pre-line' dropped from the wrapping white-space values: overflow and early breaks",
           "white-space:pre-line, an inline element glued to its previous sibling, the overflow falling inside it, a space inside an earlier sibling"),
 "C12-1": ("C12", "html/layout/blocks.go findEarlierPageBreak: 'index < orphans' became '<=': the only conforming break inside a paragraph is not found",
           "an avoided break after a splittable paragraph of exactly orphans+widows lines, the next box not fitting"),
 "C12-2": ("C12", "html/layout/blocks.go blockContainerLayout abort path: the next page is named after the cancelled box's LAST descendant instead of its first",
           "a cancelled first child whose first in-flow descendant is on page a and last on page b, following content already on an a page"),
 "C14-1": ("C14", "html/document/document.go resolveLinks: anchors are no longer de-duplicated across pages",
           "the same id on two or more different pages (an element split by a page break, or two elements with the same id)"),
 "C14-2": ("C14", "html/document/draw.go drawBorderImage: the vertical branch tests sliceWidth == 0 instead of sliceHeight == 0: +Inf/NaN reach the backend",
           "a border-image whose top or bottom slice is 0 while the side slices are not (0 10 10 10, 0 25%)"),
 "C15-1": ("C15", "text/hyphen/hyphen.go IterateRunes: the local copy of a dictionary entry is dropped, so the shared cached dictionary is modified in place",
           "lang=hu text with hyphens:auto and a narrow line forcing a non-standard hyphenation, rendered twice in one process (or concurrently)"),
 "C15-2": ("C15", "svg/tree.go inheritElement: the recursive call on the referenced element is removed, so a chain of hrefs is resolved in map iteration order",
           "an SVG with a chain of at least three gradients or patterns linked by href, an attribute defined only at the far end"),
 "C16-1": ("C16", "html/document/stacking.go: the two sort.SliceStable calls ordering z-index contexts became sort.Slice",
           "at least 13 child contexts of the same sign in one stacking context, some sharing a z-index (sort.Slice is stable up to 12 elements)"),
 "C16-2": ("C16", "html/document/stacking.go dispatch: a float's positioned descendants are captured by the float instead of the enclosing context",
           "a non-positioned float containing a positioned or context-creating descendant, overlapped by another box of the parent context"),
 "C17-1": ("C17", "matrix/matrix.go: mult takes pointers; LeftMultBy and Mul3 alias the destination with the right operand",
           "a left factor with B != 0 and (A != 1 or C != 0): a rotation or general matrix; e.g. an SVG gradientTransform"),
 "C17-2": ("C17", "html/tree/computed_values.go transforms: resolved translate() lengths are written back into the declaration shared by all matched elements",
           "one rule with translate(<em/ex/ch/rem>) matched by two elements with different font sizes"),
 "C18-1": ("C18", "svg/elements_path.go addSeg: lastKey is no longer updated inside the loop over argument groups of S/s: the reflected control point is lost",
           "an S/s command with two or more argument groups whose previous command is not C/c/S/s"),
 "C18-2": ("C18", "svg/svg.go preserveAspectRatio.resolveTransforms: the vertical Max alignment is keyed on the horizontal keyword",
           "xMinYMax, xMidYMax or xMaxYMin together with vertical slack"),
 "C19-1": ("C19", "html/boxes/build.go UpdateCounters: a counter instantiated by counter-set is no longer registered in the sibling scope, so it is never popped",
           "counter-set on a name that no ancestor or earlier sibling has reset or incremented, observed after the parent closes or through counters()"),
 "C19-2": ("C19", "css/counters/counters.go renderValue: the pad length no longer subtracts the trailing half of the negative sign",
           "an author style with a non-empty negative suffix, a pad descriptor, a symbolic/alphabetic/numeric/additive system and a short negative value"),
 "C20-1": ("C20", "css/parser/serialize.go serializeName: 'c > 0x7F' became 'c >= 0x7F': U+007F inside a name is written raw",
           "a name (identifier, hash, at-keyword, function, unit) containing DEL after its first character, reachable only through an escape"),
 "C20-2": ("C20", "css/parser/serialize.go badPairs: '#', '-' and number dropped from the first left-hand list: 12 pairs lose their separator",
           "a '#' or '-' delimiter or a number directly followed by a number, percentage, dimension or unicode-range (adjacent only when a comment separated them)"),
 "C02-1": ("C02", "html/layout/blocks.go blockBoxLayout: the second result of columnsLayout (laid out again with a larger bottomSpace) is dropped, so the split-off remainder of a multi-column container is never laid out",
           "a multi-column container with non-zero bottom margin/padding/border whose remaining content fits the page only when that bottom spacing is ignored"),
 "C02-2": ("C02", "html/layout/layout.go layoutDocument: context.footnotes aliases the saved footnote list on repagination; removeFromBoxes filters it in place, so a later round loses a footnote's text",
           "at least two footnotes, at least three pagination rounds (content: counter(pages) in flow), a page re-made in round 2+ carrying the call of a footnote that is not the last one placed"),
 "C13-1": ("C13", "html/layout/preferred.go tableAndColumnsPreferredWidths: the horizontal spacing budget is computed from the vertical component of border-spacing",
           "auto layout, separate borders and a border-spacing with two different components (4px 20px)"),
 "C13-2": ("C13", "html/layout/preferred.go: a colspan cell's min-content is compared with its columns' MAX-content before being distributed",
           "a colspan cell whose longest word is wider than its columns' min-content but not than their max-content, in a squeezed auto-layout table"),
}

def main():
    results = {}
    rp = os.path.join(ROOT, "seeded", "RESULTS.json")
    if os.path.exists(rp):
        results = json.load(open(rp))
    extra = {}
    ep = os.path.join(ROOT, "seeded", "EXTRA.json")
    if os.path.exists(ep):
        extra = json.load(open(ep))
    for sid in sorted(os.listdir(os.path.join(ROOT, "seeded"))):
        d = os.path.join(ROOT, "seeded", sid)
        if not os.path.isdir(d):
            continue
        prop, what, needs = T.get(sid, (sid.split("-")[0], "", ""))
        if sid in extra:
            what, needs = extra[sid].get("what", what), extra[sid].get("needs", needs)
        r = results.get(sid, {})
        meta = {
            "id": sid, "property": prop, "change": what, "needs_to_manifest": needs,
            "author": "independent sub-agent given only the property text and a scratch git worktree of /repo",
            "confirmed": {
                "how": "tools/seedconfirm.sh seeded/%s: patch applied to a scratch copy of /repo, go build ./..., go test ./... per-package verdicts compared with the unchanged tree, demo run with and without the change" % sid,
                "suite_identical": r.get("suite_identical"), "demo_fails_with_change": r.get("demo_with"), "demo_passes_without_change": r.get("demo_without"),
            },
            "detection": {
                "how": "tools/seedtest.sh seeded/%s %s quick: the check's quick tier run against the scratch copy (VERIF_REPO), known findings active" % (sid, prop),
                "check": prop, "tier": "quick", "detected": r.get("detected"), "clauses": r.get("clauses"), "note": r.get("note", ""),
            },
        }
        json.dump(meta, open(os.path.join(d, "meta.json"), "w"), indent=1, ensure_ascii=False)
    print("meta.json written for", len([x for x in os.listdir(os.path.join(ROOT, "seeded")) if os.path.isdir(os.path.join(ROOT, "seeded", x))]), "seeds")

if __name__ == "__main__":
    main()
