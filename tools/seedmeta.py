#!/usr/bin/env python3
"""Writes seeded/<id>/meta.json from the table below plus the detection results in seeded/RESULTS.json
(produced by tools/seedmatrix.sh). The table records, for every independently seeded change, which property it
breaks and what it needs in order to manifest (from the author's notes.md, checked by tools/seedconfirm.sh)."""
import json, os, sys

ROOT = os.path.dirname(os.path.dirname(os.path.abspath(__file__)))
T = {
 "C01-1": ("C01", "svg/tree.go inheritElement: the href deletion that stops gradient/pattern href cycles is deferred until after the recursive call: fatal stack overflow while building the formatting structure",
           "an SVG (inline, <img> or data: URL) whose gradient or pattern href chain loops back (p->p, a->b->a); acyclic chains are unaffected"),
 "C01-2": ("C01", "html/layout/float.go avoidCollisions: 'newPositionY > positionY' became '>=': layout spins forever",
           "a colliding float of zero margin height lying exactly at the top of a later box that is too wide for the room beside it (empty float / font-size:0 float on a tiny page)"),
 "C03-1": ("C03", "html/tree/tree.go matcher.match: after the first selector of a rule's list matches an element the remaining selectors are skipped, so the rule applies with the specificity of the FIRST matching member",
           "a selector list with at least two members matching the same element, the less specific one first, plus a competing rule of intermediate specificity"),
 "C03-2": ("C03", "html/tree/style.go declarationPrecedence: !important adds 2 to the origin rank instead of reversing the origin order: author !important beats user !important",
           "a user style sheet with an !important declaration competing with an author !important rule or style attribute"),
 "C04-1": ("C04", "html/boxes/build.go wrapTable: the table box's style is no longer copied before the wrapper properties are reset on it, so the reset is written into the <table> element's own computed style",
           "a display:table/inline-table element with a non-initial margin/opacity/z-index/... and a child or pseudo-element declaring 'inherit' for it, its style being resolved after box building"),
 "C04-2": ("C04", "css/properties/main.go TextRatioCache: the ex and ch maps are merged and a hit on the other unit's slot returns ratio 0",
           "both 'ex' and 'ch' used in one document on elements sharing the same font: whichever is resolved second computes to 0px"),
 "C05-1": ("C05", "css/selector/pseudo_classes.go: *-of-type pseudo-classes compare element types by DataAtom instead of by name",
           "siblings with different tag names that are both missing from the x/net/html atom table (custom elements, SVG shapes)"),
 "C05-2": ("C05", "css/selector: specificity of :is/:not/:has computed with a component-wise maximum instead of the most specific argument",
           "two or more arguments none of which dominates the others on every component, e.g. :is(#a, .b.c)"),
 "C06-1": ("C06", "css/parser/tokenizer.go consumeUrl: in the remnants of a bad url the character after a backslash is read as if unescaped: an escaped ')' ends the bad url early",
           "an unquoted url( that goes bad followed by exactly '\\)' before the real closing ')'"),
 "C06-2": ("C06", "css/parser/parser.go parseDeclaration: the '{} block must be the whole value' check runs before !important is stripped",
           "a non-custom declaration whose value is exactly one {} block and that carries !important"),
 "C07-1": ("C07", "svg/parser.go parseURL: quote stripping accepts a single quote character: slice bounds out of range [1:0]",
           "a reference attribute (clip-path, mask, marker-*, filter, href) whose value is exactly url(') or url(\")"),
 "C07-2": ("C07", "css/validation/utils.go getTarget: arity cases of target-counter/target-counters merged: index out of range on the missing separator",
           "target-counters() with exactly two arguments (link and identifier) in content / string-set / bookmark-label"),
 "C08-1": ("C08", "html/tree/style.go resolveVarSeen: the variables being resolved are tracked in a never-cleared set: an acyclic repetition is reported as a cycle",
           "the same custom property referenced twice below the top level of one value (diamond, rgb(var(--g), var(--g), var(--g)))"),
 "C08-2": ("C08", "html/tree/style.go resolveVarSeen: var() inside a function is substituted in place in the token list shared by all elements matching the rule",
           "a var() inside a function resolved for at least two elements whose custom property differs; or a multi-token value placed before other arguments"),
 "C09-1": ("C09", "html/boxes/build.go innerBlockInInline: BlockLevelT.IsInstance became BlockT.IsInstance: flex/grid/block-replaced boxes stay inside inline boxes",
           "a display:flex or display:grid container or a display:block replaced element nested in an inline element"),
 "C09-2": ("C09", "html/boxes/build.go wrapTable: the loop that steps over occupied grid slots became an if: a cell lands inside a spanning cell",
           "a cell that must step over at least two consecutive occupied slots (two adjacent rowspan cells, or one cell with rowspan and colspan > 1)"),
 "C10-1": ("C10", "html/layout/min_max.go handleMinMaxWidth: the two clamps became if/else-if: min-width no longer wins over max-width",
           "min-width > max-width together with a tentative width above max-width"),
 "C10-2": ("C10", "html/layout/blocks.go inFlowLayout: positionY = max(positionY, newPositionY): the block cursor never moves back up",
           "a block whose collapsed negative top margin exceeds its own border-box height (margin-top:-30px; height:10px)"),
 "C11-1": ("C11", "html/layout/inline.go splitInlineBox: margin-bottom of an inline box computed with PaddingTop instead of PaddingBottom: lines grow",
           "an inline box whose bottom padding is larger than its top padding"),
 "C11-2": ("C11", "html/layout/inline.go canBreakInside: 'pre-line' dropped from the wrapping white-space values: overflow and early breaks",
           "white-space:pre-line, an inline element glued to its previous sibling, the overflow falling inside it, a space inside an earlier sibling"),
 "C12-1": ("C12", "html/layout/blocks.go findEarlierPageBreak: 'index < orphans' became '<=': the only conforming break inside a paragraph is not found",
           "an avoided break after a splittable paragraph of exactly orphans+widows lines, the next box not fitting"),
 "C12-2": ("C12", "html/layout/blocks.go blockContainerLayout abort path: the next page is named after the cancelled box's LAST descendant instead of its first",
           "a cancelled first child whose first in-flow descendant is on page a and last on page b, following content already on an a page"),
 "C14-1": ("C14", "html/document/document.go resolveLinks: anchors are no longer de-duplicated across pages",
           "the same id on two or more different pages (an element split by a page break, or two elements with the same id)"),
 "C14-2": ("C14", "html/document/draw.go drawBorderImage: the vertical branch tests sliceWidth == 0 instead of sliceHeight == 0: +Inf/NaN reach the backend",
           "a border-image whose top or bottom slice is 0 while the side slices are not (0 10 10 10, 0 25%)"),
 "C15-1": ("C15", "text/hyphen/hyphen.go IterateRunes: the local copy of a dictionary entry is dropped, so the shared cached dictionary is modified in place",
           "lang=hu text with hyphens:auto and a narrow line forcing a non-standard hyphenation, rendered twice in one process (or concurrently)"),
 "C15-2": ("C15", "svg/tree.go inheritElement: the recursive call on the referenced element is removed, so a chain of hrefs is resolved in map iteration order",
           "an SVG with a chain of at least three gradients or patterns linked by href, an attribute defined only at the far end"),
 "C16-1": ("C16", "html/document/stacking.go: the two sort.SliceStable calls ordering z-index contexts became sort.Slice",
           "at least 13 child contexts of the same sign in one stacking context, some sharing a z-index (sort.Slice is stable up to 12 elements)"),
 "C16-2": ("C16", "html/document/stacking.go dispatch: a float's positioned descendants are captured by the float instead of the enclosing context",
           "a non-positioned float containing a positioned or context-creating descendant, overlapped by another box of the parent context"),
 "C17-1": ("C17", "matrix/matrix.go: mult takes pointers; LeftMultBy and Mul3 alias the destination with the right operand",
           "a left factor with B != 0 and (A != 1 or C != 0): a rotation or general matrix; e.g. an SVG gradientTransform"),
 "C17-2": ("C17", "html/tree/computed_values.go transforms: resolved translate() lengths are written back into the declaration shared by all matched elements",
           "one rule with translate(<em/ex/ch/rem>) matched by two elements with different font sizes"),
 "C18-1": ("C18", "svg/elements_path.go addSeg: lastKey is no longer updated inside the loop over argument groups of S/s: the reflected control point is lost",
           "an S/s command with two or more argument groups whose previous command is not C/c/S/s"),
 "C18-2": ("C18", "svg/svg.go preserveAspectRatio.resolveTransforms: the vertical Max alignment is keyed on the horizontal keyword",
           "xMinYMax, xMidYMax or xMaxYMin together with vertical slack"),
 "C19-1": ("C19", "html/boxes/build.go UpdateCounters: a counter instantiated by counter-set is no longer registered in the sibling scope, so it is never popped",
           "counter-set on a name that no ancestor or earlier sibling has reset or incremented, observed after the parent closes or through counters()"),
 "C19-2": ("C19", "css/counters/counters.go renderValue: the pad length no longer subtracts the trailing half of the negative sign",
           "an author style with a non-empty negative suffix, a pad descriptor, a symbolic/alphabetic/numeric/additive system and a short negative value"),
 "C20-1": ("C20", "css/parser/serialize.go serializeName: 'c > 0x7F' became 'c >= 0x7F': U+007F inside a name is written raw",
           "a name (identifier, hash, at-keyword, function, unit) containing DEL after its first character, reachable only through an escape"),
 "C20-2": ("C20", "css/parser/serialize.go badPairs: '#', '-' and number dropped from the first left-hand list: 12 pairs lose their separator",
           "a '#' or '-' delimiter or a number directly followed by a number, percentage, dimension or unicode-range (adjacent only when a comment separated them)"),
 "C02-1": ("C02", "html/layout/blocks.go blockBoxLayout: the second result of columnsLayout (laid out again with a larger bottomSpace) is dropped, so the split-off remainder of a multi-column container is never laid out",
           "a multi-column container with non-zero bottom margin/padding/border whose remaining content fits the page only when that bottom spacing is ignored"),
 "C02-2": ("C02", "html/layout/layout.go layoutDocument: context.footnotes aliases the saved footnote list on repagination; removeFromBoxes filters it in place, so a later round loses a footnote's text",
           "at least two footnotes, at least three pagination rounds (content: counter(pages) in flow), a page re-made in round 2+ carrying the call of a footnote that is not the last one placed"),
 "C13-1": ("C13", "html/layout/preferred.go tableAndColumnsPreferredWidths: the horizontal spacing budget is computed from the vertical component of border-spacing",
           "auto layout, separate borders and a border-spacing with two different components (4px 20px)"),
 "C13-2": ("C13", "html/layout/preferred.go: a colspan cell's min-content is compared with its columns' MAX-content before being distributed",
           "a colspan cell whose longest word is wider than its columns' min-content but not than their max-content, in a squeezed auto-layout table"),
 # ---- round 2 (authors were told what round 1 had produced and asked for different sites, clauses and triggers)
 "C01-3": ("C01", "html/document/draw.go drawCollapsedBorders: bodyRowsOffset = skippedRows - footerRows (was headerRows): index out of range while drawing",
           "border-collapse:collapse, a <thead> with more than twice as many rows as the <tfoot>, the table split over two or more pages (crash on the last fragment, layout alone never fails)"),
 "C01-4": ("C01", "html/boxes/build.go computeContentList 'quote': the clamp of the quote depth at 0 is dropped: quotes[-1]",
           "close-quote / no-close-quote evaluated while the document-wide quote depth is 0 (also in a page margin box); no-close-quote makes the NEXT ordinary <q> panic"),
 "C02-3": ("C02", "html/layout/blocks.go findEarlierPageBreak: the resume index after an accepted earlier break is taken from previousInFlow instead of children[index]",
           "an avoided break (break-before/after:avoid) moved to an earlier boundary between two in-flow siblings with a float or absolutely positioned box sitting between them: that box appears on no page"),
 "C02-4": ("C02", "html/document/draw.go drawStackingContext step 7: LineT.IsInstance(last child) became layout.IsLine(last child), true for InlineBox too",
           "an inline box painted as a stacking context (position:relative or opacity<1 on a span) whose LAST child is itself an inline box: its text reaches DrawText twice"),
 "C03-3": ("C03", "html/tree/style.go GetAllComputedStyles: the presentational-hints sheet is appended after the author sheets",
           "presentational hints on, an element matched by a rule of html5_ph.css (p[align=center], td[nowrap], ol[type=a]...), an author rule of specificity (0,0,0) (*) for the same property"),
 "C03-4": ("C03", "css/validation/validation.go PreprocessDeclarationsPrelude: ownDecls = ownDecls[:0] after being emitted ahead of a nested rule (shared backing array)",
           "a rule with valid declarations both before and after a nested rule in the same block: the earlier ones are overwritten"),
 "C04-3": ("C04", "html/tree/style.go: the root font size used by rem is cached in a field that every pseudo-element of the root overwrites",
           "rem in @page rules, margin boxes or pseudo-elements, and a root pseudo-element (html::after, ::footnote-call of the UA sheet...) whose font size differs from the root's; depends on map order unless all root pseudo-elements agree"),
 "C04-4": ("C04", "html/tree/computed_values.go length_: the keyword guard tests 'contents' instead of 'content'",
           "flex-basis: content (or flex: 1 1 content): computes to 0px instead of the keyword"),
 "C05-3": ("C05", "css/selector/selector.go matchInclude: the last word of the attribute value is compared case-sensitively even with the i flag",
           "[attr~=val i] where the only matching word differs in case and is the last or only word of the value"),
 "C05-4": ("C05", "css/selector/pseudo_classes.go hasDescendantMatch recurses into hasChildMatch: :has() searches two levels only",
           ":has(X) with X matched only three or more levels below the candidate"),
 "C06-3": ("C06", "css/parser/tokenizer.go updateLine: bytes.LastIndexByte became bytes.IndexByte",
           "a single token containing two or more newlines (blank line in whitespace, multi-line comment, string with two escaped newlines): later line/column positions are wrong"),
 "C06-4": ("C06", "css/parser/tokenizer.go isIdentStart: after a leading '-' the valid-escape test looks at the '-' instead of the next character",
           "exactly '-' '\\' newline where an identifier could start (also after a number or '@'): ident/dimension/at-keyword named '-' instead of delimiters"),
 "C07-3": ("C07", "utils/html.go parseW3cDate: fractional seconds captured by an unbounded \\d+ group and fed to a panicking Atoi helper",
           "<meta name=dcterms.created|modified> with seconds and a fraction of 19 or more digits"),
 "C07-4": ("C07", "svg/tree.go inheritElement: the href of a gradient/pattern is deleted after the recursive template resolution instead of before",
           "a cycle of href references among linearGradient/radialGradient/pattern (self, pair, loop of three): fatal stack overflow in svg.Parse"),
 "C08-3": ("C08", "css/validation/expanders.go expandBackground: background-size of a multi-layer background shorthand is written in reverse layer order",
           "the background shorthand with at least two layers whose '/ <bg-size>' parts differ"),
 "C08-4": ("C08", "css/parser/tokenizer.go RemoveWhitespace: a fast path returns the list unchanged when it holds no whitespace token, although comments must be removed too",
           "a comment inside a value or function-argument list that has no whitespace at that level (margin:1px/**/2px, translate(1px,/*dy*/2px), var(--u,/*f*/50px))"),
 "C09-3": ("C09", "html/boxes/build.go elementToBox: the footnote display rewrite moved above the display:none test",
           "float:footnote and display:none on the same element: it generates boxes, a marker and a call"),
 "C09-4": ("C09", "html/boxes/html.go makeReplacedBox copies the whole box struct (including Children) onto the replaced box",
           "a replaced element that loads and has content: <object> fallback, img::before/::marker, children of an inline <svg>"),
 "C10-3": ("C10", "html/layout/blocks.go blockLevelWidth_: margins are added to the total only when both are non-auto",
           "specified width, margin-left:auto, a specified margin-right, and width+padding+border <= containing width < that + margin-right"),
 "C10-4": ("C10", "html/layout/blocks.go blockContainerLayout: a collapsed-through block returns its single collapsed value instead of the adjoining-margin list",
           "an empty block whose adjoining margins mix a positive and a negative value, followed by one more non-zero adjoining margin (collapsing is not associative)"),
 "C11-3": ("C11", "html/layout/inline.go getNextLinebox: maxX is computed after the text-indent shift",
           "a non-zero text-indent on a paragraph that wraps, the first line full enough that the extra (or missing) room moves the break"),
 "C11-4": ("C11", "html/layout/inline.go getNextLinebox: textAlign is told 'last line' only when resumeAt == nil, no longer after a forced break",
           "a forced line break (<br>, preserved newline) on a line that is not the block's last, with justify or a text-align-last different from text-align"),
 "C12-3": ("C12", "html/layout/blocks.go blockLevelPageBreak: the row {page, avoid} of the precedence table is deleted",
           "an avoid (e.g. the UA sheet's h1-h6 page-break-after:avoid) earlier in tree order than a forced page break at the same break point: the forced break is dropped"),
 "C12-4": ("C12", "html/layout/pages.go newVerticalBox: paddingPlusBorder uses BorderTopWidth twice",
           "an @page rule whose top and bottom border widths differ"),
 "C13-3": ("C13", "html/layout/tables.go tableLayout: ColumnPositions are kept from the previous page when the table resumes",
           "a table split over two or more pages whose horizontal geometry differs (@page :first/:left/:right margins)"),
 "C13-4": ("C13", "html/layout/tables.go groupLayout: a spanning cell's contribution to a fixed-height row is computed relative to the group top, and cells are only stretched for positive extra (two sites)",
           "a rowspan>1 cell that does not start in the first row of its group, a specified height on the last spanned row, content taller than the spanned rows"),
 "C14-3": ("C14", "svg/svg.go applyClipPath keeps the guard rectangle only for a childless clipPath",
           "a clipPath whose children all build no path (rect width=0, circle r=0, path d='', empty g, hidden child): Clip() without a path"),
 "C14-4": ("C14", "html/document/document.go resolveLinks: fast path returning the links unfiltered when the document has no anchor",
           "a dangling internal link in a document without any id"),
 "C15-3": ("C15", "html/tree/style.go: the per-render ex/ch ratio cache is hoisted to package level (keyed by font description only, unsynchronised maps)",
           "a length in ex or ch plus either two renders whose font configurations resolve the same description to different fonts, or two concurrent renders computing such a length"),
 "C15-4": ("C15", "html/document/draw.go drawBackground: the copying helper reversed() is replaced by slices.Reverse in place on the rendered page's layers",
           "a box with at least two background layers and the same Document written or painted more than once"),
 "C16-3": ("C16", "html/document/draw.go drawStackingContext: ctx.dst captured in a local before it is reassigned to the opacity group",
           "opacity<1 and overflow other than visible on the same box, content sticking out of its padding box: the clip goes to the wrong canvas"),
 "C16-4": ("C16", "html/document/stacking.go dispatch: insertion index taken from the local list instead of the shared one",
           "a positioned z-index:auto box nested in a positioned-auto box / float / inline-block, an earlier sibling context in the same real stacking context, overlap"),
 "C17-3": ("C17", "css/properties/datas.go: PTransformOrigin dropped from TableWrapperBoxProperties",
           "a table wrapper (table, inline-table) with a non-translation transform and a non-default transform-origin"),
 "C17-4": ("C17", "matrix/matrix.go (*Transform).Rotate inlined with the wrong pairing of entries (left-multiplies the linear part)",
           "an SVG rotate() after something that does not commute with rotations (non-uniform scale, skew, matrix) in the same list"),
 "C18-3": ("C18", "svg/elements_path.go findEllipseCenter: the radii range check compares with rx*ry instead of ry^2",
           "an arc with rx != ry whose squared half-chord in the scaled space falls between ry^2 and rx*ry"),
 "C18-4": ("C18", "svg/svg.go drawNode: the clip-path recursion guard is released even when it was not acquired",
           "a clip-path cycle that can be re-entered twice from inside one activation (a clipPath whose two children both reference it)"),
 "C19-3": ("C19", "html/layout/layout.go Layout: tree.UACounterStyle itself is used as the per-document counter-style table",
           "two renders in one process: the earlier defines @counter-style N, the later uses the name N (predefined and overridden, or undefined)"),
 "C19-4": ("C19", "html/boxes/build.go elementToBox: ::after is built after the children's counter scope is popped",
           "a ::after that reads a counter created by one of the element's children, or that itself resets/increments/sets a counter"),
 "C20-3": ("C20", "css/parser/serialize.go AtRule.serializeTo: 'Content == nil' became 'len(Content) == 0'",
           "an at-rule whose {} block holds no token at all (@media print{}): written as a statement at-rule"),
 "C20-4": ("C20", "css/parser/serialize.go serializeStringValue: a fast path returns strings without \" \\ LF CR unescaped, forgetting FF",
           "a string whose value contains U+000C (only reachable through an escape) and none of \" \\ LF CR"),
}

def main():
    results = {}
    rp = os.path.join(ROOT, "seeded", "RESULTS.json")
    if os.path.exists(rp):
        results = json.load(open(rp))
    extra = {}
    ep = os.path.join(ROOT, "seeded", "EXTRA.json")
    if os.path.exists(ep):
        extra = json.load(open(ep))
    extx = {}
    if os.path.exists(os.path.join(ROOT, "seeded", "EXTENSIONS.json")):
        extx = json.load(open(os.path.join(ROOT, "seeded", "EXTENSIONS.json")))
    for sid in sorted(os.listdir(os.path.join(ROOT, "seeded"))):
        d = os.path.join(ROOT, "seeded", sid)
        if not os.path.isdir(d):
            continue
        prop, what, needs = T.get(sid, (sid.split("-")[0], "", ""))
        if sid in extra:
            what, needs = extra[sid].get("what", what), extra[sid].get("needs", needs)
        r = results.get(sid, {})
        meta = {
            "id": sid, "property": prop, "change": what, "needs_to_manifest": needs,
            "author": "independent sub-agent given only the property text and a scratch git worktree of /repo",
            "confirmed": {
                "how": "tools/seedconfirm.sh seeded/%s: patch applied to a scratch copy of /repo, go build ./..., go test ./... per-package verdicts compared with the unchanged tree, demo run with and without the change" % sid,
                "suite_identical": r.get("suite_identical"), "demo_fails_with_change": r.get("demo_with"), "demo_passes_without_change": r.get("demo_without"),
            },
            "detection": {
                "how": "tools/seedtest.sh seeded/%s %s quick: the check's quick tier run against the scratch copy (VERIF_REPO), known findings active" % (sid, prop),
                "check": prop, "tier": "quick", "detected": r.get("detected"), "clauses": r.get("clauses"), "note": r.get("note", ""),
                "check_extension_needed": extx.get(sid, ""),
            },
        }
        json.dump(meta, open(os.path.join(d, "meta.json"), "w"), indent=1, ensure_ascii=False)
    # human-readable table
    rows = ["# Seeded changes", "",
            "Each directory holds `patch.diff` (applies to /repo's current tree), `demo/` (fails with the change, passes without),",
            "`notes.md` (the author's account) and `meta.json` (written by tools/seedmeta.py from tools/seedmatrix.sh results).",
            "Authors were independent sub-agents given only the property text and a scratch worktree; none of these changes is",
            "ever committed to /repo. `detected` = the property's quick check, run against a scratch copy with the change applied,",
            "exits 1 with a VIOLATION line whose clause is listed. `extension` = what had to be added to the check before it did.", "",
            "| seed | change | needs to manifest | detected (quick) | clauses | extension that was needed |", "|---|---|---|---|---|---|"]
    ext = {}
    xp = os.path.join(ROOT, "seeded", "EXTENSIONS.json")
    if os.path.exists(xp):
        ext = json.load(open(xp))
    for sid in sorted(T):
        prop, what, needs = T[sid]
        r = results.get(sid, {})
        cl = ", ".join(sorted(set(c.split(" ")[0].replace("clause=", "") for c in r.get("clauses", []))))
        rows.append("| %s | %s | %s | %s | %s | %s |" % (sid, what.replace("|", "\\|"), needs.replace("|", "\\|"),
                    {True: "yes", False: "NO", None: "not run"}[r.get("detected")], cl, ext.get(sid, "")))
    open(os.path.join(ROOT, "seeded", "README.md"), "w").write("\n".join(rows) + "\n")
    print("meta.json written for", len([x for x in os.listdir(os.path.join(ROOT, "seeded")) if os.path.isdir(os.path.join(ROOT, "seeded", x))]), "seeds")

if __name__ == "__main__":
    main()
