#!/usr/bin/env python3
"""Regenerates /verif/MANIFEST.json from tools/checks.json (claimed checks) and properties.jsonl."""
import json, os, subprocess
root = os.path.dirname(os.path.dirname(os.path.abspath(__file__)))
checks = json.load(open(os.path.join(root, "tools", "checks.json")))
props = [json.loads(l)["id"] for l in open(os.path.join(root, "properties.jsonl"))]
claimed = {c["property_id"] for c in checks["checks"]}
hooks = subprocess.run(["git", "-C", "/repo", "log", "--format=%H %s"], capture_output=True, text=True).stdout.splitlines()
hook_commits = [l.split()[0] for l in hooks if l.split(" ", 1)[1].startswith("verif hook:")]
m = {
    "version": 1,
    "setup_cmd": "bin/setup",
    "hooks": {
        "guard": "verif",
        "enable": "go build -tags verif (bin/check rebuilds .work/verif from /repo's working tree on every run; C15 additionally passes generated -overlay files)",
        "baseline_off_cmd": "cd /repo && GOFLAGS=-mod=mod GOPROXY=off GOSUMDB=off go test -json -vet=off -count=1 -timeout 25m ./...",
        "source_commits": hook_commits[::-1],
        "add_only": True,
    },
    "engines": checks.get("engines", []),
    "checks": [],
    "notes": checks.get("notes", ""),
    "not_applicable": [],
}
for c in checks["checks"]:
    pid = c["property_id"]
    m["checks"].append({
        "property_id": pid,
        "quick_cmd": f"bin/check {pid} --tier quick",
        "thorough_cmd": f"bin/check {pid} --tier thorough",
        "evidence_file": f"/verif/evidence/{pid}.json",
        "replay_cmd_template": "bin/check replay {path}",
        "engine": c.get("engine", "E1"),
        "level_claimed": {"category": "model_checking", "text": c["level_text"], "design_ref": c.get("design_ref", f"DESIGN.md §5 {pid}")},
        "level_note": c["level_note"],
        "technique": c["technique"],
    })
for p in props:
    if p not in claimed:
        m["not_applicable"].append({"property_id": p, "reason": checks.get("unclaimed", {}).get(p, "check not built yet (work in progress); bounded exhaustive exploration applies, see DESIGN.md §5")})
json.dump(m, open(os.path.join(root, "MANIFEST.json"), "w"), indent=1)
print("claimed", sorted(claimed), "unclaimed", len(m["not_applicable"]))
