#!/bin/bash
# usage: tools/seedtest.sh <seeded-dir> <ID> [tier] [extra check args]
# Applies seeded/<x>/patch.diff to a scratch copy of /repo (never to /repo itself), runs the check against
# the copy (VERIF_REPO) and reports whether it raised a VIOLATION. The scratch copy is removed afterwards.
set -u
seed=$(readlink -f "$1"); id=$2; tier=${3:-quick}; shift 3 2>/dev/null || shift 2
cd "$(dirname "$0")/.."
scratch=$(mktemp -d /tmp/seedtest-XXXXXX)
alt=.work/alt-$(echo "$scratch/repo" | md5sum | cut -c1-8)
trap 'rm -rf "$scratch" "$alt"' EXIT
rsync -a --exclude .git /repo/ "$scratch/repo/"
if ! (cd "$scratch/repo" && patch -p1 -s < "$seed/patch.diff"); then echo "SEEDTEST: patch does not apply"; exit 3; fi
cp KNOWN_FINDINGS.txt "$scratch/"
VERIF_REPO="$scratch/repo" bin/check "$id" --tier "$tier" --root "$scratch" "$@" > "$scratch/out.txt" 2>&1
rc=$?
grep -E "^VIOLATION|^KNOWN-FINDING|^$id tier" "$scratch/out.txt" | cut -c1-300
grep -A3 "^VIOLATION" "$scratch/out.txt" | grep -E "clause=|detail" | head -8 | cut -c1-300
echo "SEEDTEST seed=$(basename "$seed") check=$id tier=$tier exit=$rc $( [ $rc -eq 1 ] && echo DETECTED || echo MISSED )"
