#!/bin/bash
# usage: tools/seedsave.sh <ID> <worktree> <first-number>
# Copies <worktree>/seed/1 and /seed/2 (patch.diff, demo, notes.md) to seeded/<ID>-<n>, <ID>-<n+1>.
cd "$(dirname "$0")/.."
id=$1; wt=$2; n=${3:-3}
for k in 1 2; do
  src=$wt/seed/$k; dst=seeded/$id-$((n+k-1))
  [ -f "$src/patch.diff" ] || { echo "no $src/patch.diff"; continue; }
  rm -rf "$dst"; mkdir -p "$dst"
  cp "$src/patch.diff" "$dst/"; cp -r "$src/demo" "$dst/demo"; cp "$src/notes.md" "$dst/" 2>/dev/null
  find "$dst" -name '*.test' -delete; du -sh "$dst" | cut -f1
done
